"""C12 -- Yosys-compatible translation is equivalent, with a faithful flat port map.  (DESIGN.md section 4, C03 / C12)

Static analysis of the translator only.  The rules shared with C03 (sa/tr_util.py) are run for the Yosys back-end
(`YosysTranslator`, whose visitors subclass the SystemVerilog ones and delegate with super()); the flattening rules
(R-C12-*) are specific to this property."""
from functools import partial

from sa import tr_util as T

PID = 'C12'
BACKEND = 'yosys'

EXPLANATION = (
    "Static analysis of the Yosys back-end on top of the shared RTLIR front end and generic translator; YosysTranslator is linked "
    "statically (mk_VTranslator / mk_RTLIRTranslator call sites resolved, C3 MRO over the Yosys x SystemVerilog x generic mix-in "
    "towers), emitter methods are executed symbolically and their string construction is partially evaluated into Verilog "
    "skeletons with holes; handlers that delegate with super() are followed into the SystemVerilog classes. Shared rules (as C03, "
    "evaluated on the Yosys MRO): R-tr-hooks, R-tr-handlers, R-tr-optable (plus agreement of the Yosys and SV operator tables), "
    "R-tr-assign, R-tr-slice (incl. the Yosys size-cast forms x[msb:0] / zero padding), R-tr-width-cast, R-tr-conn (incl. the "
    "queue discipline of rtlir_tr_connection: first dequeued = writer, second = reader), R-tr-sigexpr, R-tr-for, R-tr-modname, "
    "R-tr-constcache, R-tr-index-queue, R-tr-dedup-scope, R-tr-loop-state, R-tr-memo-scope, R-tr-ident-intact, R-tr-ifc-source, R-tr-range, R-tr-block-state, R-tr-name-scope, R-tr-const-inline (the Yosys back-end declares no constants: a constant-array access is inlined or rejected on every path), R-layout-agree (Yosys struct literals: first field most significant, packed-array element 0 least "
    "significant). Flattening rules: R-C12-flatten -- a flat leaf port is connected to [c-1 : c-w] of the packed wire with a "
    "running MSB counter that starts at the struct width, is handed to a field before that field's width is subtracted, decreases "
    "by field.get_length() in declaration order and is asserted to end at 0; packed arrays iterate n-1..0 and advance by "
    "total_width // n per element of the outermost dimension; R-C12-mangle -- every port / wire / connection / behavioural "
    "generator mangles parent__child with the same separator; R-C12-index-order -- recursive array generators build the wire "
    "index in the order of the declared wire's dimensions and of the indices in the flat name; R-C12-deq -- nested literals do not "
    "queue their own expression record, every amending operation addresses the record at the end where records are queued "
    "(evaluated for 1 / 2 / 3 queued records) and the connection removes from the other end; R-tr-rtype-eq, R-tr-port-skip and "
    "R-tr-dims-elem as in C03 (RTLIR type equality admits only identically declared array elements; gen_mapped_ports skips clk / "
    "reset exactly as asked; a dimension list and the type handed on with it describe the same array, on a [2][3] array) R-tr-dims-recursion (array generators reach every index tuple once, on [2,3] and [3,2]) and R-tr-sections (every "
    "non-empty section reaches the module text exactly once) as in C03; R-C12-wire-forms -- whoever declares packed and per-field forms of a signal also emits the "
    "assigns between them. "
    "NOT decided: cycle-for-cycle equivalence of arbitrary designs, syntactic validity of arbitrary emitted text, single driver per "
    "variable of the emitted text (in particular the number of assigns generated per flat leaf of nested struct outputs), the port "
    "map of placeholders.")
ASSUMPTIONS = [
    "IEEE-1364/1800 two-state semantics of the operators in the reference table on equal-width unsigned operands",
    "the type checker (C10) gives both operands of a binary operator equal widths and sets node.Type to the width the simulation uses",
    "rdt.Struct.get_all_properties() lists fields in declaration order, first field most significant; PackedArray.get_length() is the "
    "product of its dimensions and the element width (C06 layout)",
    "wires of flattened arrays are declared with the dimension lists concatenated as written in the declaring function (A + B)",
    "Python evaluates call arguments left to right (writer expression is translated and queued before the reader expression)",
    "helper code outside the anchored translator classes (make_indent) only changes white space",
]

_SHARED = (T.rule_hooks, T.rule_handlers, T.rule_optable, T.rule_assign, T.rule_slice, T.rule_width_cast, T.rule_conn,
           T.rule_sigexpr, T.rule_for, T.rule_modname, T.rule_constcache, T.rule_layout, T.rule_index_queue, T.rule_dedup_scope,
           T.rule_loop_state, T.rule_memo_scope, T.rule_ident_intact, T.rule_name_scope, T.rule_const_inline,
           T.rule_ifc_source, T.rule_range_args, T.rule_block_state, T.rule_rtype_eq, T.rule_port_skip, T.rule_dims_elem, T.rule_dims_recursion,
           T.rule_component_sections)
RULES = [partial(f, backend=BACKEND) for f in _SHARED]
for _f, _g in zip(RULES, _SHARED):
    _f.__name__ = _g.__name__
RULES += [T.rule_flatten, T.rule_mangle, T.rule_index_order, T.rule_deq, T.rule_wire_forms, T.rule_dispatch]


def rule_typecheck_bounds(repo):
    """the emitter trusts the type checker: a constant index / part-select that reaches it is in range and node.Type is the width
    the simulation uses (a negative constant index would be emitted as a wrapped unsigned index).  Shared with C10
    (R-C10-widthtable: index / slice bound checks and result widths)."""
    from rules.c10 import rule_widthtable
    return rule_widthtable(repo)


RULES.append(rule_typecheck_bounds)


def rule_operand_types_intact(repo):
    """the emitter decides padding / size casts of zext, trunc, sext and reductions from the operand's type next to the result's
    type: the type checker must re-size only fresh copies of a type object, never the operand's own (a zext whose operand took
    the target width is emitted as the bare operand).  Shared with C05 (R-C05-type-alias)."""
    from rules.c05 import rule_type_objects
    return rule_type_objects(repo)


RULES.append(rule_operand_types_intact)


def rule_reserved_names(repo):
    """every declaration generator of the Yosys back-end (port / wire / interface / sub-component wire forms) passes the
    user-chosen identifier through the reserved-word check on every path.  Shared with C13 (R-C13-reserved)."""
    from rules.c13 import rule_reserved
    return rule_reserved(repo)


RULES.append(rule_reserved_names)

# ---------------------------------------------------------------------------
YB1, YB2, YB3, YB4, YB5 = T.YS_B[1:6]
YS1, YS2, YS3, YS4 = T.YS_S[1:5]
UTIL = 'pymtl3/passes/backends/verilog/util/utility.py'
VB1, VB2 = T.SV_B[1], T.SV_B[2]


def _m(name, file, old, new, rule=None, count=1):
    return dict(name=name, file=file, old=old, new=new, rule=rule, count=count)


MUTANTS = [
    dict(name='for-body-comprehension-after-unregistering', rule='R-tr-name-scope', edits=[
        dict(file=T.GEN[2], old="    # Then visit all statements inside the loop\n    body = []\n    for body_stmt in node.body:\n      body.append( s.visit( body_stmt ) )\n", new="", count=1),
        dict(file=T.GEN[2], old="    s.loop_var_env.remove( loop_var_name )\n", new="    s.loop_var_env.remove( loop_var_name )\n    body = [ s.visit( body_stmt ) for body_stmt in node.body ]\n", count=1)]),
    _m('yosys-countdown-without-wrap-guard', YB2, "      guard = f\" && {loop_var} <= {start}\"", "      guard = ''", 'R-tr-for'),
    _m('yosys-countdown-guard-compares-with-end', YB2, "      guard = f\" && {loop_var} <= {start}\"", "      guard = f\" && {loop_var} <= {end}\"", 'R-tr-for'),
    _m('yosys-negative-constant-step-emitted-as-translated', YB2, "        step_abs = str( -int( node.step._value ) )", "        pass", 'R-tr-for'),
    _m('yosys-negative-constant-step-keeps-its-sign', YB2, "        step_abs = str( -int( node.step._value ) )", "        step_abs = str( int( node.step._value ) )", 'R-tr-for'),
    # round-9 kinds
    dict(name='yosys-for-begin-end-via-local-counts-ir-statements', rule='R-tr-assign', edits=[
        dict(file=YB2, old="    begin    = ' begin' if s.count_stmts( node.body ) > 1 else ''\n\n    cmp_op", new="    multi    = len( node.body ) > 1\n    begin    = ' begin' if multi else ''\n\n    cmp_op", count=1),
        dict(file=YB2, old="    if s.count_stmts( node.body ) > 1:\n      src.extend( [ 'end' ] )", new="    if multi:\n      src.extend( [ 'end' ] )", count=1)]),
    _m('yosys-for-end-counts-ir-statements', YB2, "    if s.count_stmts( node.body ) > 1:\n      src.extend( [ 'end' ] )", "    if len( node.body ) > 1:\n      src.extend( [ 'end' ] )", 'R-tr-assign'),
    # round-8 kinds: aliasing of shared mutable state / loop-control slips / slips in generated text / key-identity collisions
    _m('array-admission-compares-second-element-only', T.RTYPE, "    for x in obj[1:]:\n      assert self.get_rtlir(x) == ref_type, \\\n", "    for x in obj[1:2]:\n      assert self.get_rtlir(x) == ref_type, \\\n", 'R-tr-rtype-eq'),
    _m('array-admission-skips-second-element', T.RTYPE, "    for x in obj[1:]:\n      assert self.get_rtlir(x) == ref_type, \\\n", "    for x in obj[2:]:\n      assert self.get_rtlir(x) == ref_type, \\\n", 'R-tr-rtype-eq'),
    _m('array-admission-stops-after-first-comparison', T.RTYPE, "    for x in obj[1:]:\n      assert self.get_rtlir(x) == ref_type, \\\n             f'all elements of array {obj} must have the same type {repr(ref_type)}!'\n",
       "    for x in obj[1:]:\n      assert self.get_rtlir(x) == ref_type, \\\n             f'all elements of array {obj} must have the same type {repr(ref_type)}!'\n      break\n", 'R-tr-rtype-eq'),
    dict(name='ifc-ports-accumulator-hoisted-out-of-the-interface-loop', rule='R-tr-loop-state', edits=[
        dict(file=T.G_S4, old="        ports = []\n        all_ifc_ports = ifc_port_rtype.get_all_properties_packed()", new="        all_ifc_ports = ifc_port_rtype.get_all_properties_packed()", count=1),
        dict(file=T.G_S4, old="      # Translate interfaces of the subcomponent\n", new="      # Translate interfaces of the subcomponent\n      ports = []\n", count=1)]),
    _m('port-array-recursion-peels-last-dimension', YS1, "        ret += s.port_gen(d, f\"{id_}__{idx}\", n_dim[1:], dtype)", "        ret += s.port_gen(d, f\"{id_}__{idx}\", n_dim[:-1], dtype)", 'R-tr-dims-recursion'),
    _m('packed-conn-recursion-peels-last-dimension', YS2, "        ret += s._packed_conn_gen( d, _pid, wid, _idx, n_dim[1:], dtype )", "        ret += s._packed_conn_gen( d, _pid, wid, _idx, n_dim[:-1], dtype )", 'R-tr-dims-recursion'),
    _m('packed-port-recursion-keeps-all-dimensions-but-one-level', YS2, "        ret += s._packed_gen( d, f\"{id_}__{i}\", n_dim[1:], dtype )", "        ret += s._packed_gen( d, f\"{id_}__{i}\", n_dim[2:], dtype )", 'R-tr-dims-recursion'),
    _m('port-glue-assigns-overwritten-by-separator', T.YS_TR, "      if p_conns and i_conns:\n        p_conns += \"\\n\"", "      if p_conns and i_conns:\n        p_conns = \"\\n\"", 'R-tr-sections'),
    _m('temporaries-appended-only-to-a-non-empty-body', T.YS_TR, "      tmpvar_decls = \"\\n\" + tmpvar_decls\n    body += tmpvar_decls", "      tmpvar_decls = \"\\n\" + tmpvar_decls\n      body += tmpvar_decls", 'R-tr-sections'),
    _m('subcomp-wires-replace-the-body', T.YS_TR, "      subcomp_wires = \"\\n\" + subcomp_wires\n    body += subcomp_wires", "      subcomp_wires = \"\\n\" + subcomp_wires\n    body = subcomp_wires", 'R-tr-sections'),
    _m('port-wires-section-doubled', T.YS_TR, "    port_wires = p_port_wires + i_port_wires\n", "    port_wires = p_port_wires + i_port_wires + p_port_wires\n", 'R-tr-sections'),
    dict(name='subcomp-wire-continue-guard-forgets-marker', rule='R-C12-wire-forms', edits=[
        dict(file=YS4, old="      if c_n_dim or n_dim or \"present\" in wire:\n        wire_decls.append( wire_template.format( **locals() ) )\n",
             new="      if not ( c_n_dim or n_dim ):\n        continue\n      wire_decls.append( wire_template.format( **locals() ) )\n", count=1)]),
    # round-7 kinds: boundary slip / wrong one of two similar names / and-or-not slip / wrong similar API
    _m('interface-view-eq-name-only', T.RTYPE, "    return isinstance(other, InterfaceView) and s.name == other.name and \\\n           s.properties == other.properties", "    return isinstance(other, InterfaceView) and s.name == other.name", 'R-tr-rtype-eq'),
    _m('interface-view-eq-name-or-ports', T.RTYPE, "    return isinstance(other, InterfaceView) and s.name == other.name and \\\n           s.properties == other.properties", "    return isinstance(other, InterfaceView) and s.name == other.name or \\\n           s.properties == other.properties", 'R-tr-rtype-eq'),
    _m('component-eq-length-or-ports', T.RTYPE, "    return (len(u)==len(v)) and all(_u == _v for _u, _v in zip(u, v))", "    return (len(u)==len(v)) or all(_u == _v for _u, _v in zip(u, v))", 'R-tr-rtype-eq'),
    _m('component-eq-ignores-length', T.RTYPE, "    return (len(u)==len(v)) and all(_u == _v for _u, _v in zip(u, v))", "    return all(_u == _v for _u, _v in zip(u, v))", 'R-tr-rtype-eq'),
    _m('component-eq-any-port', T.RTYPE, "    return (len(u)==len(v)) and all(_u == _v for _u, _v in zip(u, v))", "    return (len(u)==len(v)) and any(_u == _v for _u, _v in zip(u, v))", 'R-tr-rtype-eq'),
    _m('array-eq-ignores-dimensions', T.RTYPE, "    if s.dim_sizes != other.dim_sizes: return False\n", "", 'R-tr-rtype-eq'),
    _m('port-eq-direction-or-dtype', T.RTYPE, "    return isinstance(other, Port) and s.dtype == other.dtype and \\\n           s.direction == other.direction", "    return isinstance(other, Port) and s.dtype == other.dtype or \\\n           s.direction == other.direction", 'R-tr-rtype-eq'),
    _m('clk-reset-skips-merged', T.YS_UTIL, "    if not has_clk and name == 'clk':      continue\n    if not has_reset and name == 'reset':  continue\n", "    if name in ( 'clk', 'reset' ) and not ( has_clk and has_reset ):  continue\n", 'R-tr-port-skip', count=1),
    _m('reset-skip-tests-has-clk', T.YS_UTIL, "    if not has_reset and name == 'reset':  continue\n", "    if not has_clk and name == 'reset':  continue\n", 'R-tr-port-skip'),
    _m('clk-skipped-when-present', T.YS_UTIL, "    if not has_clk and name == 'clk':      continue\n", "    if has_clk and name == 'clk':      continue\n", 'R-tr-port-skip'),
    _m('packed-index-amends-oldest-record', YS2, "    s.deq[-1]['s_index'] += \"[{}]\"\n    s.deq[-1]['index'].append( int(index) )\n    return f'{base_signal}[{index}]'\n\n  def rtlir_tr_struct_attr",
       "    s.deq[0]['s_index'] += \"[{}]\"\n    s.deq[0]['index'].append( int(index) )\n    return f'{base_signal}[{index}]'\n\n  def rtlir_tr_struct_attr", 'R-C12-deq'),
    _m('struct-attr-amends-oldest-record', YS2, "    s.deq[-1]['s_attr'] += \"__{}\"\n    s.deq[-1]['attr'].append( attr )\n    return f'{base_signal}.{attr}'", "    s.deq[0]['s_attr'] += \"__{}\"\n    s.deq[-1]['attr'].append( attr )\n    return f'{base_signal}.{attr}'", 'R-C12-deq'),
    _m('comp-attr-amends-second-newest-record', YS1, "    s.deq[-1]['s_attr'] = attr", "    s.deq[-2]['s_attr'] = attr", 'R-C12-deq'),
    _m('connection-takes-newest-record-first', YS1, "    # First assemble the WR signal\n    sexp = s.deq.popleft()", "    # First assemble the WR signal\n    sexp = s.deq.pop()", 'R-C12-deq'),
    _m('packed-conn-peels-one-dimension', YS2, "    n_dim = _dtype.get_dim_sizes()\n    dtype = _dtype.get_sub_dtype()\n    return s._packed_conn_gen( d, pid, wid, idx, n_dim, dtype )", "    n_dim = _dtype.get_dim_sizes()\n    dtype = _dtype.get_next_dim_type()\n    return s._packed_conn_gen( d, pid, wid, idx, n_dim, dtype )", 'R-tr-dims-elem'),
    _m('packed-port-peels-one-dimension', YS2, "    n_dim = _dtype.get_dim_sizes()\n    dtype = _dtype.get_sub_dtype()\n    return s._packed_gen( d, id_, n_dim, dtype )", "    n_dim = _dtype.get_dim_sizes()\n    dtype = _dtype.get_next_dim_type()\n    return s._packed_gen( d, id_, n_dim, dtype )", 'R-tr-dims-elem'),
    _m('packed-wire-peels-one-dimension', YS2, "    _n_dim = _dtype.get_dim_sizes()\n    dtype = _dtype.get_sub_dtype()", "    _n_dim = _dtype.get_dim_sizes()\n    dtype = _dtype.get_next_dim_type()", 'R-tr-dims-elem'),
    # R-C12-flatten
    _m('leaf-slice-msb-off-by-one', YS2, "msb, lsb = c_nbits-1, c_nbits-nbits", "msb, lsb = c_nbits, c_nbits-nbits", 'R-C12-flatten'),
    _m('leaf-slice-lsb-off-by-one', YS2, "msb, lsb = c_nbits-1, c_nbits-nbits", "msb, lsb = c_nbits-1, c_nbits-nbits+1", 'R-C12-flatten'),
    _m('counter-decremented-before-use', YS2,
       '      ret += s.vec_conn_dtype_gen( d, c_nbits, pid+"__"+name, wid, idx, field )\n      c_nbits -= field.get_length()',
       '      c_nbits -= field.get_length()\n      ret += s.vec_conn_dtype_gen( d, c_nbits, pid+"__"+name, wid, idx, field )', 'R-C12-flatten'),
    _m('struct-slices-in-reverse-field-order', YS2,
       "    for name, field in dtype.get_all_properties().items():\n      ret += s.vec_conn_dtype_gen( d, cur_nbits",
       "    for name, field in reversed(list(dtype.get_all_properties().items())):\n      ret += s.vec_conn_dtype_gen( d, cur_nbits", 'R-C12-flatten'),
    _m('struct-counter-not-decremented', YS2, '      c_nbits -= field.get_length()\n    return ret', '    return ret', 'R-C12-flatten'),
    _m('struct-counter-starts-low', YS2, "cur_nbits = dtype.get_length()", "cur_nbits = dtype.get_length() - 1", 'R-C12-flatten'),
    _m('struct-counter-final-assert-dropped', YS2, "      cur_nbits -= field.get_length()\n    assert cur_nbits == 0\n", "      cur_nbits -= field.get_length()\n",
       'R-C12-flatten'),
    _m('packed-elements-ascending', YS2, "        for i in reversed( range( n_dim[0]) ):", "        for i in range( n_dim[0] ):", 'R-C12-flatten', count='first'),
    _m('packed-step-is-element-width', YS2, "dec_nbits = p_nbits // n_dim[0]", "dec_nbits = dtype.get_length()", 'R-C12-flatten'),
    _m('packed-recursion-keeps-all-dims', YS2, 'pid+"__"+str(i), wid, idx, n_dim[1:], dec_nbits, dtype)', 'pid+"__"+str(i), wid, idx, n_dim, dec_nbits, dtype)',
       'R-C12-flatten'),
    _m('packed-total-width-of-element', YS2, "p_nbits = _dtype.get_length()", "p_nbits = _dtype.get_sub_dtype().get_length()", 'R-C12-flatten'),
    # R-C12-mangle
    _m('port-field-single-underscore', YS2, 'ret += s.dtype_gen( d, id_+"__"+name, field )', 'ret += s.dtype_gen( d, id_+"_"+name, field )', 'R-C12-mangle'),
    _m('behavioural-struct-attr-mangling', YB3, """node.sexpr['s_attr'] += "__{}\"""", """node.sexpr['s_attr'] += "_{}\"""", 'R-C12-mangle'),
    _m('wire-field-mangling', YS2, 'wid+"__"+name, idx, field )', 'wid+"_"+name, idx, field )', 'R-C12'),
    _m('ifc-wire-triple-underscore', YS3, 'id_ = ifc_id + "__" + _id', 'id_ = ifc_id + "___" + _id', 'R-C12-mangle'),
    _m('subcomp-attr-mangling', YS4, """    s.deq[-1]['s_attr'] += "__{}\"\n    s.deq[-1]['attr'].append( attr )\n    return f'{base_signal}.{attr}'""",
       """    s.deq[-1]['s_attr'] += "_{}\"\n    s.deq[-1]['attr'].append( attr )\n    return f'{base_signal}.{attr}'""", 'R-C12-mangle'),
    # R-C12-index-order
    _m('port-array-index-prefixed', YS1, '_idx = f"{idx}[{i}]"', '_idx = f"[{i}]{idx}"', 'R-C12-index-order'),
    _m('packed-array-index-prefixed', YS2, '_idx = f"{idx}[{i}]"', '_idx = f"[{i}]{idx}"', 'R-C12-index-order'),
    _m('port-array-descending', YS1, "      for i in range( n_dim[0] ):\n        _pid = f\"{pid}__{i}\"", "      for i in reversed(range( n_dim[0] )):\n        _pid = f\"{pid}__{i}\"",
       'R-C12-index-order'),
    # R-C12-deq
    _m('nested-struct-queues-record', YS2, "_field = s.rtlir_tr_struct_instance( Type, field, False )", "_field = s.rtlir_tr_struct_instance( Type, field )", 'R-C12-deq'),
    _m('nested-literal-queues-record', YS2, "s_attr = s.rtlir_tr_literal_number( dtype.nbits, array, False )", "s_attr = s.rtlir_tr_literal_number( dtype.nbits, array, True )",
       'R-C12-deq'),
    _m('literal-queued-unconditionally', YS1, "    if first_called:\n      s.deq.append( {'attr':[], 'index':[], 's_attr':num_str, 's_index':\"\"} )",
       "    s.deq.append( {'attr':[], 'index':[], 's_attr':num_str, 's_index':\"\"} )", 'R-C12-deq'),
    # R-C12-wire-forms
    _m('interface-port-forms-not-connected', YS3, "connections = s.port_connection_gen( direction, port_id, n_dim, port_dtype )", "connections = []", 'R-C12-wire-forms'),
    dict(name='subcomp-ifc-wire-marker-not-forwarded', rule='R-C12-wire-forms', edits=[
        dict(file=YS4, old='        present = "present" in _wire\n', new='', count=1),
        dict(file=YS4, old='        dct = { "msb" : msb, "id_" : id_, "n_dim" : ifc_n_dim+n_dim }\n        if present:\n          dct["present"] = True\n        wire_decl.append( dct )\n',
             new='        wire_decl.append( { "msb" : msb, "id_" : id_, "n_dim" : ifc_n_dim+n_dim } )\n', count=1)]),
    _m('subcomp-ifc-conn-marker-not-forwarded', YS4, '        if present:\n          for dct in dct_list:\n            dct["present"] = True\n', '', 'R-C12-wire-forms'),
    _m('subcomp-wire-filter-ignores-marker', YS4, 'if c_n_dim or n_dim or "present" in wire:', 'if c_n_dim or n_dim:', 'R-C12-wire-forms'),
    _m('ifc-wire-filter-ignores-own-dims', YS3, 'if n_dim or ifc_ndim or "present" in wire_decl:', 'if n_dim or "present" in wire_decl:', 'R-C12-wire-forms'),
    _m('port-wire-filter-ignores-marker', YS1, '      if n_dim or "present" in dct:\n', '      if n_dim:\n', 'R-C12-wire-forms'),
    # R-tr-loop-state / R-tr-memo-scope / R-tr-ident-intact on the Yosys classes
    _m('ifc-member-array-type-leaks', YS3, "          else:\n            array_type = None\n            rtype = _rtype\n", "          else:\n            rtype = _rtype\n",
       'R-tr-loop-state'),
    dict(name='struct-width-memo-by-class-name', rule='R-tr-memo-scope', edits=[
        dict(file=YS2, old="  def wire_struct_gen( s, id_, dtype, n_dim ):\n",
             new="  _struct_nbits = {}\n\n  def _get_struct_nbits( s, dtype ):\n    name = dtype.get_class().__name__\n    if name not in s._struct_nbits:\n      s._struct_nbits[ name ] = dtype.get_length()\n    return s._struct_nbits[ name ]\n\n  def wire_struct_gen( s, id_, dtype, n_dim ):\n", count=1),
        dict(file=YS2, old='      "msb" : dtype.get_length()-1,\n      "id_" : id_,\n      "n_dim" : n_dim,\n      "present" : True', new='      "msb" : s._get_struct_nbits( dtype )-1,\n      "id_" : id_,\n      "n_dim" : n_dim,\n      "present" : True', count=1)]),
    dict(name='port-binding-truncated-by-precision', rule='R-tr-ident-intact', edits=[
        dict(file=YS4, old='p_conn_tplt = ".{port_id: <15}( {port_wire_id} )"', new='p_conn_tplt = ".{port_id: <15}( {port_wire_id:^25.25} )"', count=1),
        dict(file=YS4, old='port_wire_id = ( f"{c_id}__{_id}" ).center( 25 )', new='port_wire_id = f"{c_id}__{_id}"', count=1)]),
    _m('port-name-prefix-slice', YS1, 'wire_template = "logic {packed_type: <8} {id_}{array_dim_str};"\n    in_conn_template', 'wire_template = "logic {packed_type: <8} {id_:.30}{array_dim_str};"\n    in_conn_template',
       'R-tr-ident-intact'),
    # round-5 kinds: evaluation order of state readers, constant arrays, dispatch of the sibling recursions
    _m('seq-block-loopvars-read-before-visit', YB1, "    upblk = super().visit_SeqUpblk( node )\n    return s.get_loopvars() + upblk", "    return s.get_loopvars() + super().visit_SeqUpblk( node )", 'R-tr-assign'),
    _m('comb-block-loopvars-read-before-visit', YB1, "    upblk = super().visit_CombUpblk( node )\n    return s.get_loopvars() + upblk", "    return s.get_loopvars() + super().visit_CombUpblk( node )", 'R-tr-assign'),
    dict(name='const-array-variable-index-emitted-by-name', rule='R-tr-const-inline', edits=[
        dict(file=YB1, old="      if isinstance( subtype, rt.Const ):\n        nbits = subtype.get_dtype().get_length()\n", new="      if isinstance( subtype, rt.Const ) and hasattr( node, '_value' ):\n        nbits = subtype.get_dtype().get_length()\n", count=1),
        dict(file=YB1, old="        try:\n          const_value = node._value\n        except AttributeError:\n          raise VerilogTranslationError( s.blk, node,\n            f\"{value} is not an array of constants!\" )\n",
             new="        const_value = node._value\n", count=1)]),
    _m('port-map-packed-element-as-vector', T.YS_UTIL, "    if not n_dim:\n      return _mangle_dtype( pname, vname, port, dtype, port_idx )", "    if not n_dim:\n      return _mangle_vector( pname, vname, port, dtype, port_idx )",
       'R-C12-dispatch'),
    _m('port-gen-packed-element-as-vector', YS2, "    if not n_dim:\n      return s.dtype_gen( d, id_, dtype )", "    if not n_dim:\n      return s.vector_gen( d, id_, dtype )", 'R-C12-dispatch'),
    _m('wire-struct-field-as-vector', YS2, '      ret += s.wire_dtype_gen( id_+"__"+name, field, n_dim )', '      ret += s.wire_vector_gen( id_+"__"+name, field, n_dim )', 'R-C12-dispatch'),
    # re-introductions of the chained-assignment defect
    _m('chain-copy-reevaluates-rhs', VB1, "    source = targets[-1] if node.blocking else value\n", "    source = value\n", 'R-tr-assign'),
    _m('chain-copy-also-when-nonblocking', VB1, "    source = targets[-1] if node.blocking else value\n", "    source = targets[-1]\n", 'R-tr-assign'),
    _m('chain-first-statement-assigns-first-target', VB1, "      target = targets[-1], assignment_op = assignment_op, value = value\n    ) ]",
       "      target = targets[0], assignment_op = assignment_op, value = value\n    ) ]", 'R-tr-assign'),
    _m('tmpvar-lookup-before-loopvar', T.GEN[2], "      if node.id in s.loop_var_env:\n        ret = bir.LoopVar( node.id )\n      elif node.id in s.tmp_var_env:\n        ret = bir.TmpVar( node.id, s._upblk_name )\n",
       "      if node.id in s.tmp_var_env:\n        ret = bir.TmpVar( node.id, s._upblk_name )\n      elif node.id in s.loop_var_env:\n        ret = bir.LoopVar( node.id )\n", 'R-tr-name-scope'),
    # round-6 kinds
    _m('yosys-nested-ifc-ports-only', YS3, "all_properties = ifc.get_all_properties_packed()", "all_properties = ifc.get_all_ports_packed()", 'R-tr-ifc-source'),
    _m('port-map-ifc-ports-only', T.YS_UTIL, "in ifc.get_all_properties_packed():", "in ifc.get_all_ports_packed():", 'R-tr-ifc-source'),
    _m('subcomp-ifc-ports-only', T.G_S4, "all_ifc_ports = ifc_port_rtype.get_all_properties_packed()", "all_ifc_ports = ifc_port_rtype.get_all_ports_packed()", 'R-tr-ifc-source'),
    _m('const-attr-bits-formatted-as-decimal', YB1, "        value = int( obj )\n        node.sexpr['s_attr'] = f\"{nbits}'d{value}\"", "        value = obj\n        node.sexpr['s_attr'] = f\"{nbits}'d{value}\"", 'R-tr-width-cast'),
    _m('wire-name-not-checked', YS1, "    assert isinstance( dtype, rdt.Vector )\n    s.check_decl( id_, \"\" )\n    return s.wire_vector_gen( id_, dtype, n_dim )", "    assert isinstance( dtype, rdt.Vector )\n    return s.wire_vector_gen( id_, dtype, n_dim )",
       'R-C13-reserved'),
    _m('range-start-forgotten', T.GEN[2], "      # range( start, end )\n      start = s.visit( args[0] )\n      end = s.visit( args[1] )", "      # range( start, end )\n      start = bir.Number( 0 )\n      end = s.visit( args[1] )",
       'R-tr-range'),
    # re-introductions of the repaired statement-grouping / parenthesisation / literal defects
    dict(name='freevar-bits-formatted-as-decimal-2', rule='R-tr-width-cast', edits=[
        dict(file=YB1, old="    if isinstance( node.obj, int ):\n      nbits = node.Type.get_dtype().get_length()\n      return sized_decimal( nbits, node.obj )\n    elif isinstance( node.obj, Bits ):\n      nbits = node.obj.nbits\n      value = int( node.obj )\n      return f\"{nbits}'d{value}\"\n",
             new="    if isinstance( node.obj, ( int, Bits ) ):\n      nbits = node.Type.get_dtype().get_length()\n      return f\"{nbits}'d{node.obj}\"\n", count=1)]),
    _m('yosys-freevar-unsized-2', YB1, "      return sized_decimal( nbits, node.obj )", "      return f\"{int(node.obj)}\"", 'R-tr-width-cast'),
    _m('yosys-const-attr-unsized-2', YB1, "        node.sexpr['s_attr'] = sized_decimal( nbits, obj )", "        node.sexpr['s_attr'] = f\"{int(obj)}\"", 'R-tr-width-cast'),
    _m('yosys-truncate-of-expression-accepted', YB1, "        if isinstance( node.value, ( bir.IfExp, bir.UnaryOp, bir.BinOp, bir.Compare ) ):\n          # Verilog-2005",
       "        if False and isinstance( node.value, ( bir.IfExp, bir.UnaryOp, bir.BinOp, bir.Compare ) ):\n          # Verilog-2005", 'R-tr-slice'),
    _m('yosys-truncate-refusal-misses-compare', YB1, "        if isinstance( node.value, ( bir.IfExp, bir.UnaryOp, bir.BinOp, bir.Compare ) ):\n          # Verilog-2005",
       "        if isinstance( node.value, ( bir.IfExp, bir.UnaryOp, bir.BinOp ) ):\n          # Verilog-2005", 'R-tr-slice'),
    _m('yosys-cast-branches-swapped', YB1, "      if cur_nbits > nbits:\n        if isinstance(", "      if cur_nbits < nbits:\n        if isinstance(", 'R-tr-slice'),
    _m('sext-arith-adds-the-sign-weight', VB1, "^ {sign} ) - {sign} )\"", "^ {sign} ) + {sign} )\"", 'R-tr-slice'),
    _m('sext-expression-falls-to-bit-select', VB1, "    if isinstance( node.value, ( bir.IfExp, bir.UnaryOp, bir.BinOp, bir.Compare ) ):\n      # The msb of an expression",
       "    if isinstance( node.value, ( bir.IfExp, bir.UnaryOp, bir.Compare ) ):\n      # The msb of an expression", 'R-tr-slice'),
    _m('yosys-for-begin-counts-ir-statements', YB2, "begin    = ' begin' if s.count_stmts( node.body ) > 1 else ''", "begin    = ' begin' if len( node.body ) > 1 else ''", 'R-tr-assign'),
    _m('yosys-freevar-without-int', YB1, "      return sized_decimal( nbits, node.obj )", "      return f\"{nbits}'d{node.obj}\"", 'R-tr-width-cast'),
    _m('yosys-const-attr-without-int', YB1, "        node.sexpr['s_attr'] = sized_decimal( nbits, obj )", "        node.sexpr['s_attr'] = f\"{nbits}'d{obj}\"", 'R-tr-width-cast'),
    # negative Python ints: <W>'d-1 is not Verilog; every literal of a user-supplied int holds the two's complement
    _m('literal-helper-without-wrap', UTIL, "  value = int( value )\n  if value < 0:\n    value += 1 << nbits\n", "  value = int( value )\n", 'R-tr-width-cast'),
    _m('literal-helper-wraps-at-half-range', UTIL, "    value += 1 << nbits\n", "    value += 1 << (nbits-1)\n", 'R-tr-width-cast'),
    _m('literal-helper-without-int', UTIL, "  value = int( value )\n  if value < 0:\n    value += 1 << nbits\n", "  if value < 0:\n    value += 1 << nbits\n", 'R-tr-width-cast'),
    _m('yosys-sizecast-constant-back-to-plain (a67892d)', YB1, "    return sized_decimal( nbits, value )\n", "    return f\"{nbits}'d{value}\"\n", 'R-tr-slice'),
    _m('yosys-freevar-back-to-plain-int', YB1, "      return sized_decimal( nbits, node.obj )", "      return f\"{nbits}'d{int(node.obj)}\"", 'R-tr-width-cast'),
    _m('yosys-const-attr-back-to-plain-int', YB1, "        node.sexpr['s_attr'] = sized_decimal( nbits, obj )", "        node.sexpr['s_attr'] = f\"{nbits}'d{int(obj)}\"", 'R-tr-width-cast'),
    _m('yosys-struct-field-literal-back-to-plain-int', YB3, "  def _literal_number( s, nbits, value ):\n    return sized_decimal( nbits, value )", "  def _literal_number( s, nbits, value ):\n    return f\"{nbits}'d{int(value)}\"", 'R-tr-width-cast'),
    _m('yosys-port-literal-back-to-plain-int', T.SV_S[1], "  def _literal_number( s, nbits, value ):\n    return sized_decimal( nbits, value )", "  def _literal_number( s, nbits, value ):\n    return f\"{nbits}'d{int(value)}\"", 'R-tr-width-cast'),
    _m('yosys-cast-identity-unparenthesised', YB1, "        # The operand itself takes the place of the cast\n        return s.visit_expr_wrap( node.value )",
       "        # The operand itself takes the place of the cast\n        return s.visit( node.value )", 'R-tr-slice'),
    _m('else-end-counts-ir-statements', T.SV_B[2], "      if s.count_stmts( node.orelse ) > 1:\n        src.extend( [ 'end' ] )", "      if len( node.orelse ) > 1:\n        src.extend( [ 'end' ] )", 'R-tr-assign'),
    # shared rules on the Yosys classes
    _m('yosys-assign-direction', YS1, 'return f"assign {rd} = {wr};"', 'return f"assign {wr} = {rd};"', 'R-tr-conn'),
    _m('yosys-part-select-inclusive', YS1, "_stop = stop-1", "_stop = stop", 'R-tr-slice'),
    _m('yosys-part-select-bounds-swapped', YS1, "    s.deq[-1]['index'].append( int(_stop) )\n    s.deq[-1]['index'].append( int(start) )",
       "    s.deq[-1]['index'].append( int(start) )\n    s.deq[-1]['index'].append( int(_stop) )", 'R-tr-slice'),
    _m('yosys-cast-truncation-msb', YB1, "msb = nbits-1", "msb = nbits", 'R-tr-slice'),
    _m('yosys-cast-zero-count', YB1, "n_zero = nbits - cur_nbits", "n_zero = nbits", 'R-tr-slice'),
    _m('yosys-loopvar-unsized', YB2, """    return f"{nbits}'(__loopvar__{s.blk.__name__}_{node.name})\"""", """    return f"__loopvar__{s.blk.__name__}_{node.name}\"""",
       'R-tr-width-cast'),
    _m('yosys-explicit-name-only-for-top', T.YS_TR, "    if structural.component_explicit_module_name:\n", "    if structural.component_explicit_module_name and structural.component_is_top:\n",
       'R-tr-modname'),
    _m('yosys-subcomp-explicit-name-ignored', YS4, "    elif subcomp_explicit_name:\n", "    elif False and subcomp_explicit_name:\n", 'R-tr-modname'),
    _m('yosys-hook-arity', YS1, "def rtlir_tr_bit_selection( s, base_signal, index, status ):", "def rtlir_tr_bit_selection( s, base_signal, index ):", 'R-tr-hooks'),
    _m('yosys-hook-call-arity', YS4, "    return s.rtlir_tr_interface_port_decl(\n        m, port_id, port_rtype, port_array_type )\n\n  def rtlir_tr_subcomp_ifc_port_decls",
       "    return s.rtlir_tr_interface_port_decl(\n        port_id, port_rtype, port_array_type )\n\n  def rtlir_tr_subcomp_ifc_port_decls", 'R-tr-hooks'),
    _m('yosys-struct-literal-fields-reversed', YB3, "    for name, Type in dtype.get_all_properties().items():", "    for name, Type in reversed(list(dtype.get_all_properties().items())):",
       'R-layout-agree'),
    _m('yosys-structural-array-literal-ascending', YS2, "        for i in reversed( range( n_dim[0]) ):\n          _ret = _gen_packed_array",
       "        for i in range( n_dim[0] ):\n          _ret = _gen_packed_array", 'R-layout-agree'),
    # re-introductions of repaired defects
    _m('yosys-loop-increment-direction-2', YB2, "inc_op   = '-' if node.step._value < 0 else '+'", "inc_op   = '+'", 'R-tr-for'),
    _m('yosys-loop-compare-always-lt', YB2, "cmp_op   = '>' if node.step._value < 0 else '<'", "cmp_op   = '<' if node.step._value < 0 else '<'", 'R-tr-for'),
    _m('sext-index-always-one-bit', VB1, "      _one_bit = current_nbits == 1\n", "      _one_bit = True\n", 'R-tr-slice'),
    _m('ifc-array-index-transposed', YS3, '_ifc_idx = f"{ifc_idx}[{i}]"', '_ifc_idx = f"[{i}]{ifc_idx}"', 'R-C12-index-order'),
    _m('ifc-array-index-after-port-index', YS3, 'template = "assign {wid}{ifc_idx}{idx} = {pid};"', 'template = "assign {wid}{idx}{ifc_idx} = {pid};"', 'R-C12-index-order'),
    _m('subcomp-ifc-array-index-transposed', YS4, '_ifc_idx = f"{ifc_idx}[{i}]"', '_ifc_idx = f"[{i}]{ifc_idx}"', 'R-C12-index-order'),
    _m('subcomp-array-index-transposed', YS4, '_c_idx = f"{c_idx}[{i}]"', '_c_idx = f"[{i}]{c_idx}"', 'R-C12-index-order'),
    _m('subcomp-array-name-from-element-zero', YS4, '_subcomp_port_gen( obj[i], c_id+"__"+str(i), n_dim[1:], port_decls )',
       '_subcomp_port_gen( obj[0], c_id+"__"+str(i), n_dim[1:], port_decls )', 'R-tr-modname'),
    _m('subcomp-array-name-from-array-type', YS4, "          c_name = s.rtlir_tr_component_unique_name( obj_c_rtype )", "          c_name = s.rtlir_tr_component_unique_name( c_rtype )",
       'R-tr-modname'),
    _m('yosys-module-name-fast-path-same-class', YS4, "          obj_c_rtype = s.tr_top.get_metadata( RTLIRPass.rtlir_getter ).get_rtlir( obj )\n",
       "          if type(obj) is type(c_rtype.obj):\n            obj_c_rtype = c_rtype\n          else:\n            obj_c_rtype = s.tr_top.get_metadata( RTLIRPass.rtlir_getter ).get_rtlir( obj )\n",
       'R-tr-modname'),
    _m('chained-tmpvar-assignment-nonblocking', T.GEN[2], "    if has_tmpvar:\n      return True\n    else:\n      return super().get_blocking(node, bir_node)",
       "    if has_tmpvar and len(bir_node.targets) == 1:\n      return True\n    else:\n      return super().get_blocking(node, bir_node)", 'R-tr-assign'),
    dict(name='dedup-set-survives-translate', rule='R-tr-dedup-scope', edits=[
        dict(file=T.G_RTLIR_TR, old="        if name not in components:\n", new="        if name not in s._generated_modules:\n          s._generated_modules.add( name )\n", count=1),
        dict(file=T.G_RTLIR_TR, old="      s.clear( tr_top, tr_cfgs )\n", new="      s.clear( tr_top, tr_cfgs )\n      if not hasattr( s, '_generated_modules' ):\n        s._generated_modules = set()\n", count=1)]),
    _m('yosys-loop-bounds-swapped', YB2, "v = loop_var, s = start, t = end, stp = step_abs,", "v = loop_var, s = end, t = start, stp = step_abs,", 'R-tr-for'),
    _m('yosys-block-drops-inherited-body', YB1, "    upblk = super().visit_CombUpblk( node )\n    return s.get_loopvars() + upblk",
       "    upblk = super().visit_CombUpblk( node )\n    return upblk + s.get_loopvars()", 'R-tr-assign'),
    _m('shared-ops-token-seen-through-mro', VB2, "bir.BitAnd : '&', bir.BitOr : '|', bir.BitXor : '^',", "bir.BitAnd : '&', bir.BitOr : '^', bir.BitXor : '|',", 'R-tr-optable'),
    _m('shared-blocking-flag', VB1, "assignment_op = '<=' if not node.blocking else '='", "assignment_op = '<=' if node.blocking else '='", 'R-tr-assign'),
    _m('subcomp-attr-delegation-drops-status', T.G_S4, "rtlir_signal_expr_translation( expr, m, status )", "rtlir_signal_expr_translation( expr, m )", 'R-tr-handlers'),
    _m('component-index-base-with-status', T.G_S4, "        s.rtlir_signal_expr_translation( expr.get_base(), m ),\n        expr.get_index(), status )",
       "        s.rtlir_signal_expr_translation( expr.get_base(), m, status ),\n        expr.get_index(), status )", 'R-tr-handlers'),
]

EQUIV = [
    _m('for-body-visited-by-comprehension', T.GEN[2], "    # Then visit all statements inside the loop\n    body = []\n    for body_stmt in node.body:\n      body.append( s.visit( body_stmt ) )\n", "    # Then visit all statements inside the loop\n    body = [ s.visit( body_stmt ) for body_stmt in node.body ]\n"),
    _m('for-body-visited-by-map', T.GEN[2], "    # Then visit all statements inside the loop\n    body = []\n    for body_stmt in node.body:\n      body.append( s.visit( body_stmt ) )\n", "    # Then visit all statements inside the loop\n    body = list( map( s.visit, node.body ) )\n"),
    _m('yosys-negative-constant-step-by-abs', YB2, "        step_abs = str( -int( node.step._value ) )", "        step_abs = str( abs( int( node.step._value ) ) )"),
    dict(name='yosys-for-begin-end-condition-in-a-local', edits=[
        dict(file=YB2, old="    begin    = ' begin' if s.count_stmts( node.body ) > 1 else ''\n\n    cmp_op", new="    multi    = s.count_stmts( node.body ) > 1\n    begin    = ' begin' if multi else ''\n\n    cmp_op", count=1),
        dict(file=YB2, old="    if s.count_stmts( node.body ) > 1:\n      src.extend( [ 'end' ] )", new="    if multi:\n      src.extend( [ 'end' ] )", count=1)]),
    _m('array-admission-as-all', T.RTYPE, "    for x in obj[1:]:\n      assert self.get_rtlir(x) == ref_type, \\\n             f'all elements of array {obj} must have the same type {repr(ref_type)}!'\n",
       "    assert all( self.get_rtlir(x) == ref_type for x in obj[1:] ), \\\n             f'all elements of array {obj} must have the same type {repr(ref_type)}!'\n"),
    _m('array-admission-loop-over-all-elements', T.RTYPE, "    for x in obj[1:]:\n      assert self.get_rtlir(x) == ref_type, \\\n", "    for x in obj:\n      assert self.get_rtlir(x) == ref_type, \\\n"),
    _m('ifc-ports-accumulator-created-by-list-call', T.G_S4, "        ports = []\n        all_ifc_ports", "        ports = list()\n        all_ifc_ports"),
    dict(name='ifc-ports-accumulator-created-first-in-the-loop-body', edits=[
        dict(file=T.G_S4, old="        ports = []\n        all_ifc_ports = ifc_port_rtype.get_all_properties_packed()", new="        all_ifc_ports = ifc_port_rtype.get_all_properties_packed()", count=1),
        dict(file=T.G_S4, old="      for ifc_port_id, _ifc_port_rtype in c_rtype.get_ifc_views_packed():\n", new="      for ifc_port_id, _ifc_port_rtype in c_rtype.get_ifc_views_packed():\n        ports = []\n", count=1)]),
    _m('port-array-recursion-rest-in-a-local', YS1, "        ret += s.port_gen(d, f\"{id_}__{idx}\", n_dim[1:], dtype)", "        rest = n_dim[1:]\n        ret += s.port_gen(d, f\"{id_}__{idx}\", rest, dtype)"),
    _m('port-glue-separator-by-concatenation', T.YS_TR, "      if p_conns and i_conns:\n        p_conns += \"\\n\"", "      if p_conns and i_conns:\n        p_conns = p_conns + \"\\n\""),
    _m('temporaries-separator-added-to-the-body', T.YS_TR, "    if body and tmpvar_decls:\n      tmpvar_decls = \"\\n\" + tmpvar_decls\n    body += tmpvar_decls", "    if body and tmpvar_decls:\n      body += \"\\n\"\n    body += tmpvar_decls"),
    dict(name='subcomp-filters-as-continue-guards', edits=[
        dict(file=YS4, old="      if c_n_dim or n_dim or \"present\" in wire:\n        wire_decls.append( wire_template.format( **locals() ) )\n",
             new="      if not ( c_n_dim or n_dim or \"present\" in wire ):\n        continue\n      wire_decls.append( wire_template.format( **locals() ) )\n", count=1),
        dict(file=YS4, old="      if c_n_dim or idx or \"present\" in _conn:\n        connections += _subcomp_conn_gen( d, c_id, pid, c_id, wid, idx, c_n_dim )\n",
             new="      if not c_n_dim and not idx and \"present\" not in _conn:\n        continue\n      connections += _subcomp_conn_gen( d, c_id, pid, c_id, wid, idx, c_n_dim )\n", count=1)]),
    _m('component-eq-compares-the-lists', T.RTYPE, "    return (len(u)==len(v)) and all(_u == _v for _u, _v in zip(u, v))", "    return list(u) == list(v)"),
    _m('component-eq-early-return-on-length', T.RTYPE, "    return (len(u)==len(v)) and all(_u == _v for _u, _v in zip(u, v))", "    if len(u) != len(v):\n      return False\n    for _u, _v in zip(u, v):\n      if _u != _v:\n        return False\n    return True"),
    _m('array-eq-single-expression', T.RTYPE, "    if not isinstance( other, Array ): return False\n    if s.dim_sizes != other.dim_sizes: return False\n    return s.sub_type == other.sub_type", "    return isinstance( other, Array ) and s.dim_sizes == other.dim_sizes and s.sub_type == other.sub_type"),
    _m('clk-reset-skip-as-one-condition', T.YS_UTIL, "    if not has_clk and name == 'clk':      continue\n    if not has_reset and name == 'reset':  continue\n", "    if ( name == 'clk' and not has_clk ) or ( name == 'reset' and not has_reset ):\n      continue\n"),
    _m('clk-reset-skip-via-table', T.YS_UTIL, "    if not has_clk and name == 'clk':      continue\n    if not has_reset and name == 'reset':  continue\n", "    wanted = { 'clk' : has_clk, 'reset' : has_reset }\n    if name in wanted and not wanted[ name ]:\n      continue\n"),
    _m('packed-index-amends-record-by-length', YS2, "    s.deq[-1]['s_index'] += \"[{}]\"\n    s.deq[-1]['index'].append( int(index) )\n    return f'{base_signal}[{index}]'\n\n  def rtlir_tr_struct_attr",
       "    s.deq[len(s.deq)-1]['s_index'] += \"[{}]\"\n    s.deq[len(s.deq)-1]['index'].append( int(index) )\n    return f'{base_signal}[{index}]'\n\n  def rtlir_tr_struct_attr"),
    _m('struct-attr-amends-record-via-local', YS2, "    s.deq[-1]['s_attr'] += \"__{}\"\n    s.deq[-1]['attr'].append( attr )\n    return f'{base_signal}.{attr}'", "    rec = s.deq[-1]\n    rec['s_attr'] += \"__{}\"\n    rec['attr'].append( attr )\n    return f'{base_signal}.{attr}'"),
    _m('packed-conn-accessors-inline', YS2, "    n_dim = _dtype.get_dim_sizes()\n    dtype = _dtype.get_sub_dtype()\n    return s._packed_conn_gen( d, pid, wid, idx, n_dim, dtype )", "    return s._packed_conn_gen( d, pid, wid, idx, _dtype.get_dim_sizes(), _dtype.get_sub_dtype() )"),
    _m('count-stmts-as-accumulator-loop', T.SV_B[2], "    return sum( len( stmt.targets ) if isinstance( stmt, bir.Assign ) else 1\n                for stmt in stmts )",
       "    n_stmts = 0\n    for stmt in stmts:\n      if isinstance( stmt, bir.Assign ):\n        n_stmts += len( stmt.targets )\n      else:\n        n_stmts += 1\n    return n_stmts"),
    _m('literal-helper-wraps-by-modulo', UTIL, "  if value < 0:\n    value += 1 << nbits\n", "  value %= 1 << nbits\n"),
    _m('literal-helper-wraps-by-power-of-two', UTIL, "  if value < 0:\n    value += 1 << nbits\n", "  if value < 0:\n    value = value + 2**nbits\n"),
    _m('yosys-freevar-inlines-the-helper', YB1, "      return sized_decimal( nbits, node.obj )", "      value = int( node.obj ) % ( 1 << nbits )\n      return f\"{nbits}'d{value}\""),
    _m('yosys-const-attr-masks-the-value', YB1, "        node.sexpr['s_attr'] = sized_decimal( nbits, obj )", "        value = int( obj ) & ( ( 1 << nbits ) - 1 )\n        node.sexpr['s_attr'] = f\"{nbits}'d{value}\""),
    _m('cast-comparison-flipped', YB1, "      if cur_nbits > nbits:\n        if isinstance(", "      if nbits < cur_nbits:\n        if isinstance("),
    _m('seq-block-visit-result-renamed', YB1, "    upblk = super().visit_SeqUpblk( node )\n    return s.get_loopvars() + upblk", "    blk = super().visit_SeqUpblk( node )\n    decls = s.get_loopvars()\n    return decls + blk"),
    _m('port-map-struct-field-keyword-free', T.YS_UTIL, "    if not n_dim:\n      return _mangle_dtype( pname, vname, port, dtype, port_idx )", "    if len(n_dim) == 0:\n      return _mangle_dtype( pname, vname, port, dtype, port_idx )"),
    _m('port-binding-padded-by-spec', YS4, 'p_conn_tplt = ".{port_id: <15}( {port_wire_id} )"', 'p_conn_tplt = ".{port_id: <15}( {port_wire_id:^25} )"'),
    _m('ifc-member-array-type-reset-first', YS3, "          if isinstance( _rtype, rt.Array ):\n            array_type = _rtype\n            rtype = _rtype.get_sub_type()\n          else:\n            array_type = None\n            rtype = _rtype\n          ret += s.rtlir_tr_interface_port_decl(",
       "          array_type, rtype = None, _rtype\n          if isinstance( _rtype, rt.Array ):\n            array_type = _rtype\n            rtype = _rtype.get_sub_type()\n          ret += s.rtlir_tr_interface_port_decl("),
    _m('components-dict-by-constructor-call', T.G_RTLIR_TR, "      s.hierarchy.components = {}\n", "      s.hierarchy.components = dict()\n"),
    # loop / comprehension / map spellings of `one value per item, in order`
    _m('connections-as-comprehension', T.G_S1,
       "    connections = []\n    _connections = m.get_metadata( StructuralRTLIRGenL1Pass.connections )\n    for writer, reader in _connections:\n"
       "      connections.append( s.rtlir_tr_connection(\n        s.rtlir_signal_expr_translation( writer, m, 'writer' ),\n"
       "        s.rtlir_signal_expr_translation( reader, m, 'reader' )\n      ) )\n",
       "    _connections = m.get_metadata( StructuralRTLIRGenL1Pass.connections )\n    connections = [\n      s.rtlir_tr_connection(\n"
       "        s.rtlir_signal_expr_translation( writer, m, 'writer' ),\n        s.rtlir_signal_expr_translation( reader, m, 'reader' )\n"
       "      ) for writer, reader in _connections\n    ]\n"),
    _m('connections-as-map-lambda', T.G_S1,
       "    connections = []\n    _connections = m.get_metadata( StructuralRTLIRGenL1Pass.connections )\n    for writer, reader in _connections:\n"
       "      connections.append( s.rtlir_tr_connection(\n        s.rtlir_signal_expr_translation( writer, m, 'writer' ),\n"
       "        s.rtlir_signal_expr_translation( reader, m, 'reader' )\n      ) )\n",
       "    _connections = m.get_metadata( StructuralRTLIRGenL1Pass.connections )\n    connections = list( map( lambda wr: s.rtlir_tr_connection(\n"
       "        s.rtlir_signal_expr_translation( wr[0], m, 'writer' ),\n        s.rtlir_signal_expr_translation( wr[1], m, 'reader' )\n"
       "      ), _connections ) )\n"),
    _m('freevars-as-comprehension', T.G_B1,
       "    freevars = []\n    for name, (fvar, rtype) in s.behavioral.freevars[m].items():\n      freevars.append( s.translate_freevar( name, fvar, rtype ) )\n",
       "    freevars = [ s.translate_freevar( name, fvar, rtype )\n                 for name, (fvar, rtype) in s.behavioral.freevars[m].items() ]\n"),
    _m('signal-expr-pairs-as-append-loop', T.SGEN1,
       "    connections = [ (gen_signal_expr(m, x[0]), gen_signal_expr(m, x[1])) for x in ordered_conns ]\n",
       "    connections = []\n    for x in ordered_conns:\n      connections.append( (gen_signal_expr(m, x[0]), gen_signal_expr(m, x[1])) )\n"),
    _m('block-statements-as-comprehension', T.SV_B[1],
       "    for stmt in node.body:\n      body.extend( s.visit( stmt ) )\n",
       "    body = [ line for stmt in node.body for line in s.visit( stmt ) ]\n", count='first'),
    _m('assign-statements-as-append-loop', T.SV_B[1],
       "    stmts += [ tplt.format(\n      target = target, assignment_op = assignment_op, value = source\n    ) for target in reversed(targets[:-1]) ]\n",
       "    for target in reversed(targets[:-1]):\n      stmts.append( tplt.format( target = target, assignment_op = assignment_op, value = source ) )\n"),
    _m('chain-copies-in-source-order', T.SV_B[1], "    ) for target in reversed(targets[:-1]) ]", "    ) for target in targets[:-1] ]"),
    _m('wire-marker-forwarded-in-literal', YS4, '        dct = { "msb" : msb, "id_" : id_, "n_dim" : ifc_n_dim+n_dim }\n        if present:\n          dct["present"] = True\n',
       '        dct = { "msb" : msb, "id_" : id_, "n_dim" : ifc_n_dim+n_dim }\n        if "present" in _wire:\n          dct["present"] = True\n'),
    _m('wire-filter-disjuncts-reordered', YS4, 'if c_n_dim or n_dim or "present" in wire:', 'if "present" in wire or n_dim or c_n_dim:'),
    _m('leaf-slice-via-lsb', YS2, "    msb, lsb = c_nbits-1, c_nbits-nbits", "    lsb = c_nbits-nbits\n    msb = lsb+nbits-1"),
    _m('packed-descending-range', YS2, "        for i in reversed( range( n_dim[0]) ):", "        for i in range( n_dim[0] - 1, -1, -1 ):", count='first'),
    _m('field-port-id-as-fstring', YS2, 'ret += s.dtype_gen( d, id_+"__"+name, field )', 'ret += s.dtype_gen( d, f"{id_}__{name}", field )'),
    _m('counter-decrement-spelled-out', YS2, "          c_nbits -= dec_nbits", "          c_nbits = c_nbits - dec_nbits"),
    _m('first-called-as-keyword', YS2, "_field = s.rtlir_tr_struct_instance( Type, field, False )", "_field = s.rtlir_tr_struct_instance( Type, field, first_called = False )"),
    _m('vector-leaf-width-inlined', YS2, "    nbits = dtype.get_length()\n    assert c_nbits - nbits >= 0", "    nbits = dtype.get_length()\n    assert c_nbits >= nbits"),
    _m('yosys-assign-built-with-format', YS1, 'return f"assign {rd} = {wr};"', 'return "assign {} = {};".format( rd, wr )'),
]

LEVEL_TEXT = ("Static analysis of the Yosys translator source: statically linked translator/visitor classes (class factories resolved, C3 "
              "MRO, super() delegation into the SystemVerilog classes followed), hook/handler exhaustiveness, operator-table agreement "
              "with a frozen reference and with the SystemVerilog back-end, symbolic execution of the emitter and flattening generators "
              "(running MSB counter, iteration direction, name mangling, wire-index order), judged over small exhaustive grids. It "
              "decides necessary conditions of a faithful flat port map and of translation correctness for every design; it does not "
              "execute the translator or the Verilog.")
LEVEL_NOTE = ("Decides handler/hook exhaustiveness, table agreement, per-construct emission rules and the flattening order (first field most "
              "significant, element 0 least significant, consistent `__` mangling, untransposed array indices). Does NOT decide "
              "cycle-for-cycle behavioural equivalence, syntactic validity of arbitrary output, or single driver per variable in the "
              "emitted text. Trusted: Verilog operator semantics, the type checker's widths (C10), bitstruct layout (C06).")
TECHNIQUE = ("static class linking with factory resolution and C3 MRO; table extraction and composition; path-wise symbolic execution "
             "with loop summaries; partial evaluation of string templates into token skeletons; symbolic two-level unrolling of "
             "recursive array generators; finite abstract evaluation over exhaustive small grids")
