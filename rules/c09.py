"""C09 -- Structurally illegal designs are always rejected at elaboration.  (DESIGN.md section 4, C09)"""
import ast
import builtins

from sa.astutil import (norm, guards_of, reaching_value, walk_no_nested, parent, enclosing, stmt_of,
                        qualname, always_exits)
from sa.errors import AnalysisError
from sa.minieval import Evaluator, Obj, Raised, Returned
from sa.report import RuleResult

PID = 'C09'
L1 = 'pymtl3/dsl/ComponentLevel1.py'
L2 = 'pymtl3/dsl/ComponentLevel2.py'
L3 = 'pymtl3/dsl/ComponentLevel3.py'
L4 = 'pymtl3/dsl/ComponentLevel4.py'
L5 = 'pymtl3/dsl/ComponentLevel5.py'
L6 = 'pymtl3/dsl/ComponentLevel6.py'
L7 = 'pymtl3/dsl/ComponentLevel7.py'
COMP = 'pymtl3/dsl/Component.py'
CONN = 'pymtl3/dsl/Connectable.py'
NOBJ = 'pymtl3/dsl/NamedObject.py'
ERRS = 'pymtl3/dsl/errors.py'
GENDAG = 'pymtl3/passes/sim/GenDAGPass.py'

LEVELS = [(L2, 'ComponentLevel2'), (L3, 'ComponentLevel3'), (L4, 'ComponentLevel4'), (L5, 'ComponentLevel5'),
          (L6, 'ComponentLevel6'), (L7, 'ComponentLevel7'), (COMP, 'Component')]
DSL_FILES = [L1, L2, L3, L4, L5, L6, L7, COMP, CONN, NOBJ]

EXPLANATION = (
    "Static analysis of pymtl3/dsl (ast only; nothing is imported or run). "
    "R-overlap proves Connectable._overlap equal to max(starts)<min(stops) for every int/slice shape and every order "
    "type of the endpoints (adjacency included) and that slice_overlap/get_sibling_slices feed it the two different "
    "siblings; R-C09-slicekey shows that Signal.__getitem__ keys every slice by its absolute bit interval and rejects "
    "exactly the out-of-range ones; R-C09-pipeline resolves, through the MRO, what the most-derived "
    "_check_valid_dsl_code of ComponentLevel2..7/Component runs (L3/L4 re-list instead of super()) and requires every "
    "zero-argument _check_* design-rule checker, after variable collection and net resolution, on every normal path "
    "of elaborate(), and in GenDAGPass / replace_component; R-C09-mw-guard requires every raise MultiWriterError to "
    "depend on a test that separates two different drivers and R-C09-mw-cover that same-object, ancestor and "
    "overlapping-sibling writers are all looked for over every (block, written object) pair; R-C09-porttable "
    "abstractly evaluates _check_port_in_upblk and _check_port_in_nets over all hierarchical relations x port classes "
    "and compares accept/reject with the [Type 1..9] specification table; R-C09-optable does the same for the "
    "(block kind x assignment operator x top-levelness) table of extract_obj_from_names; R-C09-nowriter shows that "
    "headless nets are kept with writer None and raise NoWriterError before anything else; R-C09-loop checks the "
    "connection-loop rejection of _floodfill_nets; R-C09-raise-resolves checks that every raise of a design-rule "
    "error names a bound class with matching arity and bound argument names. "
    "Not decided: completeness of the iterative writer propagation of _resolve_value_connections (C08), "
    "that update blocks read/write what their AST says, self-connections.")
ASSUMPTIONS = [
    "Python semantics of comparison, Boolean connectives, isinstance and set/dict membership",
    "the enumerated abstract points are exhaustive for the vocabulary found: endpoints 0..6 realise every order type "
    "(and unit gaps) of <=4 integer endpoints; hierarchy scenarios cover same/parent/child/sibling/farther; "
    "operator kinds are =, for, @=, <<= and two representatives of the remaining augmented operators",
    "the reference tables (port-direction rules Type 1..9, operator table) are the specification, frozen from the "
    "documented rules",
    "all_upblk_writes / all_adjacency hold what the update blocks and connect calls really do (C02/C08)",
    "a loopback OutPort->InPort on the top component cannot reach the port check (top-level InPorts are writers)",
]


# ---------------------------------------------------------------------------
# a slightly larger abstract evaluator for small extracted blocks
class _Continue(Exception):
    pass


class _Break(Exception):
    pass


class Opaque:
    """value of an expression the domain does not model (only allowed where it cannot influence a verdict)"""
    def __repr__(self):
        return '<opaque>'


OPAQUE = Opaque()


class Abs(Evaluator):
    """Evaluator + for/while/augassign/containers/method calls on abstract objects.
    `ancestors`: class name -> set of (transitive) base class names, for isinstance on Obj tags.
    Obj fields named 'm()' are results of zero-side-effect method calls x.m(...)."""
    def __init__(self, env, ancestors=None, tolerant_calls=(), closed=False, **kw):
        super().__init__(env, **kw)
        self.closed = closed      # closed world: the abstract objects list ALL their methods (a missing one is
                                  # the AttributeError the real object would raise)
        self.ancestors = ancestors or {}
        self.stores = []          # (obj, attr, value) attribute stores performed
        self.effects = []         # (receiver repr, method, args)
        self.tolerant_calls = set(tolerant_calls)
        self.steps = 0

    # -- expressions
    def isa(self, v, tname):
        tname = tname.split('.')[-1]
        if tname == 'int':
            return isinstance(v, int) and not isinstance(v, bool)
        if tname in ('str', 'tuple', 'list', 'set', 'dict'):
            return isinstance(v, getattr(builtins, tname))
        if isinstance(v, Obj):
            return tname == v.tag or tname in self.ancestors.get(v.tag, ())
        return False

    def _isinstance(self, e):
        v = self.ev(e.args[0])
        t = e.args[1]
        ts = t.elts if isinstance(t, ast.Tuple) else [t]
        for x in ts:
            if not isinstance(x, (ast.Name, ast.Attribute)):
                raise AnalysisError(f"isinstance on a type expression outside the domain: {norm(e)}")
        return any(self.isa(v, norm(x)) for x in ts)

    def ev_Call(self, e):
        name = norm(e.func)
        if name == 'isinstance' and len(e.args) == 2:
            return self._isinstance(e)
        if name == 'len' and len(e.args) == 1:
            return len(self.ev(e.args[0]))
        if name == 'bool' and len(e.args) == 1:
            v = self.ev(e.args[0])
            if isinstance(v, Obj) or v is OPAQUE:
                raise AnalysisError(f"truth value of an abstract object: {norm(e)}")
            return bool(v)
        if name in ('all', 'any') and len(e.args) == 1 and isinstance(e.args[0], (ast.GeneratorExp, ast.ListComp)) \
                and len(e.args[0].generators) == 1 and isinstance(e.args[0].generators[0].target, ast.Name):
            g = e.args[0].generators[0]
            saved = dict(self.env)
            vals = []
            for v in list(self.ev(g.iter)):
                self.env[g.target.id] = v
                if all(self.ev(c) for c in g.ifs):
                    vals.append(bool(self.ev(e.args[0].elt)))
            self.env = saved
            return all(vals) if name == 'all' else any(vals)
        if name == 'sorted' and len(e.args) == 1 and not e.keywords:
            v = list(self.ev(e.args[0]))
            return sorted(v) if all(isinstance(x, str) for x in v) or all(isinstance(x, int) for x in v) else v
        if name in ('list', 'set', 'tuple', 'sorted') and len(e.args) == 1:
            return list(self.ev(e.args[0]))
        if name == 'range' and 1 <= len(e.args) <= 3:
            return list(range(*[self.ev(a) for a in e.args]))
        if name in ('hasattr', 'getattr') and len(e.args) == 2:
            o, a = self.ev(e.args[0]), self.ev(e.args[1])
            if not isinstance(o, Obj) or not isinstance(a, str):
                raise AnalysisError(f"{name} outside the abstract domain: {norm(e)}")
            ns = o.fields.get('__dict__', o.fields)
            if name == 'hasattr':
                return a in ns
            if a not in ns:
                raise Raised('AttributeError')
            return ns[a]
        if name in self.funcs and isinstance(self.funcs[name], ast.FunctionDef):
            return self.invoke(self.funcs[name], [self.ev(a) for a in e.args])
        if name in self.funcs:
            return self.funcs[name](*[self.ev(a) for a in e.args])
        if isinstance(e.func, ast.Attribute):
            base = self.ev(e.func.value)
            key = e.func.attr + '()'
            if isinstance(base, Obj):
                if key in base.fields:
                    return base.fields[key]
                if self.closed:
                    raise Raised('AttributeError')
                raise AnalysisError(f"method outside the abstract domain: {norm(e)} on {base.tag}")
            if isinstance(base, dict) and e.func.attr in ('items', 'values', 'keys') and not e.args:
                return list(getattr(base, e.func.attr)())
            if isinstance(base, str) and e.func.attr == 'format':
                for a in list(e.args) + [k.value for k in e.keywords]:
                    self.ev(a)
                return '<str>'
        raise AnalysisError(f"call outside the abstract domain: {norm(e)}")

    def invoke(self, fn, args):
        """call of a nested def of the analysed fragment: parameters are local, everything else is the closure"""
        a = fn.args
        if a.vararg or a.kwarg or a.kwonlyargs or len(a.args) != len(args):
            raise AnalysisError(f"call of {fn.name} outside the abstract domain")
        saved = self.env
        self.env = dict(saved)
        for p2, v in zip(a.args, args):
            self.env[p2.arg] = v
        try:
            self._block([x for x in fn.body if not (isinstance(x, ast.Expr) and isinstance(x.value, ast.Constant))])
            ret = None
        except Returned as x:
            ret = x.value
        finally:
            self.env = saved
        return ret

    def ev_Dict(self, e):
        if any(k is None for k in e.keys):
            raise AnalysisError("dict unpacking outside the abstract domain")
        return {self.ev(k): self.ev(v) for k, v in zip(e.keys, e.values)}

    def ev_Subscript(self, e):
        key = norm(e)
        if key in self.env:
            return self.env[key]
        base = self.ev(e.value)
        idx = self.ev(e.slice)
        if isinstance(base, (dict, list, tuple, str)):
            try:
                return base[idx]
            except (KeyError, IndexError) as ex:
                raise Raised(type(ex).__name__)
        raise AnalysisError(f"subscript outside the abstract domain: {norm(e)}")

    def ev_List(self, e):
        return [self.ev(x) for x in e.elts]

    def ev_Set(self, e):
        return [self.ev(x) for x in e.elts]

    def ev_JoinedStr(self, e):
        return '<str>'

    def ev_BinOp(self, e):
        l, r = self.ev(e.left), self.ev(e.right)
        if isinstance(l, Obj) or isinstance(r, Obj):
            raise Raised('TypeError')
        if l is OPAQUE or r is OPAQUE:
            return OPAQUE
        if isinstance(e.op, ast.Add) and isinstance(l, (list, str)) and type(l) is type(r):
            return l + r
        if isinstance(l, (str, list)) or isinstance(r, (str, list)):
            if isinstance(e.op, ast.Mod) and isinstance(l, str):
                return '<str>'
            raise Raised('TypeError')
        return super().ev_BinOp(e)

    def _bind(self, target, value):
        if isinstance(target, ast.Name):
            self.env[target.id] = value
        elif isinstance(target, (ast.Tuple, ast.List)):
            vals = list(value)
            if len(vals) != len(target.elts):
                raise Raised('ValueError')
            for t, v in zip(target.elts, vals):
                self._bind(t, v)
        elif isinstance(target, ast.Attribute):
            self.stores.append((self.ev(target.value), target.attr, value))
        elif isinstance(target, ast.Subscript):
            base = self.ev(target.value)
            if not isinstance(base, dict):
                raise AnalysisError(f"store outside the abstract domain: {norm(target)}")
            base[self.ev(target.slice)] = value
        else:
            raise AnalysisError(f"assignment target outside the abstract domain: {norm(target)}")

    def ev_ListComp(self, e):
        out = []

        def rec(i):
            if i == len(e.generators):
                out.append(self.ev(e.elt))
                return
            g = e.generators[i]
            for item in list(self.ev(g.iter)):
                self._bind(g.target, item)
                if all(self.ev(c) for c in g.ifs):
                    rec(i + 1)
        rec(0)
        return out

    # -- statements
    def _block(self, stmts):
        for st in stmts:
            self.steps += 1
            if self.steps > 5000:
                raise AnalysisError("abstract evaluation does not terminate")
            if isinstance(st, ast.For):
                broke = False
                for item in list(self.ev(st.iter)):
                    self._bind(st.target, item)
                    try:
                        self._block(st.body)
                    except _Continue:
                        continue
                    except _Break:
                        broke = True
                        break
                if not broke:
                    self._block(st.orelse)
            elif isinstance(st, ast.While):
                n = 0
                while self.ev(st.test):
                    n += 1
                    if n > 50:
                        raise AnalysisError(f"loop does not terminate in the abstract domain: {norm(st.test)}")
                    try:
                        self._block(st.body)
                    except _Continue:
                        continue
                    except _Break:
                        break
            elif isinstance(st, ast.Continue):
                raise _Continue()
            elif isinstance(st, ast.Break):
                raise _Break()
            elif isinstance(st, ast.Assign) and len(st.targets) == 1 and not isinstance(st.targets[0], ast.Name):
                self._bind(st.targets[0], self.ev(st.value))
            elif isinstance(st, ast.AugAssign) and isinstance(st.target, ast.Name):
                cur = self.env.get(st.target.id)
                val = self.ev(st.value)
                if isinstance(st.op, ast.BitOr) and isinstance(cur, set):
                    cur |= set(val)          # in place, like the real set
                elif isinstance(st.op, ast.BitOr) and isinstance(cur, list):
                    self.env[st.target.id] = cur + [v for v in val if v not in cur]
                elif isinstance(st.op, (ast.Add, ast.Sub)) and isinstance(cur, int) and isinstance(val, int):
                    self.env[st.target.id] = cur + val if isinstance(st.op, ast.Add) else cur - val
                else:
                    raise AnalysisError(f"augmented assignment outside the abstract domain: {norm(st)}")
            elif isinstance(st, ast.Expr) and isinstance(st.value, ast.Call) and isinstance(st.value.func, ast.Attribute):
                c = st.value
                recv = self.ev(c.func.value)
                args = [self.ev(a) for a in c.args]
                if isinstance(recv, set) and c.func.attr == 'add' and len(args) == 1:
                    recv.add(args[0])
                elif isinstance(recv, list) and c.func.attr in ('add', 'append') and len(args) == 1:
                    if c.func.attr == 'append' or args[0] not in recv:
                        recv.append(args[0])
                elif c.func.attr in self.tolerant_calls:
                    self.effects.append((norm(c.func.value), c.func.attr, args))
                else:
                    raise AnalysisError(f"call statement outside the abstract domain: {norm(st)[:80]}")
            elif isinstance(st, ast.Raise):
                self.on_raise(st)
            elif isinstance(st, ast.FunctionDef):
                self.funcs[st.name] = st
            elif isinstance(st, ast.Expr) and isinstance(st.value, ast.Call) and isinstance(st.value.func, ast.Name) \
                    and st.value.func.id in self.funcs:
                self.ev(st.value)
            elif isinstance(st, ast.Try) and not st.finalbody:
                try:
                    self._block(st.body)
                except Raised as x:
                    for h in st.handlers:
                        names = [] if h.type is None else [norm(t) for t in (h.type.elts if isinstance(h.type, ast.Tuple) else [h.type])]
                        if h.type is None or x.what in names or 'Exception' in names:
                            if h.name:
                                self.env[h.name] = x.what
                            self._block(h.body)
                            break
                    else:
                        raise
                else:
                    self._block(st.orelse)
            else:
                super()._block([st])

    def on_raise(self, st):
        exc = st.exc
        if isinstance(exc, ast.Call):
            # evaluate the arguments tolerantly: a definite TypeError while building the message is the
            # exception the user really sees
            tol = _Tolerant(self.env, ancestors=self.ancestors, arith=True)
            for a in list(exc.args) + [k.value for k in exc.keywords]:
                tol.ev(a)
            raise Raised(norm(exc.func))
        raise Raised(norm(exc))


class _Tolerant(Abs):
    """argument evaluation of a raise: unknown leaves are opaque; only definite type errors surface"""
    def ev(self, e):
        try:
            return super().ev(e)
        except AnalysisError:
            return OPAQUE

    def ev_Name(self, e):
        if e.id in self.env:
            return self.env[e.id]
        return OPAQUE


def run_block(ev, stmts):
    """('fall'|'return'|'raise'|'continue'|'break', value)"""
    try:
        ev._block(stmts)
    except Returned as x:
        return ('return', x.value)
    except Raised as x:
        return ('raise', x.what)
    except _Continue:
        return ('continue', None)
    except _Break:
        return ('break', None)
    return ('fall', None)


def class_ancestors(repo, rel, names):
    """class name -> set of all base class names (through the repo MRO)"""
    m = repo.mod(rel)
    out = {}
    for n in names:
        r = repo.resolve(m, n)
        if r is None or not isinstance(r[1], ast.ClassDef):
            raise AnalysisError(f"anchor vanished: class {n} not resolvable from {rel}")
        out[n] = {c.name for _, c in repo.mro(r[0], r[1])[1:]}
    return out


def _func_of(repo, rel, qual):
    return repo.mod(rel), repo.mod(rel).get_func(qual)


def _is_doc(st):
    return isinstance(st, ast.Expr) and isinstance(st.value, ast.Constant)


# ---------------------------------------------------------------------------
# R-overlap (shared with C02 / C08)
def rule_overlap(repo):
    r = RuleResult('R-overlap', "Connectable._overlap(x,y) == max(starts) < min(stops) for every int/slice shape and "
                                "every order type of the endpoints; slice_overlap compares the two sibling slices")
    m = repo.mod(CONN)
    f = m.functions.get('_overlap')
    if f is None:
        raise AnalysisError("anchor vanished: Connectable._overlap")
    if len(f.args.args) != 2:
        raise AnalysisError("_overlap no longer takes two arguments")
    px, py = [a.arg for a in f.args.args]
    tags = {'int': lambda v: isinstance(v, int) and not isinstance(v, bool),
            'slice': lambda v: isinstance(v, Obj) and v.tag == 'slice'}
    ints = [('int', i, i, i + 1) for i in range(0, 6)]
    slices = [('slice', Obj('slice', start=a, stop=b, step=None), a, b) for a in range(0, 7) for b in range(a + 1, 8)]
    body = [s for s in f.body if not _is_doc(s)]
    for kx, xs in (('int', ints), ('slice', slices)):
        for ky, ys in (('int', ints), ('slice', slices)):
            wrong = None
            for _, xv, xa, xb in xs:
                for _, yv, ya, yb in ys:
                    r.evaluations += 1
                    out = Evaluator({px: xv, py: yv}, arith=True, isinstance_tags=tags,
                                    funcs={'max': max, 'min': min}).run(body)
                    want = max(xa, ya) < min(xb, yb)
                    if out[0] != 'return' or bool(out[1]) != want:
                        wrong = wrong or ((xa, xb), (ya, yb), out, want)
            cons = f"_overlap({kx}, {ky})"
            if wrong:
                (xa, xb), (ya, yb), out, want = wrong
                fmt = lambda k, a, b: str(a) if k == 'int' else f"[{a}:{b}]"
                r.bad(m, '_overlap', cons,
                      f"_overlap({fmt(kx, xa, xb)}, {fmt(ky, ya, yb)}) gives {out[1] if out[0] == 'return' else out} "
                      f"but the bit ranges {'do' if want else 'do not'} overlap: a multi-driver conflict on these "
                      f"slices is {'missed' if want else 'reported spuriously'}", f.lineno)
            else:
                r.ok(m, '_overlap', cons)
    # the call site: slice_overlap(s, other) -> _overlap(s.slice, other.slice) on two *different* objects
    meths = m.methods('Signal')
    so = meths.get('slice_overlap')
    if so is None:
        raise AnalysisError("anchor vanished: Signal.slice_overlap")
    a0, a1 = [a.arg for a in so.args.args][:2]
    rets = [n for n in walk_no_nested(so) if isinstance(n, ast.Return)]
    ok = False
    if len(rets) == 1 and isinstance(rets[0].value, ast.Call) and norm(rets[0].value.func) == '_overlap' \
            and len(rets[0].value.args) == 2:
        got = sorted(norm(a) for a in rets[0].value.args)
        ok = got == sorted([f"{a0}._dsl.slice", f"{a1}._dsl.slice"])
    if ok:
        r.ok(m, 'Signal.slice_overlap', norm(rets[0]))
    else:
        r.bad(m, 'Signal.slice_overlap', norm(rets), "slice_overlap must return _overlap of its own slice and the "
              "other signal's slice; otherwise overlapping sibling writers are not compared", so.lineno)
    # get_sibling_slices: every slice registered at the parent except the signal itself
    gs = meths.get('get_sibling_slices')
    if gs is None:
        raise AnalysisError("anchor vanished: Signal.get_sibling_slices")
    me = gs.args.args[0].arg
    verdict = None
    for is_slice in (True, False):
        sibs = [Obj('Wire'), Obj('Wire'), Obj('Wire')]
        par = Obj('Wire')
        selfo = sibs[1]
        env = {me: selfo, f"{me}._dsl.slice": Obj('slice') if is_slice else None}
        selfo.fields['get_parent_object()'] = par
        dsl = Obj('dsl', slices={(0, 1): sibs[0], (1, 2): sibs[1], (2, 4): sibs[2]})
        par.fields['_dsl'] = dsl

        class E(Abs):
            def _block(s2, stmts):
                for st in stmts:
                    if isinstance(st, ast.Expr) and isinstance(st.value, ast.Call) and \
                            isinstance(st.value.func, ast.Attribute) and st.value.func.attr == 'remove':
                        lst = s2.ev(st.value.func.value)
                        x = s2.ev(st.value.args[0])
                        idx = [i for i, y in enumerate(lst) if y is x]
                        if not idx:
                            raise Raised('ValueError')
                        del lst[idx[0]]
                    else:
                        Abs._block(s2, [st])
        e2 = E({me: selfo, f"{me}._dsl.slice": env[f"{me}._dsl.slice"]})
        out = run_block(e2, [s for s in gs.body if not _is_doc(s)])
        r.evaluations += 1
        want = [sibs[0], sibs[2]] if is_slice else []
        got = list(out[1]) if out[0] == 'return' and out[1] is not None else None
        if got is None or len(got) != len(want) or any(not any(g is w for g in got) for w in want):
            verdict = f"for a {'slice' if is_slice else 'non-slice'} signal it yields " \
                      f"{'nothing' if got is None else len(got)} siblings, expected {len(want)} (all other slices of the parent)"
    if verdict:
        r.bad(m, 'Signal.get_sibling_slices', 'siblings = parent slices - self', verdict + ": overlapping sibling "
              "writers go undetected", gs.lineno)
    else:
        r.ok(m, 'Signal.get_sibling_slices', 'siblings = parent slices - self')
    r.require_floor(6)
    return r


# ---------------------------------------------------------------------------
def rule_slicekey(repo):
    r = RuleResult('R-C09-slicekey', "Signal.__getitem__ keys every slice object by its absolute bit interval, registers it "
                                     "at the un-sliced parent, and rejects exactly the out-of-range / empty slices")
    m = repo.mod(CONN)
    f = m.methods('Signal').get('__getitem__')
    if f is None:
        raise AnalysisError("anchor vanished: Signal.__getitem__")
    me, pidx = [a.arg for a in f.args.args][:2]
    stores = [n for n in walk_no_nested(f) if isinstance(n, ast.Assign) and len(n.targets) == 1 and
              isinstance(n.targets[0], ast.Attribute) and n.targets[0].attr == 'slice']
    if len(stores) != 1:
        raise AnalysisError(f"Signal.__getitem__: expected one store to <new>._dsl.slice, found {len(stores)}")
    st = stores[0]
    v = st.value
    if not (isinstance(v, ast.Call) and norm(v.func) == 'slice' and len(v.args) == 2):
        r.bad(m, 'Signal.__getitem__', norm(st), "the slice descriptor is not slice(start, stop)", st.lineno)
        r.require_floor(1)
        return r
    top_st = st
    while parent(top_st) is not f:
        top_st = parent(top_st)
    prefix = [s for s in f.body[:f.body.index(top_st)] if not _is_doc(s)]
    blk = parent(st)
    blk_stmts = blk.body if st in getattr(blk, 'body', []) else blk.orelse
    alias = {}
    for s in blk_stmts:
        if isinstance(s, ast.Assign) and len(s.targets) == 1 and isinstance(s.targets[0], ast.Name):
            alias[s.targets[0].id] = s.value

    def expand(e):
        if isinstance(e, ast.Name) and e.id in alias:
            return expand(alias[e.id])
        if isinstance(e, ast.Attribute):
            return expand(e.value) + '.' + e.attr
        return norm(e)
    newobj = expand(st.targets[0].value)        # e.g.  top_signal.__class__(...)._dsl
    par_t = None
    registered = None
    for s in blk_stmts:
        if not isinstance(s, ast.Assign):
            continue
        for t in s.targets:
            if isinstance(t, ast.Attribute) and t.attr == 'parent_obj' and expand(t.value) == newobj \
                    and isinstance(s.value, ast.Name):
                par_t = s.value.id
            if isinstance(t, ast.Subscript) and expand(t.value).endswith('._dsl.slices'):
                registered = (expand(t.value)[:-len('._dsl.slices')], norm(t.slice))
    if par_t is None or registered is None or registered[0] != par_t:
        r.bad(m, 'Signal.__getitem__', 'register slice at parent',
              "the new slice is not stored in <parent>._dsl.slices with parent_obj = <parent>: get_sibling_slices "
              "cannot find overlapping writers", st.lineno)
    else:
        r.ok(m, 'Signal.__getitem__', f"{par_t}._dsl.slices[{registered[1]}] = new; new.parent_obj = {par_t}")
    W = 6
    bad = None
    n_ok = 0
    for outer in (None, (0, 6), (2, 5), (1, 2)):
        for kind in ('int', 'slice'):
            for a in range(-1, 8):
                for b in ([a + 1] if kind == 'int' else range(-1, 9)):
                    selfo, par = Obj('Wire'), Obj('Wire')
                    env = {me: selfo, pidx: a if kind == 'int' else Obj('slice', start=a, stop=b, step=None),
                           f"{me}._dsl.Type": Obj('type'), 'Bits': Obj('type'),
                           f"{me}._dsl.Type.nbits": W,
                           f"{me}._dsl.slice": None if outer is None else Obj('slice', start=outer[0], stop=outer[1], step=None),
                           f"{me}._dsl.parent_obj": par}
                    ev = Abs(env, arith=True, funcs={'issubclass': lambda *x: True})
                    out = run_block(ev, prefix)
                    r.evaluations += 1
                    width = W if outer is None else outer[1] - outer[0]
                    valid = 0 <= a < b <= width
                    off = 0 if outer is None else outer[0]
                    if out[0] == 'fall':
                        key = (ev.ev(v.args[0]), ev.ev(v.args[1]))
                        tgt = ev.env.get(par_t) if par_t else None
                        want_t = selfo if outer is None else par
                        if not valid:
                            bad = bad or f"index {a if kind == 'int' else f'[{a}:{b}]'} of a {width}-bit " \
                                         f"{'signal' if outer is None else 'slice'} is accepted (slice {key})"
                        elif key != (off + a, off + b):
                            bad = bad or f"index {a if kind == 'int' else f'[{a}:{b}]'}" \
                                         f"{'' if outer is None else f' of slice [{outer[0]}:{outer[1]}]'} is recorded as bits " \
                                         f"[{key[0]}:{key[1]}], it addresses [{off + a}:{off + b}]"
                        elif par_t and tgt is not want_t:
                            bad = bad or "the slice is registered at the wrong parent object"
                        else:
                            n_ok += 1
                    elif out[0] == 'raise':
                        if valid:
                            bad = bad or f"legal index {a if kind == 'int' else f'[{a}:{b}]'} of a {width}-bit " \
                                         f"{'signal' if outer is None else 'slice'} is rejected with {out[1]}"
                        else:
                            n_ok += 1
                    else:
                        raise AnalysisError(f"Signal.__getitem__: unexpected outcome {out}")
    if bad:
        r.bad(m, 'Signal.__getitem__', norm(st), bad + ": overlap of two drivers is judged on the wrong bit range",
              st.lineno)
    else:
        r.ok(m, 'Signal.__getitem__', norm(st), note=f"{n_ok} (outer, index) cases agree with the absolute interval")
    r.require_floor(2)
    return r


# ---------------------------------------------------------------------------
# R-C09-pipeline
def _self_name(f):
    return f.args.args[0].arg if f.args.args else None


def _unconditional(call, f):
    """call executes on every normal path through f (structurally)"""
    for g in guards_of(call):
        if g.kind in ('if', 'loop', 'except'):
            return False
        if g.kind == 'exit' and not all(isinstance(s, ast.Raise) or
                                        not isinstance(s, (ast.Return, ast.Continue, ast.Break))
                                        for b in g.exit_block for s in walk_no_nested(b)
                                        if isinstance(s, (ast.Raise, ast.Return, ast.Continue, ast.Break))):
            return False
    st = stmt_of(call)
    p = parent(st)
    while p is not f:
        if isinstance(p, (ast.Try, ast.With)) and st in p.body:
            st, p = p, parent(p)
            continue
        return False
    return True


def _resolve_call(repo, top, cur, call):
    """top=(mod, cls) most-derived class; cur=(mod, cls, func) current function; -> (name, (mod, cls, func)|None)"""
    fn = call.func
    if not isinstance(fn, ast.Attribute):
        return None, None
    me = _self_name(cur[2])
    recv = fn.value
    if isinstance(recv, ast.Name) and recv.id == me:
        return fn.attr, repo.lookup_method(top[0], top[1], fn.attr)
    if isinstance(recv, ast.Call) and norm(recv.func) == 'super' and not recv.args:
        return fn.attr, repo.lookup_method(top[0], top[1], fn.attr, after=cur[1])
    if isinstance(recv, ast.Name) and call.args and isinstance(call.args[0], ast.Name) and call.args[0].id == me:
        rc = repo.resolve_class(cur[0], recv)
        if rc is not None:
            return fn.attr, repo.lookup_method(rc[0], rc[1], fn.attr)
    return None, None


def _trace(repo, top, cur, must=True, depth=0, expand=lambda n: n == 'elaborate' or n.startswith('_elaborate')):
    """ordered list of (name, must, call node, holder func) of the self/super calls made from cur, expanding the
    elaborate-template methods in place"""
    if depth > 8:
        raise AnalysisError("elaborate template recursion too deep")
    out = []
    f = cur[2]
    calls = sorted([n for n in walk_no_nested(f) if isinstance(n, ast.Call)], key=lambda n: (n.lineno, n.col_offset))
    for c in calls:
        name, tgt = _resolve_call(repo, top, cur, c)
        if name is None:
            continue
        mu = must and _unconditional(c, f)
        out.append((name, mu, c, cur))
        if tgt is not None and expand(name):
            out.extend(_trace(repo, top, tgt, mu, depth + 1, expand))
    return out


def _zero_arg_checkers(repo, mod, cls):
    req = {}
    for m2, c2 in repo.mro(mod, cls):
        for st in m2._defs_in(c2.body):
            if isinstance(st, ast.FunctionDef) and st.name.startswith('_check_') and st.name != '_check_valid_dsl_code':
                a = st.args
                if len(a.args) == 1 and not a.vararg and not a.kwonlyargs and not a.kwarg:
                    req.setdefault(st.name, (m2, c2))
    return req


def rule_pipeline(repo):
    r = RuleResult('R-C09-pipeline', "every component level's elaborate() runs, after collection and net resolution and on "
                                     "every normal path, a _check_valid_dsl_code that invokes every design-rule checker of "
                                     "its MRO; GenDAGPass and replace_component re-check")
    for rel, cname in LEVELS:
        mod = repo.mod(rel)
        cls = mod.get_class(cname)
        top = (mod, cls)
        req = _zero_arg_checkers(repo, mod, cls)
        if len(req) < 2:
            raise AnalysisError(f"{cname}: fewer than two design-rule checkers found in the MRO")
        cv = repo.lookup_method(mod, cls, '_check_valid_dsl_code')
        if cv is None:
            raise AnalysisError(f"anchor vanished: {cname}._check_valid_dsl_code")
        tr = _trace(repo, top, cv, expand=lambda n: n == '_check_valid_dsl_code')
        called = {n for n, mu, c, cur in tr if mu}
        for name in sorted(req):
            cons = f"{cname}: {name}"
            if name in called:
                r.ok(cv[0], f"{cv[1].name}._check_valid_dsl_code", cons)
            else:
                r.bad(cv[0], f"{cv[1].name}._check_valid_dsl_code", cons,
                      f"the _check_valid_dsl_code that a {cname} runs (defined in {cv[1].name}) does not unconditionally call "
                      f"{name} (defined in {req[name][1].name}): designs violating that rule elaborate silently",
                      cv[2].lineno)
        el = repo.lookup_method(mod, cls, 'elaborate')
        if el is None:
            raise AnalysisError(f"anchor vanished: {cname}.elaborate")
        tr = _trace(repo, top, el)
        r.evaluations += len(tr)
        names = [n for n, mu, c, cur in tr]
        checks = [i for i, (n, mu, c, cur) in enumerate(tr) if n == '_check_valid_dsl_code']
        cons = f"{cname}.elaborate -> _check_valid_dsl_code"
        needs = ['_collect_vars'] + (['_resolve_value_connections']
                                     if repo.lookup_method(mod, cls, '_resolve_value_connections') else [])
        if not any(tr[i][1] for i in checks):
            r.bad(el[0], f"{el[1].name}.elaborate", cons,
                  f"elaborate() of a {cname} does not reach _check_valid_dsl_code on every normal path: no design rule is "
                  f"enforced at elaboration", el[2].lineno)
        else:
            early = [(i, nd) for i in checks for nd in needs if nd not in names[:i]]
            if early:
                i, nd = early[0]
                holder = tr[i][3]
                r.bad(holder[0], f"{holder[1].name}.{holder[2].name}", cons,
                      f"_check_valid_dsl_code runs before {nd}: the checks see empty/unset metadata", tr[i][2].lineno)
            else:
                r.ok(el[0], f"{el[1].name}.elaborate", cons, note=f"after {', '.join(needs)}")
    # Component.check -> _check_valid_dsl_code
    cm = repo.mod(COMP)
    ccls = cm.get_class('Component')
    chk = repo.lookup_method(cm, ccls, 'check')
    if chk is None:
        raise AnalysisError("anchor vanished: Component.check")
    tr = _trace(repo, (cm, ccls), chk, expand=lambda n: False)
    if any(n == '_check_valid_dsl_code' and mu for n, mu, c, cur in tr):
        r.ok(cm, 'Component.check', 'check -> _check_valid_dsl_code')
    else:
        r.bad(cm, 'Component.check', 'check -> _check_valid_dsl_code', "check() no longer runs the design-rule checks",
              chk[2].lineno)
    # replace_component*: check() runs by default after the new component is added
    for fname in ('replace_component', 'replace_component_with_obj'):
        f = cm.methods('Component').get(fname)
        if f is None:
            raise AnalysisError(f"anchor vanished: Component.{fname}")
        me = _self_name(f)
        params = [a.arg for a in f.args.args]
        defaults = dict(zip(params[len(params) - len(f.args.defaults):], f.args.defaults))
        calls = [c for c in walk_no_nested(f) if isinstance(c, ast.Call) and norm(c.func) == f"{me}.check"]
        adds = [c for c in walk_no_nested(f) if isinstance(c, ast.Call) and norm(c.func) == f"{me}._add_component"]
        good = False
        why = "does not call check()"
        for c in calls:
            gs = [g for g in guards_of(c) if g.kind in ('if', 'loop', 'except', 'exit')]
            cond_ok = all(g.kind == 'if' and g.polarity and isinstance(g.test, ast.Name) and g.test.id in defaults
                          and isinstance(defaults[g.test.id], ast.Constant) and defaults[g.test.id].value is True
                          for g in gs)
            after = adds and all(a.lineno < c.lineno for a in adds)
            if cond_ok and after:
                good = True
            elif not cond_ok:
                why = "check() is not run by default (guard is not a parameter defaulting to True)"
            else:
                why = "check() runs before the replacement component is added"
        cons = f"{fname}: check() by default after _add_component"
        (r.ok(cm, f"Component.{fname}", cons) if good else
         r.bad(cm, f"Component.{fname}", cons, why + ": an illegal replacement is not rejected", f.lineno))
    # GenDAGPass.__call__: top.check() first
    gm = repo.mod(GENDAG)
    gf = gm.get_func('GenDAGPass.__call__')
    if len(gf.args.args) < 2:
        raise AnalysisError("GenDAGPass.__call__ signature changed")
    me, topn = gf.args.args[0].arg, gf.args.args[1].arg
    cks = [c for c in walk_no_nested(gf) if isinstance(c, ast.Call) and norm(c.func) == f"{topn}.check"]
    work = [c for c in walk_no_nested(gf) if isinstance(c, ast.Call) and isinstance(c.func, ast.Attribute)
            and isinstance(c.func.value, ast.Name) and c.func.value.id == me]
    cons = 'top.check() before DAG generation'
    if cks and any(_unconditional(c, gf) and all(c.lineno < w.lineno for w in work) for c in cks) and work:
        r.ok(gm, 'GenDAGPass.__call__', cons)
    else:
        r.bad(gm, 'GenDAGPass.__call__', cons, "the simulation pass pipeline no longer re-checks the design before "
              "building the DAG (designs mutated after elaboration are not checked)", gf.lineno)
    r.require_floor(36)
    return r


# ---------------------------------------------------------------------------
# R-C09-mw-guard / R-C09-mw-cover
def _atoms(g):
    """split a guard into (expr, polarity) atoms that all hold at the guarded point"""
    t, pol = g.test, g.polarity
    out = []

    def rec(e, p):
        while isinstance(e, ast.UnaryOp) and isinstance(e.op, ast.Not):
            e, p = e.operand, not p
        if isinstance(e, ast.BoolOp) and ((isinstance(e.op, ast.And) and p) or (isinstance(e.op, ast.Or) and not p)):
            for v in e.values:
                rec(v, p)
        elif isinstance(e, ast.Constant) and bool(e.value) == p:
            pass                      # a constant that trivially holds constrains nothing
        else:
            out.append((e, p))
    rec(t, pol)
    return out


def _is_raise_of(n, name):
    return isinstance(n, ast.Raise) and n.exc is not None and \
        norm(n.exc.func if isinstance(n.exc, ast.Call) else n.exc).split('.')[-1] == name


def _assignments_to(f, name):
    out = []
    for n in walk_no_nested(f):
        if isinstance(n, ast.Assign):
            for t in n.targets:
                if isinstance(t, ast.Name) and t.id == name:
                    out.append(n.value)
                elif isinstance(t, (ast.Tuple, ast.List)) and isinstance(n.value, (ast.Tuple, ast.List)):
                    for te, ve in zip(t.elts, n.value.elts):
                        if isinstance(te, ast.Name) and te.id == name:
                            out.append(ve)
    return out


class _Drivers:
    """which expressions of a function denote update blocks (drivers) / sets of drivers.
    Seeds: the block variable of `for blk, ws in <..>.all_upblk_writes.items()` and every map M filled by
    `M[..].add(blk)`; closed under M[k], `for k, V in M.items()`, list/set/sorted/tuple copies, indexing, names
    assigned from such expressions."""
    def __init__(self, f):
        self.f = f
        self.blocks = set()     # names of block-typed variables
        self.sets = set()       # names of driver-set variables
        self.maps = set()       # names of signal -> driver-set maps
        for n in walk_no_nested(f):
            if isinstance(n, ast.For) and isinstance(n.iter, ast.Call) and isinstance(n.iter.func, ast.Attribute) \
                    and n.iter.func.attr == 'items' and norm(n.iter.func.value).endswith('all_upblk_writes') \
                    and isinstance(n.target, ast.Tuple) and len(n.target.elts) == 2 and isinstance(n.target.elts[0], ast.Name):
                self.blocks.add(n.target.elts[0].id)
        changed = True
        while changed:
            changed = False
            for n in walk_no_nested(f):
                if isinstance(n, ast.Call) and isinstance(n.func, ast.Attribute) and n.func.attr == 'add' \
                        and isinstance(n.func.value, ast.Subscript) and isinstance(n.func.value.value, ast.Name) \
                        and len(n.args) == 1 and self.is_block(n.args[0]):
                    changed |= self._add(self.maps, n.func.value.value.id)
                if isinstance(n, ast.For) and isinstance(n.iter, ast.Call) and isinstance(n.iter.func, ast.Attribute) \
                        and n.iter.func.attr == 'items' and isinstance(n.iter.func.value, ast.Name) \
                        and n.iter.func.value.id in self.maps and isinstance(n.target, ast.Tuple) \
                        and len(n.target.elts) == 2 and isinstance(n.target.elts[1], ast.Name):
                    changed |= self._add(self.sets, n.target.elts[1].id)
                if isinstance(n, ast.For) and isinstance(n.target, ast.Name) and self.is_set(n.iter):
                    changed |= self._add(self.blocks, n.target.id)
                if isinstance(n, ast.Assign) and len(n.targets) == 1 and isinstance(n.targets[0], ast.Name):
                    if self.is_set(n.value):
                        changed |= self._add(self.sets, n.targets[0].id)
                    elif self.is_block(n.value):
                        changed |= self._add(self.blocks, n.targets[0].id)

    @staticmethod
    def _add(s, x):
        if x in s:
            return False
        s.add(x)
        return True

    def is_set(self, e):
        if isinstance(e, ast.Name):
            return e.id in self.sets
        if isinstance(e, ast.Subscript) and isinstance(e.value, ast.Name) and e.value.id in self.maps:
            return True
        if isinstance(e, ast.Call) and norm(e.func) in ('list', 'set', 'sorted', 'tuple', 'frozenset') and len(e.args) == 1:
            return self.is_set(e.args[0])
        return False

    def is_block(self, e):
        if isinstance(e, ast.Name):
            return e.id in self.blocks
        if isinstance(e, ast.Subscript) and self.is_set(e.value) and not isinstance(e.slice, ast.Slice):
            return True
        return False


def _holds(test, polarity, leaf):
    return bool(Evaluator({}, arith=True, leaf=leaf).ev(test)) == polarity


def _mw_evidence(rs, f, drv):
    """why this raise MultiWriterError is tied to two different drivers, or None"""
    h = enclosing(rs, (ast.ExceptHandler,))
    if h is not None and h.type is not None and norm(h.type) == 'AssertionError' and enclosing(h, (ast.FunctionDef,)) is f:
        tr = parent(h)
        asserts = [n for s in tr.body for n in walk_no_nested(s) if isinstance(n, ast.Assert)]
        flags = set()
        good = bool(asserts)
        for a in asserts:
            t = a.test
            if isinstance(t, ast.UnaryOp) and isinstance(t.op, ast.Not) and isinstance(t.operand, ast.Name):
                flag = t.operand.id
            else:
                good = False
                break
            flags.add(flag)
            blk = parent(a)
            lst = [l for l in (getattr(blk, 'body', None), getattr(blk, 'orelse', None)) if l and a in l]
            nxt = lst[0][lst[0].index(a) + 1] if lst and lst[0].index(a) + 1 < len(lst[0]) else None
            sets_true = False
            if isinstance(nxt, ast.Assign):
                for t2 in nxt.targets:
                    if isinstance(t2, ast.Name) and t2.id == flag and isinstance(nxt.value, ast.Constant) and nxt.value.value is True:
                        sets_true = True
                    if isinstance(t2, ast.Tuple) and isinstance(nxt.value, ast.Tuple):
                        for te, ve in zip(t2.elts, nxt.value.elts):
                            if isinstance(te, ast.Name) and te.id == flag and isinstance(ve, ast.Constant) and ve.value is True:
                                sets_true = True
            good = good and sets_true
        if good and len(flags) == 1:
            flag = next(iter(flags))
            # every place of the try body that sets the flag is one of the asserted ones
            n_sets = 0
            for n in [x for s in tr.body for x in walk_no_nested(s) if isinstance(x, ast.Assign)]:
                for t2 in n.targets:
                    if any(isinstance(x, ast.Name) and x.id == flag for x in ast.walk(t2)):
                        n_sets += 1
            if n_sets != len(asserts):
                return None
            init = reaching_value(flag, tr)
            others = [v for v in _assignments_to(f, flag)
                      if not (isinstance(v, ast.Constant) and v.value in (True, False))]
            if isinstance(init, ast.Constant) and init.value is False and not others:
                return f"second candidate: assert not {flag} before every {flag} = True ({len(asserts)} sites)"
        return None
    for g in guards_of(rs):
        if g.kind not in ('if', 'exit', 'assert'):
            continue
        for t, pol in _atoms(g):
            if not isinstance(t, ast.Compare) or len(t.ops) != 1:
                continue
            l, rr = t.left, t.comparators[0]
            # (A) cardinality of a driver set
            lens = [n for n in ast.walk(t) if isinstance(n, ast.Call) and norm(n.func) == 'len' and len(n.args) == 1]
            if lens and all(drv.is_set(n.args[0]) for n in lens):
                def leaf_n(k):
                    return lambda e: k if (isinstance(e, ast.Call) and norm(e.func) == 'len') else NotImplemented
                try:
                    if not _holds(t, pol, leaf_n(1)) and _holds(t, pol, leaf_n(2)) and _holds(t, pol, leaf_n(3)):
                        return f"cardinality: {norm(t)}"
                except AnalysisError:
                    pass
                continue
            # (B) two drivers compared
            if drv.is_block(l) and drv.is_block(rr) and norm(l) != norm(rr) \
                    and isinstance(t.ops[0], (ast.Eq, ast.NotEq, ast.Is, ast.IsNot)):
                def leaf_v(a, b):
                    return lambda e: a if e is l else (b if e is rr else NotImplemented)
                if not _holds(t, pol, leaf_v(1, 1)) and _holds(t, pol, leaf_v(1, 2)):
                    return f"different drivers: {norm(t)}"
                continue
            # (D) second candidate: `w is None` is false where w = None initially and w = candidate otherwise
            if isinstance(t.ops[0], (ast.Is, ast.IsNot, ast.Eq, ast.NotEq)) and isinstance(l, ast.Name) \
                    and isinstance(rr, ast.Constant) and rr.value is None and g.kind == 'if':
                is_none_here = pol if isinstance(t.ops[0], (ast.Is, ast.Eq)) else not pol
                if is_none_here:
                    continue
                other = g.node.orelse if rs in [x for s in g.node.body for x in ast.walk(s)] else g.node.body
                assigns_cand = any(isinstance(s, ast.Assign) and any(isinstance(tt, ast.Name) and tt.id == l.id for tt in s.targets)
                                   and isinstance(s.value, ast.Name) for s in other)
                init = reaching_value(l.id, enclosing(g.node, (ast.For, ast.While)) or g.node)
                vals = _assignments_to(f, l.id)
                lp = enclosing(g.node, (ast.For,))
                cand_ok = lp is not None and isinstance(lp.target, ast.Name) and \
                    all((isinstance(v, ast.Constant) and v.value is None) or (isinstance(v, ast.Name) and v.id == lp.target.id)
                        for v in vals)
                if assigns_cand and isinstance(init, ast.Constant) and init.value is None and cand_ok:
                    return f"second candidate: {l.id} is already set"
    return None


def _mw_sites(repo):
    for rel in (L2, L3, L5):
        m = repo.mod(rel)
        for cname, cls in m.classes.items():
            for fn in m._defs_in(cls.body):
                if not isinstance(fn, ast.FunctionDef):
                    continue
                for n in ast.walk(fn):
                    if _is_raise_of(n, 'MultiWriterError'):
                        f = enclosing(n, (ast.FunctionDef,))
                        yield m, f, n


_FLIP = {ast.Is: 'is not', ast.IsNot: 'is', ast.Eq: '!=', ast.NotEq: '==', ast.In: 'not in', ast.NotIn: 'in',
         ast.Lt: '>=', ast.GtE: '<', ast.Gt: '<=', ast.LtE: '>'}


def _canon_atom(t, pol, at):
    """canonical text of `t` holding with polarity `pol`: local aliases resolved, negation pushed into a comparison"""
    seen = 0
    while isinstance(t, ast.Name) and seen < 4:
        rv = reaching_value(t.id, at)
        if rv is None:
            break
        t, seen = rv, seen + 1
        while isinstance(t, ast.UnaryOp) and isinstance(t.op, ast.Not):
            t, pol = t.operand, not pol
    if pol:
        return norm(t)
    if isinstance(t, ast.Compare) and len(t.ops) == 1 and type(t.ops[0]) in _FLIP:
        return f"{norm(t.left)} {_FLIP[type(t.ops[0])]} {norm(t.comparators[0])}"
    return f"not ({norm(t)})"


def _guard_atoms_in_loop(node):
    """(expr, polarity) atoms of every enclosing if-test and every earlier non-raising early exit, inside the innermost
    enclosing loop of `node` (whole function when there is none)"""
    lp = enclosing(node, (ast.For, ast.While))
    fn = enclosing(node, (ast.FunctionDef, ast.AsyncFunctionDef, ast.Lambda))
    if lp is not None and fn is not None and not any(lp is x for x in ast.walk(fn)):
        lp = None
    out = []
    for g in guards_of(node, stop=lp):
        if g.kind == 'if':
            out += _atoms(g)
        elif g.kind == 'exit':
            exits = [x for b in g.exit_block for x in walk_no_nested(b)
                     if isinstance(x, (ast.Raise, ast.Return, ast.Continue, ast.Break))]
            if exits and not all(isinstance(x, ast.Raise) for x in exits):
                out += _atoms(g)
    return out


def _mw_construct(rs):
    atoms = sorted({_canon_atom(t, pol, rs) for t, pol in _guard_atoms_in_loop(rs)})
    if atoms:
        return "raise MultiWriterError under: " + ' and '.join(atoms)
    h = enclosing(rs, (ast.ExceptHandler,))
    if h is not None:
        return f"raise MultiWriterError in except {norm(h.type)}"
    return "raise MultiWriterError (unguarded)"


def rule_mw_guard(repo):
    r = RuleResult('R-C09-mw-guard', "every raise MultiWriterError is control-dependent on a test that separates two "
                                     "different drivers (a single driver is never reported as a conflict)")
    for m, f, rs in _mw_sites(repo):
        drv = _Drivers(f)
        why = _mw_evidence(rs, f, drv)
        cons = _mw_construct(rs)
        r.evaluations += 5
        if why:
            r.ok(m, qualname(f), cons, note=why)
        else:
            r.bad(m, qualname(f), cons,
                  "MultiWriterError is raised without any test that the two writers are different drivers "
                  "(no len(blocks) > 1, no blkA != blkB, no second-candidate flag): a design whose ONE update block "
                  "reaches this site (e.g. writes two overlapping slices x[0:4] and x[2:6]) is rejected although every "
                  "bit has a single driver", rs.lineno)
    # embedded positive example: the rule must flag an unguarded raise and accept the guarded one
    probe = ast.parse(
        "def chk(s):\n"
        "  wu = {}\n"
        "  for blk, writes in s._dsl.all_upblk_writes.items():\n"
        "    for wr in writes:\n"
        "      wu[wr].add(blk)\n"
        "  for obj, bs in wu.items():\n"
        "    bs = list(bs)\n"
        "    for x in obj.get_sibling_slices():\n"
        "      if x in wu:\n"
        "        raise MultiWriterError('a')\n"
        "      if x in wu and list(wu[x])[0] != bs[0]:\n"
        "        raise MultiWriterError('b')\n")
    from sa.loader import _set_parents
    _set_parents(probe)
    pf = probe.body[0]
    got = [_mw_evidence(n, pf, _Drivers(pf)) is not None for n in ast.walk(pf) if _is_raise_of(n, 'MultiWriterError')]
    if sorted(got) != [False, True]:
        raise AnalysisError("R-C09-mw-guard: embedded probe not judged as expected")
    r.require_floor(5)
    return r


def rule_mw_cover(repo):
    r = RuleResult('R-C09-mw-cover', "_check_upblk_writes looks at every (block, written object) pair and reports a second "
                                     "writer of the same object, of any ancestor, and of any overlapping sibling slice")
    m, f = _func_of(repo, L2, 'ComponentLevel2._check_upblk_writes')
    fq = 'ComponentLevel2._check_upblk_writes'
    drv = _Drivers(f)
    if not drv.maps:
        r.bad(m, fq, 'writer map', "no map signal -> writing blocks is built from all_upblk_writes", f.lineno)
        r.require_floor(1)
        return r
    # 1. the builder inserts every pair unconditionally
    adds = [n for n in walk_no_nested(f) if isinstance(n, ast.Call) and isinstance(n.func, ast.Attribute)
            and n.func.attr == 'add' and isinstance(n.func.value, ast.Subscript)
            and isinstance(n.func.value.value, ast.Name) and n.func.value.value.id in drv.maps]
    for a in adds:
        gs = guards_of(a)
        loops = [g for g in gs if g.kind == 'loop']
        cond = [g for g in gs if g.kind != 'loop']
        key = a.func.value.slice
        ok = len(loops) == 2 and not cond and isinstance(key, ast.Name) \
            and isinstance(loops[0].node.target, ast.Name) and loops[0].node.target.id == key.id \
            and isinstance(loops[1].node.target, ast.Tuple) and norm(loops[0].node.iter) == norm(loops[1].node.target.elts[1])
        if ok:
            r.ok(m, fq, norm(a))
        else:
            r.bad(m, fq, norm(a), "the writer map is not filled for every written object of every update block "
                  "(conditional insertion or wrong key): some writers are invisible to the multi-writer check", a.lineno)
    # 2. the three detection shapes
    found = {}
    mapname = lambda e: isinstance(e, ast.Name) and e.id in drv.maps
    for rs in [n for n in walk_no_nested(f) if _is_raise_of(n, 'MultiWriterError')]:
        gs = guards_of(rs)
        loops = [g.node for g in gs if g.kind == 'loop']
        outer = [l for l in loops if isinstance(l, ast.For) and isinstance(l.iter, ast.Call)
                 and isinstance(l.iter.func, ast.Attribute) and l.iter.func.attr == 'items' and mapname(l.iter.func.value)]
        if not outer or not isinstance(outer[0].target, ast.Tuple) or not isinstance(outer[0].target.elts[0], ast.Name):
            raise AnalysisError(f"{fq}: a raise MultiWriterError outside the loop over the writer map")
        obj = outer[0].target.elts[0].id
        inner = [l for l in loops if l is not outer[0]]
        atoms = []
        for g in gs:
            if g.kind == 'if' or g.kind == 'assert':
                atoms += _atoms(g)
            elif g.kind == 'exit':
                blk = g.exit_block
                if all(isinstance(x, ast.Raise) for s in blk for x in walk_no_nested(s)
                       if isinstance(x, (ast.Raise, ast.Return, ast.Continue, ast.Break))):
                    continue      # an earlier error exit does not narrow this one
                atoms += _atoms(g)
        member = overlap = False
        unknown = []
        var = None
        if len(inner) == 1 and isinstance(inner[0], ast.While):
            kind = 'ancestor'
            t = inner[0].test
            if isinstance(t, ast.Call) and isinstance(t.func, ast.Attribute) and t.func.attr == 'is_signal' \
                    and isinstance(t.func.value, ast.Name):
                var = t.func.value.id
            step = [s for s in inner[0].body if isinstance(s, ast.Assign) and len(s.targets) == 1 and
                    isinstance(s.targets[0], ast.Name) and s.targets[0].id == var and
                    norm(s.value) == f"{var}.get_parent_object()"]
            init = reaching_value(var, inner[0]) if var else None
            if var is None or not step or init is None or norm(init) not in (obj, f"{obj}.get_parent_object()"):
                r.bad(m, fq, 'ancestor walk', "the walk over the ancestors of a written object does not start at the object "
                      "and step with get_parent_object() while is_signal(): a writer of a parent struct/signal is missed",
                      inner[0].lineno)
                continue
        elif len(inner) == 1 and isinstance(inner[0], ast.For):
            kind = 'sibling'
            if norm(inner[0].iter) != f"{obj}.get_sibling_slices()" or not isinstance(inner[0].target, ast.Name):
                raise AnalysisError(f"{fq}: unexpected loop {norm(inner[0].iter)} around a raise MultiWriterError")
            var = inner[0].target.id
        elif not inner:
            kind = 'same'
        else:
            raise AnalysisError(f"{fq}: raise MultiWriterError under an unrecognised loop nest")
        for t, pol in atoms:
            if isinstance(t, ast.Name):
                rv = reaching_value(t.id, rs)
                if rv is not None:
                    t = rv
            if isinstance(t, ast.Compare) and len(t.ops) == 1 and isinstance(t.ops[0], (ast.In, ast.NotIn)) \
                    and mapname(t.comparators[0]) and isinstance(t.left, ast.Name) and t.left.id == var:
                if (isinstance(t.ops[0], ast.In)) == pol:
                    member = True
                else:
                    unknown.append(norm(t))
            elif isinstance(t, ast.Call) and isinstance(t.func, ast.Attribute) and t.func.attr == 'slice_overlap' \
                    and len(t.args) == 1 and {norm(t.func.value), norm(t.args[0])} == {var, obj}:
                if pol:
                    overlap = True
                else:
                    unknown.append('not ' + norm(t))
            elif isinstance(t, ast.Compare) and len(t.ops) == 1 and isinstance(t.ops[0], (ast.IsNot, ast.NotEq, ast.Is, ast.Eq)) \
                    and {norm(t.left), norm(t.comparators[0])} == {var, obj}:
                if (isinstance(t.ops[0], (ast.IsNot, ast.NotEq))) != pol:
                    unknown.append(norm(t))
            elif isinstance(t, ast.Compare) and len(t.ops) == 1 and \
                    (any(drv.is_block(x) for x in (t.left, t.comparators[0])) or
                     any(isinstance(n, ast.Call) and norm(n.func) == 'len' and drv.is_set(n.args[0]) for n in ast.walk(t))):
                pass      # driver tests are R-C09-mw-guard's business
            else:
                unknown.append(norm(t))
        cons = f"{kind}-writer detection"
        if unknown:
            r.bad(m, fq, cons, f"detection is narrowed by the extra condition(s) {unknown}: some {kind} conflicts are missed",
                  rs.lineno)
        elif kind == 'ancestor' and not member:
            r.bad(m, fq, cons, f"the ancestor is not tested for membership in the writer map", rs.lineno)
        elif kind == 'sibling' and not (member and overlap):
            r.bad(m, fq, cons, "a sibling slice must be both overlapping (slice_overlap) and written (in the writer map): "
                  f"{'disjoint slices conflict spuriously' if not overlap else 'unwritten siblings conflict'}", rs.lineno)
        else:
            r.ok(m, fq, cons)
            found[kind] = True
    for kind in ('same', 'ancestor', 'sibling'):
        if kind not in found and not any(i['construct'] == f"{kind}-writer detection" for i in r.instances):
            r.bad(m, fq, f"{kind}-writer detection", f"no MultiWriterError is raised for a second writer of "
                  f"{'the same object' if kind == 'same' else 'an ancestor (struct / whole signal)' if kind == 'ancestor' else 'an overlapping sibling slice'}",
                  f.lineno)
    r.require_floor(4)
    return r


# ---------------------------------------------------------------------------
# R-C09-porttable
def _mk_hier():
    def comp(par):
        o = Obj('Component')
        o.fields['get_parent_object()'] = par
        o.fields['_dsl'] = Obj('dsl', adjacency={})
        o.fields.update({'is_component()': True, 'is_signal()': False, 'is_interface()': False})
        return o
    T = comp(None)
    A, B = comp(T), comp(T)
    A1, A2, B1 = comp(A), comp(A), comp(B)
    A11 = comp(A1)
    return dict(T=T, A=A, B=B, A1=A1, A2=A2, B1=B1, A11=A11)


def _mk_sig(cls, host, depth=0, ifc=0):
    """a signal of component `host`; `ifc` nested Interface objects sit between the signal and the component (a wire /
    port declared inside an interface: its parent object is the interface, its host component is still `host`);
    `depth` struct-field / slice levels below the declared signal"""
    par = host
    for _ in range(ifc):
        i = Obj('Interface')
        i.fields.update({'get_parent_object()': par, 'get_host_component()': host, 'is_component()': False,
                         'is_signal()': False, 'is_interface()': True})
        par = i
    o = Obj(cls)
    o.fields.update({'get_parent_object()': par, 'get_host_component()': host, 'is_component()': False, 'is_signal()': True,
                     'is_interface()': False, 'is_top_level_signal()': True})
    o.fields['get_top_level_signal()'] = o
    root = o
    for _ in range(depth):      # a struct field / slice of the signal: same class, parent is the signal
        c = Obj(cls)
        c.fields.update({'get_parent_object()': o, 'get_host_component()': host, 'is_component()': False, 'is_signal()': True,
                         'is_interface()': False, 'is_top_level_signal()': False, 'get_top_level_signal()': root})
        o = c
    return o


def _upblk_expected(kind, cls, blk_host, sig_host):
    same = blk_host is sig_host
    blk_is_parent = sig_host.fields['get_parent_object()'] is blk_host
    if kind == 'read':
        return same if cls == 'Wire' else True
    return blk_is_parent if cls == 'InPort' else same


def _nets_expected(rel, ucls, vcls, in_parent):
    if rel == 'same':
        if vcls in ('OutPort', 'Wire'):
            return None
        if ucls == 'OutPort':
            return None if in_parent else 'InvalidConnectionError'
        return 'SignalTypeError'
    if rel == 'reader-host-is-parent':
        return None if (ucls == 'OutPort' and vcls in ('OutPort', 'Wire')) else 'SignalTypeError'
    if rel == 'writer-host-is-parent':
        return None if vcls == 'InPort' else 'SignalTypeError'
    if rel == 'siblings':
        return None if (ucls == 'OutPort' and vcls == 'InPort') else 'SignalTypeError'
    return 'SignalTypeError'


def rule_porttable(repo):
    r = RuleResult('R-C09-porttable', "the accept/reject decision of _check_port_in_upblk and _check_port_in_nets equals the "
                                      "port-direction rules [Type 1..9] for every hierarchical relation and port class")
    anc = class_ancestors(repo, L3, ['InPort', 'OutPort', 'Wire', 'Const', 'Signal', 'Interface'])
    anc.update(class_ancestors(repo, COMP, ['Component']))
    # ---- update blocks
    m, f = _func_of(repo, L2, 'ComponentLevel2._check_port_in_upblk')
    fq = 'ComponentLevel2._check_port_in_upblk'
    seen = set()
    for kind, coll in (('read', 'all_upblk_reads'), ('write', 'all_upblk_writes')):
        outer = [n for n in walk_no_nested(f) if isinstance(n, ast.For) and isinstance(n.iter, ast.Call)
                 and isinstance(n.iter.func, ast.Attribute) and n.iter.func.attr == 'items'
                 and norm(n.iter.func.value).endswith(coll)]
        if len(outer) != 1 or not isinstance(outer[0].target, ast.Tuple):
            raise AnalysisError(f"{fq}: expected one loop over {coll}.items()")
        o = outer[0]
        bname, cname = [norm(x) for x in o.target.elts]
        hv = [s for s in o.body if isinstance(s, ast.Assign) and len(s.targets) == 1 and isinstance(s.targets[0], ast.Name)
              and 'all_upblk_hostobj' in norm(s.value) and norm(s.value).endswith(f"[{bname}]")]
        inner = [s for s in o.body if isinstance(s, ast.For) and norm(s.iter) == cname and isinstance(s.target, ast.Name)]
        if len(hv) != 1 or len(inner) != 1:
            raise AnalysisError(f"{fq}: cannot find the block's host / the loop over its {kind}s")
        hostvar, objvar, body = hv[0].targets[0].id, inner[0].target.id, inner[0].body
        if [g for g in guards_of(inner[0]) if g.kind != 'loop'] or [g for g in guards_of(o) if g.kind != 'loop' and g.kind != 'exit']:
            r.bad(m, fq, f"{kind}: loop over all blocks", "the port check of update blocks is conditional", inner[0].lineno)
        H = _mk_hier()
        for cls in ('InPort', 'OutPort', 'Wire'):
            wrong = None
            for sh in ('A', 'A1', 'T'):
                for bh in ('A', 'T', 'A1', 'B', 'A11'):
                    for depth, ifc in ((0, 0), (1, 0), (0, 1), (1, 1), (0, 2), (2, 2)):
                        sig = _mk_sig(cls, H[sh], depth, ifc)
                        ev = Abs({objvar: sig, hostvar: H[bh]}, ancestors=anc)
                        out = run_block(ev, body)
                        r.evaluations += 1
                        want = _upblk_expected(kind, cls, H[bh], H[sh])     # decided by the HOST COMPONENT only
                        if out[0] not in ('fall', 'raise'):
                            raise AnalysisError(f"{fq}: unexpected outcome {out}")
                        got = out[0] == 'fall'
                        if got != want or (not got and out[1] != 'SignalTypeError'):
                            wrong = wrong or (sh, bh, (depth, ifc), out, want)
            cons = f"{kind} of {cls} from an update block"
            seen.add(cons)
            if wrong:
                sh, bh, (depth, ifc), out, want = wrong
                r.bad(m, fq, cons,
                      f"{kind} of a{' field/slice of a' if depth else ''} {cls} "
                      f"{'declared inside ' + ('a nested ' if ifc > 1 else 'an ') + 'Interface ' if ifc else ''}of component {sh} in an update block of {bh} is "
                      f"{'accepted' if out[0] == 'fall' else 'rejected with ' + str(out[1])}; the port rules say it must be "
                      f"{'accepted' if want else 'rejected with SignalTypeError'} (hierarchy: T > A,B; A > A1,A2; A1 > A11)",
                      inner[0].lineno)
            else:
                r.ok(m, fq, cons)
    # ---- nets
    m, f = _func_of(repo, L3, 'ComponentLevel3._check_port_in_nets')
    fq = 'ComponentLevel3._check_port_in_nets'
    loops = [n for n in walk_no_nested(f) if isinstance(n, ast.For) and isinstance(n.iter, ast.Subscript)
             and norm(n.iter.value).endswith('all_adjacency') and isinstance(n.target, ast.Name)
             and isinstance(n.iter.slice, ast.Name)]
    if len(loops) != 1:
        raise AnalysisError(f"{fq}: expected one loop over all_adjacency[u]")
    lp = loops[0]
    u, v = lp.iter.slice.id, lp.target.id
    hostof = {}
    for n in walk_no_nested(f):
        if isinstance(n, ast.Assign) and len(n.targets) == 1 and isinstance(n.targets[0], ast.Name) \
                and isinstance(n.value, ast.Call) and isinstance(n.value.func, ast.Attribute) \
                and n.value.func.attr == 'get_host_component' and isinstance(n.value.func.value, ast.Name):
            hostof[n.value.func.value.id] = n.targets[0].id
    if u not in hostof or v not in hostof:
        raise AnalysisError(f"{fq}: writer/reader host variables not found")
    whost, rhost = hostof[u], hostof[v]
    chain = [n for n in walk_no_nested(lp) if isinstance(n, ast.If) and {whost, rhost} <= {x.id for x in ast.walk(n.test) if isinstance(x, ast.Name)}]
    chain = [n for n in chain if not any(n is not c and any(n is y for y in ast.walk(c)) for c in chain)]
    if len(chain) != 1:
        raise AnalysisError(f"{fq}: expected one relation if-chain over ({whost}, {rhost}), found {len(chain)}")
    chain = chain[0]
    # DFS shape: the chain is checked for every newly visited neighbour, which is also pushed
    wl = enclosing(lp, (ast.While,))
    gs_chain = [g for g in guards_of(chain, stop=lp) if g.kind in ('if', 'exit')
                and not (isinstance(g.test, ast.Constant) and bool(g.test.value) == g.polarity)]
    visit_guard = [g for g in gs_chain if isinstance(g.test, ast.Compare) and len(g.test.ops) == 1
                   and isinstance(g.test.ops[0], (ast.In, ast.NotIn)) and norm(g.test.left) == v]
    cons = 'DFS over the net: every edge to an unvisited neighbour is checked and the neighbour expanded'
    dfs_ok = False
    if wl is not None and len(gs_chain) == 1 and len(visit_guard) == 1:
        g = visit_guard[0]
        vis = norm(g.test.comparators[0])
        unvisited = (isinstance(g.test.ops[0], ast.NotIn)) == g.polarity
        pc = parent(chain)      # the statement list the relation chain lives in (if-body or, after an early
        blk = [l for l in (getattr(pc, 'body', None), getattr(pc, 'orelse', None)) if l and chain in l]   # `continue`, the loop body)
        blk = blk[0] if blk else []
        top_calls = [s.value for s in blk if isinstance(s, ast.Expr) and isinstance(s.value, ast.Call)]
        marks = any(norm(c.func) == f"{vis}.add" and [norm(a) for a in c.args] == [v] for c in top_calls)
        stack = isinstance(wl.test, ast.Name) and wl.test.id
        pushes = stack and any(norm(c.func) in (f"{stack}.append", f"{stack}.add") and [norm(a) for a in c.args] == [v] for c in top_calls)
        pops = stack and any(isinstance(s, ast.Assign) and norm(s.targets[0]) == u and norm(s.value) in (f"{stack}.pop()", f"{stack}.pop(0)", f"{stack}.popleft()")
                             for s in wl.body)
        nl = enclosing(wl, (ast.For,))
        seeds = nl is not None and isinstance(nl.target, ast.Tuple) and isinstance(nl.target.elts[0], ast.Name) and \
            any(isinstance(s, ast.Assign) and norm(s.targets[0]) == stack and isinstance(s.value, ast.List)
                and [norm(x) for x in s.value.elts] == [nl.target.elts[0].id] for s in nl.body)
        dfs_ok = bool(unvisited and marks and pushes and pops and seeds and not [g for g in guards_of(nl) if g.kind in ('if', 'loop')])
    (r.ok(m, fq, cons) if dfs_ok else
     r.bad(m, fq, cons, "the traversal from the net writer does not visit/expand every connected signal: port-direction "
           "violations deeper in the net are not checked", lp.lineno))
    H = _mk_hier()
    me_nets = _self_name(f)      # the method's self is the elaboration top: its own adjacency table is NOT the parent's
    pairs = [('same', 'A', 'A'), ('same', 'A1', 'A1'), ('same', 'A11', 'A11'),     # looped component at depth 1, 2, 3
             ('reader-host-is-parent', 'A1', 'A'), ('reader-host-is-parent', 'A', 'T'), ('reader-host-is-parent', 'A11', 'A1'),
             ('writer-host-is-parent', 'A', 'A1'), ('writer-host-is-parent', 'T', 'A'), ('writer-host-is-parent', 'A1', 'A11'),
             ('siblings', 'A1', 'A2'), ('siblings', 'A', 'B'), ('siblings', 'A2', 'A1'),
             ('farther', 'A1', 'B1'), ('farther', 'A11', 'A'), ('farther', 'A', 'A11'), ('farther', 'A1', 'B'),
             ('farther', 'T', 'A1'), ('farther', 'A1', 'T'), ('farther', 'B', 'A2')]
    rels = ['same', 'reader-host-is-parent', 'writer-host-is-parent', 'siblings', 'farther']
    for rel in rels:
        for ucls in ('InPort', 'OutPort', 'Wire', 'Const'):
            for vcls in ('InPort', 'OutPort', 'Wire'):
                wrong = None
                loopback = rel == 'same' and ucls == 'OutPort' and vcls == 'InPort'
                for rl, wn, rn in pairs:
                    if rl != rel:
                        continue
                    for in_parent in ((True, False) if loopback else (False,)):
                        H = _mk_hier()
                        wh, rh = H[wn], H[rn]
                        uo = _mk_sig(ucls, wh)
                        vo = _mk_sig(vcls, rh)
                        if loopback:
                            where = wh.fields['get_parent_object()'] if in_parent else wh
                            where.fields['_dsl'].fields['adjacency'].update({uo: [vo], vo: [uo]})
                        ev = Abs({u: uo, v: vo, whost: wh, rhost: rh, me_nets: H['T']}, ancestors=anc)
                        out = run_block(ev, [chain])
                        r.evaluations += 1
                        want = _nets_expected(rel, ucls, vcls, in_parent)
                        got = None if out[0] == 'fall' else (out[1] if out[0] == 'raise' else out)
                        if got != want:
                            wrong = wrong or (wn, rn, in_parent, got, want)
                cons = f"{rel}: {ucls} drives {vcls}"
                if wrong:
                    wn, rn, in_parent, got, want = wrong
                    r.bad(m, fq, cons,
                          f"{ucls} of component {wn} driving {vcls} of component {rn}"
                          f"{(' (connected in the ' + ('parent' if in_parent else 'component itself') + ')') if loopback else ''} is "
                          f"{'accepted' if got is None else 'rejected with ' + str(got)}; the port rules say "
                          f"{'accept' if want is None else want} (hierarchy: T > A,B; A > A1,A2; A1 > A11; B > B1)", chain.lineno)
                else:
                    r.ok(m, fq, cons)
    r.require_floor(67)
    return r


# ---------------------------------------------------------------------------
# R-C09-optable
OPS = [('=', None), ('for-loop target', 'for'), ('@=', Obj('MatMult')), ('<<=', Obj('LShift')),
       ('other augmented operator', Obj('Add')), ('other augmented operator', Obj('BitOr'))]


def rule_optable(repo):
    r = RuleResult('R-C09-optable', "extract_obj_from_names accepts exactly `@=` in update blocks and `<<=` on top-level "
                                    "signals in update_ff blocks, and raises the documented error for every other "
                                    "(block kind, operator) combination; only signals may be written")
    m, f = _func_of(repo, L2, 'ComponentLevel2._elaborate_read_write_func.extract_obj_from_names')
    fq = 'ComponentLevel2._elaborate_read_write_func.extract_obj_from_names'
    params = [a.arg for a in f.args.args]
    if len(params) != 4:
        raise AnalysisError(f"{fq}: signature changed ({params})")
    p_ff, p_wr = params[2], params[3]
    ifs = [n for n in walk_no_nested(f) if isinstance(n, ast.If) and
           {x.id for x in ast.walk(n.test) if isinstance(x, ast.Name)} == {p_ff}]
    if len(ifs) != 1:
        r.bad(m, fq, 'operator checks', "no case split on the block kind (update_ff) around the operator checks: "
              "the assignment-operator rules are not enforced", f.lineno)
        r.require_floor(1)
        return r
    cur, L, start = ifs[0], None, []
    while True:       # climb to the statement list that holds the is_write test (it may enclose the kind split)
        blk = parent(cur)
        lists = [l for l in (getattr(blk, 'body', None), getattr(blk, 'orelse', None)) if l and cur in l]
        if not lists:
            break
        L = lists[0]
        start = [i for i, s2 in enumerate(L) if any(isinstance(x, ast.Name) and x.id == p_wr for x in ast.walk(s2))]
        if start or isinstance(blk, (ast.FunctionDef, ast.For, ast.While)):
            break
        cur = blk
    if not start:
        raise AnalysisError(f"{fq}: the write checks are not under an is_write test")
    L = L[start[0]:]
    rets = [n for n in walk_no_nested(f) if isinstance(n, ast.Return) and isinstance(n.value, ast.Name)]
    if len(rets) != 1:
        raise AnalysisError(f"{fq}: expected a single `return <collected objects>`")
    acc = rets[0].value.id
    loopv = enclosing(ifs[0], (ast.For,))
    if loopv is None or not isinstance(loopv.target, ast.Tuple) or len(loopv.target.elts) != 3:
        raise AnalysisError(f"{fq}: the (name, nodes, op) loop was not found")
    p_op = norm(loopv.target.elts[2])
    objs_names = [n.id for s in L for n in ast.walk(s) if isinstance(n, ast.For) and isinstance(n.iter, ast.Name)
                  for n in [n.iter]]
    if not objs_names:
        raise AnalysisError(f"{fq}: no loop over the written objects")
    p_objs = objs_names[0]
    anc = class_ancestors(repo, L2, ['InPort', 'OutPort', 'Wire', 'Signal'])
    anc.update(class_ancestors(repo, COMP, ['Component']))

    def mk(kind):
        if kind == 'top':
            return Obj('Wire', **{'is_top_level_signal()': True, '_dsl': Obj('dsl')})
        if kind == 'sub':
            return Obj('OutPort', **{'is_top_level_signal()': False, '_dsl': Obj('dsl')})
        return Obj('Component', **{'_dsl': Obj('dsl')})
    scen = [['top'], ['sub'], ['top', 'sub'], ['sub', 'top'], ['top', 'top'], ['comp'], ['top', 'comp'], []]
    for ff in (False, True):
        groups = {}
        for opname, op in OPS:
            for sc in scen:
                objs_l = [mk(k) for k in sc]
                objs = set(objs_l)
                ev = Abs({p_wr: True, p_ff: ff, p_op: op, p_objs: objs, acc: set()}, ancestors=anc, arith=True, closed=True)
                out = run_block(ev, L)
                r.evaluations += 1
                # the same written name after an EARLIER statement of the block already collected these signals
                # (legal operator first, then this one) -- the verdict must not depend on the collected set
                seq_msg = None
                if sc and 'comp' not in sc:
                    for extra in (0, 1):
                        pre = set(objs) | ({mk('top')} if extra else set())
                        ev2 = Abs({p_wr: True, p_ff: ff, p_op: op, p_objs: objs, acc: pre}, ancestors=anc, arith=True,
                                  closed=True)
                        out2 = run_block(ev2, L)
                        r.evaluations += 1
                        o1 = out[1] if out[0] == 'raise' else None
                        o2 = out2[1] if out2[0] == 'raise' else None
                        if o1 != o2:
                            seq_msg = (f"{'update_ff' if ff else 'update'} block: `x {opname} ...` "
                                       f"{'is accepted' if o2 is None else 'raises ' + str(o2)} when an earlier statement of the "
                                       f"same block already wrote x, but {'is accepted' if o1 is None else 'raises ' + str(o1)} "
                                       f"as the first write: the operator check depends on statement order")
                if 'comp' in sc:
                    want = 'WriteNonSignalError'
                elif not sc:
                    want = None
                elif not ff:
                    want = None if opname == '@=' else 'UpdateBlockWriteError'
                else:
                    want = ('UpdateFFBlockWriteError' if opname != '<<=' else
                            ('UpdateFFNonTopLevelSignalError' if 'sub' in sc else None))
                got = out[1] if out[0] == 'raise' else None
                msg = seq_msg
                if got != want:
                    msg = (f"{'update_ff' if ff else 'update'} block assigning {'+'.join(sc) or 'nothing'} with "
                           f"{opname}{' (' + op.tag + ')' if isinstance(op, Obj) else ''}: "
                           f"{'accepted' if got is None else 'raises ' + str(got)}, specified: "
                           f"{'accepted' if want is None else want}")
                elif want is None and sc:
                    coll = ev.env.get(acc)
                    if not isinstance(coll, (list, set)) or any(not any(o is c for c in coll) for o in objs):
                        msg = "an accepted written signal is not added to the block's write set: later multi-writer checks miss it"
                    elif ff and any(not any(o is st_o and a == 'needs_double_buffer' and val is True
                                            for (st_o, a, val) in ev.stores) for o in [x.fields['_dsl'] for x in objs]):
                        msg = "a signal assigned with <<= is not marked needs_double_buffer"
                groups.setdefault(opname, []).append(msg)
        for opname, msgs in groups.items():
            cons = f"{'update_ff' if ff else 'update'} block, {opname}"
            bad = [x for x in msgs if x]
            if bad:
                r.bad(m, fq, cons, bad[0] + f" ({len(bad)} of {len(msgs)} cases differ)", ifs[0].lineno)
            else:
                r.ok(m, fq, cons)
    # call site: the writes of update blocks are extracted with is_write=True and the right block kind
    outer = enclosing(f, (ast.FunctionDef,))
    site = None
    for n in walk_no_nested(outer):
        if isinstance(n, ast.Assign) and isinstance(n.targets[0], ast.Subscript) \
                and norm(n.targets[0].value).endswith('_dsl.upblk_writes') and isinstance(n.value, ast.Call) \
                and norm(n.value.func) == f.name:
            site = n
    cons = 'upblk_writes[blk] = extract_obj_from_names(blk, written names, update_ff = blk in update_ff, is_write=True)'
    if site is None:
        r.bad(m, qualname(outer), cons, "upblk_writes is no longer produced by the checked extraction", outer.lineno)
    else:
        args = dict(zip(params, site.value.args))
        args.update({k.arg: k.value for k in site.value.keywords})
        blkv = norm(site.targets[0].slice)
        okc = (isinstance(args.get(p_wr), ast.Constant) and args[p_wr].value is True
               and p_ff in args and norm(args[p_ff]).replace(' ', '') in (f"{blkv}ins._dsl.update_ff", f"{blkv}in{_self_name(outer)}._dsl.update_ff")
               and norm(args.get(params[0])) == blkv)
        nm = args.get(params[1])
        rv = None
        if isinstance(nm, ast.Subscript) and isinstance(nm.value, ast.Name):
            rv = [norm(v) for v in _assignments_to(outer, nm.value.id)]
        okc = okc and rv is not None and all(x.endswith('_name_wr') for x in rv) and bool(rv)
        (r.ok(m, qualname(outer), cons) if okc else
         r.bad(m, qualname(outer), cons, f"call is {norm(site.value)}: the operator / signal checks are skipped or applied "
               "with the wrong block kind or to the wrong name list", site.lineno))
    r.require_floor(11)
    return r


# ---------------------------------------------------------------------------
# R-C09-nowriter
def rule_nowriter(repo):
    r = RuleResult('R-C09-nowriter', "nets that end without a writer are kept (writer None) by _resolve_value_connections and "
                                     "_check_port_in_nets raises NoWriterError for them before any other processing")
    m, f = _func_of(repo, L3, 'ComponentLevel3._check_port_in_nets')
    fq = 'ComponentLevel3._check_port_in_nets'
    rs = [n for n in walk_no_nested(f) if _is_raise_of(n, 'NoWriterError')]
    if not rs:
        r.bad(m, fq, 'raise NoWriterError', "nets without a driver are no longer rejected", f.lineno)
    for x in rs:
        gs = [g for g in guards_of(x) if g.kind in ('if', 'exit', 'loop', 'except', 'assert')]
        top = x
        while parent(top) is not f:
            top = parent(top)
        before = f.body[:f.body.index(top)]
        # abstractly run the statements up to and including the raising statement over small net lists
        me = _self_name(f)
        W1, W2 = Obj('Wire'), Obj('Wire')
        cases = [([], False), ([(W1, ['a'])], False), ([(None, ['b'])], True), ([(W1, ['a']), (None, ['b'])], True),
                 ([(None, ['b']), (W2, ['c'])], True), ([(W1, ['a']), (W2, ['c'])], False)]
        wrong = None
        for nets, want in cases:
            ev = Abs({f"{me}._dsl.all_value_nets": nets, me: Obj('Component')})
            out = run_block(ev, [s for s in before if not _is_doc(s)] + [top])
            r.evaluations += 1
            got = out == ('raise', 'NoWriterError')
            if out[0] not in ('fall', 'raise') or (out[0] == 'raise' and out[1] != 'NoWriterError'):
                raise AnalysisError(f"{fq}: unexpected outcome {out} before the NoWriterError test")
            if got != want:
                wrong = wrong or (nets, got, want)
        cons = 'raise NoWriterError iff some net has writer None, first thing'
        loops_before = [s for s in before if isinstance(s, (ast.For, ast.While))
                        and any(isinstance(x, ast.Raise) for x in ast.walk(s))]
        if wrong:
            nets, got, want = wrong
            r.bad(m, fq, cons, f"for nets with writers {[w if w is None else 'w' for w, _ in nets]} NoWriterError is "
                  f"{'raised' if got else 'not raised'}", x.lineno)
        elif loops_before:
            r.bad(m, fq, cons, "port checks run before the NoWriterError test (a headless net reaches the DFS with "
                  "writer None)", x.lineno)
        else:
            r.ok(m, fq, cons)
    # _resolve_value_connections keeps the headless nets
    m3, g = _func_of(repo, L3, 'ComponentLevel3._resolve_value_connections')
    gq = 'ComponentLevel3._resolve_value_connections'
    whiles = [n for n in g.body if isinstance(n, ast.While) and isinstance(n.test, ast.Name)]
    if len(whiles) != 1:
        raise AnalysisError(f"{gq}: expected one top-level `while <headless nets>` work loop")
    hl0 = whiles[0].test.id
    headed = sorted({c.func.value.id for c in walk_no_nested(whiles[0]) if isinstance(c, ast.Call)
                     and isinstance(c.func, ast.Attribute) and c.func.attr == 'append' and isinstance(c.func.value, ast.Name)
                     and c.args and isinstance(c.args[0], ast.Tuple) and len(c.args[0].elts) == 2})
    if len(headed) != 1:
        raise AnalysisError(f"{gq}: the list receiving (writer, net) pairs was not found")
    tail = g.body[g.body.index(whiles[0]) + 1:]
    cons = 'result = headed nets + (None, net) for every net left headless'
    ev = Abs({headed[0]: [('w', 'n1')], hl0: ['n2', 'n3']}, arith=True)
    out = run_block(ev, tail)      # the statements after the work loop, up to the return (loop or comprehension form)
    r.evaluations += 1
    val = out[1] if out[0] == 'return' else out
    val = [tuple(x) if isinstance(x, (tuple, list)) else x for x in val] if isinstance(val, list) else val
    if isinstance(val, list) and sorted(val, key=repr) == sorted([('w', 'n1'), (None, 'n2'), (None, 'n3')], key=repr):
        r.ok(m3, gq, cons)
    else:
        r.bad(m3, gq, cons, f"with one headed and two headless nets the result is {val}: headless nets must be returned "
              "as (None, net) so that NoWriterError is raised; they are silently dropped", g.lineno)
    headless = [hl0]
    # nets that found no writer in a round stay in the work list
    cons2 = 'a net without writer in this round is carried over to the next round / the result'
    ok2 = False
    hl = headless[0] if headless else None
    wl = [n for n in whiles if n.test.id == hl]
    if len(wl) == 1:
        w = wl[0]
        nxt = [s for s in w.body if isinstance(s, ast.Assign) and norm(s.targets[0]) == hl and isinstance(s.value, ast.Name)]
        if nxt:
            nh = nxt[-1].value.id
            apps = [c for c in walk_no_nested(w) if isinstance(c, ast.Call) and norm(c.func) == f"{nh}.append"]
            for c in apps:
                gs = [gg for gg in guards_of(c, stop=w) if gg.kind == 'if']
                if len(gs) == 1 and isinstance(gs[0].test, ast.Name) and gs[0].polarity is False:
                    flag = gs[0].test.id
                    lp = enclosing(c, (ast.For,))
                    inits = [s2 for s2 in (lp.body if lp is not None else []) if isinstance(s2, ast.Assign)
                             and any(isinstance(t2, ast.Name) and t2.id == flag for t2 in s2.targets)]
                    if lp is not None and norm(lp.iter) == hl and [norm(a) for a in c.args] == [norm(lp.target)] \
                            and inits and isinstance(inits[0].value, ast.Constant) and inits[0].value.value is False \
                            and inits[0].lineno < gs[0].node.lineno:
                        ok2 = True
    (r.ok(m3, gq, cons2) if ok2 else
     r.bad(m3, gq, cons2, "nets for which no writer was found are not re-queued: they vanish from the result and are "
           "never reported as NoWriterError", g.lineno))
    r.require_floor(3)
    return r


# ---------------------------------------------------------------------------
# R-C09-loop
_GRAPHS = [      # (name, undirected edges) -- small nets; nodes are opaque tokens
    ('single edge', [('w0', 'w1')]),
    ('path of 3', [('w0', 'w1'), ('w1', 'w2')]),
    ('star with 3 leaves', [('c', 'l0'), ('c', 'l1'), ('c', 'l2')]),
    ('ring of 3', [('w0', 'w1'), ('w1', 'w2'), ('w2', 'w0')]),
    ('ring of 4', [('w0', 'w1'), ('w1', 'w2'), ('w2', 'w3'), ('w3', 'w0')]),
    ('ring of 3 with a tail', [('w0', 'w1'), ('w1', 'w2'), ('w2', 'w0'), ('w2', 't')]),
    ('fan-out whose two leaves are tied', [('r', 'c'), ('c', 'l0'), ('c', 'l1'), ('l0', 'l1')]),
    ('path and ring side by side', [('p0', 'p1'), ('w0', 'w1'), ('w1', 'w2'), ('w2', 'w0')]),
    ('two paths side by side', [('p0', 'p1'), ('q0', 'q1'), ('q1', 'q2')]),
]


def _graph_facts(edges):
    nodes = sorted({n for e in edges for n in e})
    adj = {n: [] for n in nodes}
    for a2, b2 in edges:
        adj[a2].append(b2)
        adj[b2].append(a2)
    comp, seen = [], set()
    for n in nodes:
        if n in seen:
            continue
        c, todo = set(), [n]
        while todo:
            x = todo.pop()
            if x in c:
                continue
            c.add(x)
            todo.extend(adj[x])
        seen |= c
        comp.append(c)
    # an undirected simple graph has a cycle iff some component has at least as many edges as nodes
    cyclic = any(sum(1 for a2, b2 in edges if a2 in c) >= len(c) for c in comp)
    return nodes, adj, comp, cyclic


def _floodfill_outcomes(f, edges, evals):
    """run the flood fill on every start order and every neighbour iteration order -> set of outcomes"""
    import itertools
    from sa.listwalk import ListWalk, Raised as LWRaised

    class W(ListWalk):
        def ev(self, e):
            if isinstance(e, ast.Dict):
                return {self.ev(k): self.ev(v) for k, v in zip(e.keys, e.values)}
            if isinstance(e, ast.Call) and isinstance(e.func, ast.Name) and e.func.id in ('repr', 'str') and len(e.args) == 1:
                return 'name:' + str(self.ev(e.args[0]))
            return ListWalk.ev(self, e)
    nodes, adj, comp, cyclic = _graph_facts(edges)
    outs = set()
    orders = [list(itertools.permutations(adj[n])) for n in nodes]
    for start in nodes:
        sig = [start] + [n for n in nodes if n != start]
        for combo in itertools.product(*orders):
            A = {n: list(o) for n, o in zip(nodes, combo)}
            w = W(leaf_classes=(), budget=4000)
            evals[0] += 1
            try:
                ret = w.invoke(f, [list(sig), A])
                nets = sorted(tuple(sorted(x)) for x in ret) if isinstance(ret, list) else None
                outs.add(('nets', tuple(nets) if nets is not None else None, start))
            except LWRaised as e:
                outs.add(('raise', e.name, start))
            except (KeyError, IndexError, TypeError, AttributeError) as e:
                outs.add(('crash', type(e).__name__, start))
            except AnalysisError as e:
                if 'does not terminate' not in str(e):
                    raise
                outs.add(('crash', 'an endless loop', start))
    return outs, comp, cyclic


def rule_loop(repo):
    r = RuleResult('R-C09-loop', "_floodfill_nets, evaluated on small nets for every start signal and every neighbour order, "
                                 "reports a connection loop iff the undirected net has a cycle and otherwise returns every "
                                 "connected component (>= 2 signals) exactly once")
    m, f = _func_of(repo, L3, 'ComponentLevel3._floodfill_nets')
    fq = 'ComponentLevel3._floodfill_nets'
    if len(f.args.args) != 2:
        raise AnalysisError(f"{fq}: signature changed")
    evals = [0]
    for gname, edges in _GRAPHS:
        outs, comp, cyclic = _floodfill_outcomes(f, edges, evals)
        want_nets = tuple(sorted(tuple(sorted(c)) for c in comp if len(c) > 1))
        wrong = None
        for kind, val, start in sorted(outs, key=repr):
            if cyclic:
                if not (kind == 'raise' and val == 'InvalidConnectionError'):
                    wrong = wrong or (f"started at {start} the connection loop is "
                                      f"{'not reported (nets ' + str(val) + ' accepted)' if kind == 'nets' else 'answered with ' + str(val)}: "
                                      f"a combinational ring of connections elaborates silently")
            else:
                if kind != 'nets':
                    wrong = wrong or f"started at {start} the loop-free net is rejected with {val}"
                elif val != want_nets:
                    wrong = wrong or (f"started at {start} the nets are {val}, expected {want_nets}: a connected signal is "
                                      f"missing from its net (no driver / no multi-driver check for it)")
        cons = f"{gname}: {'connection loop reported' if cyclic else 'nets = connected components'}"
        (r.bad(m, fq, cons, f"on the net {edges}: " + wrong, f.lineno) if wrong else r.ok(m, fq, cons))
    # self-connection: observation only (KeyError today; found by reading, not part of the verdict)
    o2, _, _ = _floodfill_outcomes(f, [('w0', 'w0'), ('w0', 'w1')], evals)
    odd = sorted({(k, v) for k, v, _ in o2 if not (k == 'raise' and v == 'InvalidConnectionError')})
    if odd:
        r.observations.append(f"self-connection connect(x, x) is answered with {odd} instead of InvalidConnectionError")
    r.evaluations += evals[0]
    # _resolve_value_connections uses it on all signals / all adjacency
    m3, g = _func_of(repo, L3, 'ComponentLevel3._resolve_value_connections')
    calls = [c for c in walk_no_nested(g) if isinstance(c, ast.Call) and isinstance(c.func, ast.Attribute)
             and c.func.attr == '_floodfill_nets']
    cons = '_floodfill_nets(all_signals, all_adjacency)'
    if len(calls) == 1 and [norm(a).split('.')[-1] for a in calls[0].args] == ['all_signals', 'all_adjacency'] \
            and _unconditional(calls[0], g):
        r.ok(m3, 'ComponentLevel3._resolve_value_connections', cons)
    else:
        r.bad(m3, 'ComponentLevel3._resolve_value_connections', cons, "nets are not computed from all signals and the "
              "global adjacency", g.lineno)
    r.require_floor(10)
    return r


# ---------------------------------------------------------------------------
# R-C09-raise-resolves
API_STATE_ERRORS = {
    # raised for misuse of the post-elaboration API, not for an illegal design: outside the property; an unresolved
    # one is printed as an observation only
    'NotElaboratedError', 'InvalidAPICallError', 'UnsetMetadataError', 'PyMTLDeprecationError', 'NotImplementedError',
}


def _scope_names(fn):
    names = set()
    a = fn.args
    for x in a.posonlyargs + a.args + a.kwonlyargs:
        names.add(x.arg)
    if a.vararg:
        names.add(a.vararg.arg)
    if a.kwarg:
        names.add(a.kwarg.arg)
    if isinstance(fn, ast.Lambda):
        return names
    for n in walk_no_nested(fn):
        if isinstance(n, ast.Name) and isinstance(n.ctx, (ast.Store, ast.Del)):
            names.add(n.id)
        elif isinstance(n, ast.ExceptHandler) and n.name:
            names.add(n.name)
        elif isinstance(n, (ast.Import, ast.ImportFrom)):
            for al in n.names:
                names.add((al.asname or al.name).split('.')[0])
        for ch in ast.iter_child_nodes(n):
            if isinstance(ch, (ast.FunctionDef, ast.AsyncFunctionDef, ast.ClassDef)):
                names.add(ch.name)
    return names


def _bound(repo, mod, node, name):
    """is `name` bound at `node` (function scopes outward, module, builtins)?  None = cannot tell"""
    cur = node
    while True:
        fn = enclosing(cur, (ast.FunctionDef, ast.AsyncFunctionDef, ast.Lambda))
        if fn is None:
            break
        if name in _scope_names(fn):
            return True
        cur = fn
    if name in mod.classes or name in mod.functions or name in mod.assigns or name in mod.imports:
        # an imported name must exist in the module it is imported from (when that module is in the repo)
        if name in mod.imports:
            dotted, orig = mod.imports[name]
            if orig is not None and repo.dotted_to_rel(dotted) is not None and repo.resolve(mod, name) is None:
                return False
        return True
    for st in mod.tree.body:          # other module-level bindings (for targets, with, tuple assignments)
        for n in walk_no_nested(st):
            if isinstance(n, ast.Name) and isinstance(n.ctx, ast.Store) and n.id == name:
                return True
    if hasattr(builtins, name):
        return True
    unknown_star = False
    for dotted in mod.star_imports:
        if repo.dotted_to_rel(dotted) is None:
            unknown_star = True
    if repo.resolve(mod, name) is not None:
        return True
    return None if unknown_star else False


def _init_arity(repo, cmod, cdef):
    """(min, max|None, keyword names) of the first __init__ in the repo-visible MRO, or None (inherits Exception's)"""
    for m2, c2 in repo.mro(cmod, cdef):
        for st in m2._defs_in(c2.body):
            if isinstance(st, ast.FunctionDef) and st.name == '__init__':
                a = st.args
                pos = [x.arg for x in a.posonlyargs + a.args][1:]
                mn = len(pos) - len(a.defaults)
                mx = None if a.vararg else len(pos)
                kw = None if a.kwarg else set(pos) | {x.arg for x in a.kwonlyargs}
                return mn, mx, kw
    return None


def _check_raise(repo, mod, rs):
    """-> (kind, message) ; kind in 'ok' | 'bad' | 'obs' | 'skip'"""
    exc = rs.exc
    if exc is None:
        return 'skip', None
    callee = exc.func if isinstance(exc, ast.Call) else exc
    if not isinstance(callee, (ast.Name, ast.Attribute)):
        return 'skip', None
    base = callee
    while isinstance(base, ast.Attribute):
        base = base.value
    if not isinstance(base, ast.Name):
        return 'skip', None
    cname = callee.id if isinstance(callee, ast.Name) else callee.attr
    api = cname in API_STATE_ERRORS
    problems = []
    # a caught / locally built exception object re-raised
    fn = enclosing(rs, (ast.FunctionDef, ast.AsyncFunctionDef, ast.Lambda))
    if isinstance(callee, ast.Name) and not isinstance(exc, ast.Call) and fn is not None and callee.id in _scope_names(fn):
        return 'skip', None
    b = _bound(repo, mod, rs, base.id)
    if b is False:
        problems.append(f"exception class name `{base.id}` is not bound in {mod.rel} (not imported / misspelt): reaching "
                        f"this statement raises NameError instead of {cname}")
    elif b is True and isinstance(callee, ast.Name) and isinstance(exc, ast.Call):
        rc = repo.resolve_class(mod, callee)
        if rc is not None:
            ar = _init_arity(repo, rc[0], rc[1])
            if ar is not None and not any(isinstance(a, ast.Starred) for a in exc.args) \
                    and not any(k.arg is None for k in exc.keywords):
                mn, mx, kw = ar
                npos = len(exc.args)
                kws = [k.arg for k in exc.keywords]
                total = npos + len(kws)
                if npos > (mx if mx is not None else npos) or total < mn or (kw is not None and any(k not in kw for k in kws)):
                    problems.append(f"{cname}.__init__ takes {mn}{'' if mx == mn else '..' + str(mx if mx is not None else '*')} "
                                    f"arguments, {total} given: reaching this statement raises TypeError instead of {cname}")
    if isinstance(exc, ast.Call):
        comp_bound = {n.id for n in ast.walk(exc) if isinstance(n, ast.Name) and isinstance(n.ctx, ast.Store)}
        lam = set()
        for n in ast.walk(exc):
            if isinstance(n, ast.Lambda):
                lam |= _scope_names(n)
        seen = set()
        for a in list(exc.args) + [k.value for k in exc.keywords]:
            for n in ast.walk(a):
                if isinstance(n, ast.Name) and isinstance(n.ctx, ast.Load) and n.id not in comp_bound | lam | seen:
                    seen.add(n.id)
                    if _bound(repo, mod, rs, n.id) is False:
                        problems.append(f"name `{n.id}` used to build the message is not bound here: reaching this "
                                        f"statement raises NameError instead of {cname}")
    if problems:
        return ('obs' if api else 'bad'), '; '.join(problems)
    return 'ok', None


def rule_raise_resolves(repo):
    r = RuleResult('R-C09-raise-resolves', "every raise of a design-rule error in pymtl3/dsl names a bound class whose "
                                           "__init__ accepts the arguments given and builds its message from bound names")
    from sa.loader import Module
    for rel in DSL_FILES:
        mod = repo.mod(rel)
        for rs in [n for n in ast.walk(mod.tree) if isinstance(n, ast.Raise)]:
            kind, msg = _check_raise(repo, mod, rs)
            if kind == 'skip':
                continue
            fq = qualname(rs) or '<module>'
            exc = rs.exc
            cn = norm(exc.func if isinstance(exc, ast.Call) else exc)
            gs = [g for g in guards_of(rs) if g.kind in ('if', 'except')]
            cons = f"raise {cn} under: {('' if gs[0].polarity else 'not ') + norm(gs[0].test)[:70] if gs else 'always'}"
            r.evaluations += 1
            if kind == 'ok':
                r.ok(mod, fq, cons, nontrivial=isinstance(exc, ast.Call))
            elif kind == 'obs':
                r.observations.append(f"{rel}: {fq}: {msg} (API-state error, outside the property)")
            else:
                r.bad(mod, fq, cons, msg, rs.lineno)
        for h in [n for n in ast.walk(mod.tree) if isinstance(n, ast.ExceptHandler) and n.type is not None]:
            for t in (h.type.elts if isinstance(h.type, ast.Tuple) else [h.type]):
                if isinstance(t, ast.Name) and _bound(repo, mod, h, t.id) is False:
                    r.observations.append(f"{rel}: {qualname(h)}: except clause names unbound `{t.id}` "
                                          f"(evaluated only when the try body raises)")
    # embedded positive example
    probe = Module(repo, 'pymtl3/dsl/_c09_probe.py',
                   "from .errors import MultiWriterError\n"
                   "def f(s):\n"
                   "  raise InvalidPlaceholderError('x {}'.format(blk.__name__))\n"
                   "def g(s, blk):\n"
                   "  raise MultiWriterError('x {}'.format(blk.__name__))\n"
                   "def h(s):\n"
                   "  raise NoWriterError()\n"
                   "from .errors import NoWriterError\n")
    res = [_check_raise(repo, probe, n) for n in ast.walk(probe.tree) if isinstance(n, ast.Raise)]
    kinds = [k for k, _ in res]
    if kinds != ['bad', 'ok', 'bad'] or 'InvalidPlaceholderError' not in res[0][1] or '`blk`' not in res[0][1] \
            or 'TypeError' not in res[2][1]:
        raise AnalysisError(f"R-C09-raise-resolves: embedded probe not judged as expected: {res}")
    r.require_floor(89)
    return r


def rule_const_host(repo):
    """A constant driving a signal is judged by the port rules at the component that MADE the connection."""
    r = RuleResult('R-C09-const-host', "a constant connected to a signal records the connecting component as its parent, so the "
                                       "port-direction rules judge the connection from where it was made")
    m = repo.mod(L3)
    f = m.get_func('ComponentLevel3._connect_signal_const')
    me = f.args.args[0].arg
    ctors = [c for c in ast.walk(f) if isinstance(c, ast.Call) and norm(c.func) == 'Const']
    if len(ctors) < 2:
        raise AnalysisError("anchor vanished: Const constructions in _connect_signal_const")
    for c in ctors:
        ok = len(c.args) == 3 and norm(c.args[2]) == me
        (r.ok if ok else r.bad)(m, 'ComponentLevel3._connect_signal_const', norm(c),
                                *([] if ok else [f"the Const's parent must be the connecting component `{me}`", c.lineno]))
    for a in ast.walk(f):
        if isinstance(a, ast.Assign) and any(isinstance(t, ast.Attribute) and t.attr == 'parent_obj' for t in a.targets):
            ok = norm(a.value) == me
            (r.ok if ok else r.bad)(m, 'ComponentLevel3._connect_signal_const', norm(a),
                                    *([] if ok else [f"the constant's parent is overwritten with `{norm(a.value)}` instead of the connecting "
                                                     f"component `{me}`: a constant tied to a child's wire/outport or to the component's own "
                                                     f"inport from a forbidden position is then judged legal", a.lineno]))
    cm = repo.mod(CONN)
    g = cm.get_func('Const.__init__')
    a = [x.arg for x in g.args.args]
    st = [norm(x) for x in g.body]
    ok = len(a) == 4 and f"{a[0]}._dsl.parent_obj = {a[3]}" in st
    (r.ok if ok else r.bad)(cm, 'Const.__init__', '; '.join(st), *([] if ok else ["Const must store its third argument as parent_obj", g.lineno]))
    r.require_floor(4)
    return r


ASTH = 'pymtl3/dsl/AstHelper.py'


def rule_op_record(repo):
    """The operator check of extract_obj_from_names judges the operator RECORDED with each written name; the recorder
    (DetectReadsWritesCalls) must therefore record the operator of the very statement that performs the store."""
    r = RuleResult('R-C09-oprecord', "every written name is recorded with the operator of the statement that stores it: `=` targets "
                                     "are visited with current_op None, augmented targets with that statement's operator, in every "
                                     "statement position (nested bodies, after an earlier augmented assignment)")
    m = repo.mod(ASTH)
    CL = 'DetectReadsWritesCalls'
    cls = m.get_class(CL)
    methods = {}
    for mm, c in reversed(repo.mro(m, cls)):
        for st in mm._defs_in(c.body):
            if isinstance(st, ast.FunctionDef):
                methods[st.name] = (mm, c, st)
    TOP = '<stale operator of an earlier statement>'

    def join(a, b):
        return a if a == b else TOP

    def run(fn, entry):
        """-> (exit state, [(state, visited expression text)])"""
        me = fn.args.args[0].arg
        seen = []

        def block(stmts, st):
            for x in stmts:
                if isinstance(x, ast.Assign) and len(x.targets) == 1 and norm(x.targets[0]) == f"{me}.current_op":
                    st = 'None' if norm(x.value) == 'None' else norm(x.value)
                    continue
                if isinstance(x, (ast.For, ast.While)):
                    s1 = block(x.body, st)
                    s2 = block(x.body, join(st, s1))
                    st = block(x.orelse, join(st, join(s1, s2)))
                    continue
                if isinstance(x, ast.If):
                    st = join(block(x.body, st), block(x.orelse, st))
                    continue
                if isinstance(x, (ast.With, ast.Try)):
                    raise AnalysisError(f"{ASTH}:{CL}.{fn.name}: with/try around operator bookkeeping is outside the model")
                for c in ast.walk(x):
                    if isinstance(c, ast.Call) and norm(c.func) in (f"{me}.visit", f"{me}.generic_visit") and c.args:
                        seen.append((st, norm(c.args[0])))
                    if isinstance(c, (ast.Attribute,)) and isinstance(c.ctx, ast.Store) and norm(c) == f"{me}.current_op":
                        raise AnalysisError(f"{ASTH}:{CL}.{fn.name}: current_op stored in an unmodelled statement form")
                if isinstance(x, ast.Return):
                    break
            return st
        return block(fn.body, entry), seen

    writers = [n for n, (_, _, f) in methods.items()
               if any(isinstance(a, ast.Attribute) and isinstance(a.ctx, ast.Store) and a.attr == 'current_op' for a in ast.walk(f))]
    if 'visit_AugAssign' not in methods or 'enter' not in methods:
        raise AnalysisError(f"anchor vanished: {CL}.visit_AugAssign / enter")
    # the state in which an arbitrary visit_* method starts: None after enter(), joined with what every writer leaves behind
    ent_exit, ent_seen = run(methods['enter'][2], TOP)
    entry = ent_seen[-1][0] if ent_seen else TOP          # state when enter() starts the traversal
    for _ in range(3):
        nxt = entry
        for n in writers:
            if n.startswith('visit_'):
                nxt = join(nxt, run(methods[n][2], entry)[0])
        if nxt == entry:
            break
        entry = nxt
    r.evaluations += len(writers) + 1
    fq = f"{CL}.enter"
    (r.ok if entry == 'None' else r.bad)(m, fq, f"operator state at the start of every visit_* method = {entry}",
                                         *([] if entry == 'None' else ["a visit_* method leaves the operator of its statement behind (or enter() "
                                                                       "does not reset it): later statements in the same body inherit it", methods['visit_AugAssign'][2].lineno]))
    # `=` targets
    if 'visit_Assign' in methods:
        f = methods['visit_Assign'][2]
        _, seen = run(f, entry)
        stores = [(st, t) for st, t in seen if not t.endswith('.value')]
        bad = [t for st, t in stores if st != 'None']
        (r.ok if stores and not bad else r.bad)(m, f"{CL}.visit_Assign", f"`=` targets visited with operator {sorted({st for st, _ in stores})}",
                                                *([] if stores and not bad else [f"a plain `=` store is recorded with {stores[0][0] if stores else 'nothing'}: "
                                                                                "after an earlier `@=` / `<<=` in the same body the illegal `=` passes the operator check", f.lineno]))
    else:
        # generic_visit reaches the targets with the entry state
        (r.ok if entry == 'None' else r.bad)(m, CL, "`=` targets reached through generic_visit with operator " + entry,
                                             *([] if entry == 'None' else ["plain `=` stores inherit a stale operator", cls.lineno]))
    f = methods['visit_AugAssign'][2]
    node = f.args.args[1].arg
    _, seen = run(f, entry)
    tgt = [(st, t) for st, t in seen if t == f"{node}.target"]
    oth = [(st, t) for st, t in seen if t != f"{node}.target"]
    ok = len(tgt) == 1 and tgt[0][0] == f"{node}.op"
    (r.ok if ok else r.bad)(m, f"{CL}.visit_AugAssign", f"augmented target visited with operator {[st for st, _ in tgt]}",
                            *([] if ok else [f"the target of `x op= y` must be recorded with {node}.op", f.lineno]))
    r.require_floor(3)
    return r


# ---------------------------------------------------------------------------
# R-C09-netwriters: _resolve_value_connections evaluated on small nets
def rule_netwriters(repo):
    r = RuleResult('R-C09-netwriters', "_resolve_value_connections, evaluated on small nets with the drivers at every position: "
                                       "two drivers of any kind (top-level InPort, Placeholder OutPort, signal written by an "
                                       "update block, constant) give MultiWriterError, one driver heads the net, none leaves "
                                       "it headless")
    m, f = _func_of(repo, L3, 'ComponentLevel3._resolve_value_connections')
    fq = 'ComponentLevel3._resolve_value_connections'
    import itertools
    me = _self_name(f)
    anc = class_ancestors(repo, L3, ['InPort', 'OutPort', 'Wire', 'Const', 'Signal'])
    anc.update(class_ancestors(repo, COMP, ['Component']))
    anc['PlaceholderComp'] = set(anc['Component']) | {'Component', 'Placeholder'}
    body = [x for x in f.body if not _is_doc(x)]
    kinds = ['top-level InPort', 'Placeholder OutPort', 'signal written by an update block', 'constant']

    def world(members):
        T = Obj('Component', **{'is_signal()': False})
        T.fields['get_parent_object()'] = None
        A = Obj('Component', **{'is_signal()': False, 'get_parent_object()': T})
        P = Obj('PlaceholderComp', **{'is_signal()': False, 'get_parent_object()': T})

        def sig(cls, host):
            return Obj(cls, **{'get_host_component()': host, 'get_parent_object()': host, 'get_sibling_slices()': [],
                               'is_signal()': True})
        objs, written = [], []
        for k in members:
            if k == 'top-level InPort':
                o = sig('InPort', T)
            elif k == 'Placeholder OutPort':
                o = sig('OutPort', P)
            elif k == 'signal written by an update block':
                o = sig('Wire', T)
                written.append(o)
            elif k == 'constant':
                o = Obj('Const', **{'get_host_component()': T, 'get_parent_object()': T, 'is_signal()': False})
            elif k == 'reader port':
                o = sig('InPort', A)
            else:
                o = sig('Wire', T)
            objs.append(o)
        return T, objs, written

    def run(members):
        T, objs, written = world(members)
        T.fields['_floodfill_nets()'] = [list(objs)]
        T.fields['_dsl'] = Obj('dsl', all_signals=list(objs), all_adjacency={},
                               all_upblk_writes={Obj('blk'): list(written)} if written else {})
        ev = Abs({me: T}, ancestors=anc, arith=True, closed=True)
        out = run_block(ev, body)
        r.evaluations += 1
        if out[0] == 'raise':
            return ('raise', out[1]), objs
        if out[0] != 'return' or not isinstance(out[1], list):
            raise AnalysisError(f"{fq}: unexpected outcome {out[0]} of the abstract evaluation")
        return ('nets', [(w, list(n)) for w, n in out[1]]), objs

    # two drivers, every pair of kinds, every position
    for k1, k2 in itertools.combinations_with_replacement(kinds, 2):
        wrong = None
        for perm in sorted(set(itertools.permutations([k1, k2, 'reader port', 'reader wire']))):
            (kind, val), objs = run(list(perm))
            if not (kind == 'raise' and val == 'MultiWriterError'):
                wrong = wrong or (perm, kind, val)
        cons = f"two drivers: {k1} + {k2}"
        if wrong:
            perm, kind, val = wrong
            r.bad(m, fq, cons, f"a net with members {list(perm)} (in this order) is "
                  f"{'accepted' if kind == 'nets' else 'answered with ' + str(val)} instead of MultiWriterError: the second driver "
                  f"is never looked at", f.lineno)
        else:
            r.ok(m, fq, cons)
    # one driver heads the net
    for k1 in kinds:
        wrong = None
        for perm in sorted(set(itertools.permutations([k1, 'reader port', 'reader wire']))):
            (kind, val), objs = run(list(perm))
            w = objs[list(perm).index(k1)]
            if not (kind == 'nets' and len(val) == 1 and val[0][0] is w and len(val[0][1]) == 3):
                wrong = wrong or (perm, kind, val)
        cons = f"one driver: {k1}"
        if wrong:
            perm, kind, val = wrong
            r.bad(m, fq, cons, f"a net with members {list(perm)} does not come back headed by its only driver "
                  f"({'raises ' + str(val) if kind == 'raise' else 'writer ' + ('None' if val and val[0][0] is None else 'wrong')}): "
                  f"a legal design is rejected (NoWriterError / MultiWriterError)", f.lineno)
        else:
            r.ok(m, fq, cons)
    (kind, val), objs = run(['reader port', 'reader wire'])
    cons = 'no driver: the net is returned with writer None'
    if kind == 'nets' and len(val) == 1 and val[0][0] is None:
        r.ok(m, fq, cons)
    else:
        r.bad(m, fq, cons, f"a net without any driver yields {kind} {val if kind == 'raise' else ''}: NoWriterError is not raised",
              f.lineno)
    if not r.findings:
        r.require_floor(15)
    return r


# ---------------------------------------------------------------------------
# R-C09-byname: connect_by_name evaluated on an interface pair
def rule_byname_fields(repo):
    r = RuleResult('R-C09-byname', "connect_by_name, evaluated on interface pairs: every public Connectable field (lists "
                                   "element-wise) is connected to its namesake exactly once whatever other attributes "
                                   "precede it; a Connectable field missing on the other side raises InvalidConnectionError")
    m, f = _func_of(repo, L3, 'ComponentLevel3._connect_interfaces.connect_by_name')
    fq = 'ComponentLevel3._connect_interfaces.connect_by_name'
    outer = enclosing(f, (ast.FunctionDef,))
    comp = _self_name(outer)
    if len(f.args.args) != 2:
        raise AnalysisError(f"{fq}: signature changed")
    p_this, p_other = [a.arg for a in f.args.args]
    anc = class_ancestors(repo, L3, ['InPort', 'OutPort', 'Wire', 'Signal', 'Interface'])
    body = [x for x in f.body if not _is_doc(x)]

    def mkifc(fields):
        return Obj('Interface', __dict__=dict(fields))
    cases = []
    for extra_name in ('Width', 'aaa_param', 'zzz_param', None):
        for extra_on_other in ((False, True) if extra_name else (False,)):
            a = {'msg': Obj('OutPort'), 'rdy': Obj('InPort'), 'val': [Obj('OutPort'), Obj('OutPort')],
                 'grid': [[Obj('Wire')], [Obj('Wire')]], '_dsl': Obj('dsl'), '_private': Obj('Wire')}
            b = {'msg': Obj('InPort'), 'rdy': Obj('OutPort'), 'val': [Obj('InPort'), Obj('InPort')],
                 'grid': [[Obj('Wire')], [Obj('Wire')]], '_dsl': Obj('dsl')}
            if extra_name:
                a[extra_name] = 8
                if extra_on_other:
                    b[extra_name] = 8
            want = [(a['msg'], b['msg']), (a['rdy'], b['rdy']), (a['val'][0], b['val'][0]), (a['val'][1], b['val'][1]),
                    (a['grid'][0][0], b['grid'][0][0]), (a['grid'][1][0], b['grid'][1][0])]
            if extra_name and extra_on_other:
                want.append((8, 8))
            cases.append((f"plain attribute {extra_name!r}{' on both sides' if extra_on_other else ''}" if extra_name
                          else 'ports only', a, b, want, None))
    a = {'msg': Obj('OutPort'), 'rdy': Obj('InPort')}
    cases.append(('a port missing on the other side', a, {'msg': Obj('InPort')}, None, 'InvalidConnectionError'))
    for label, a, b, want, err in cases:
        ev = Abs({p_this: mkifc(a), p_other: mkifc(b), comp: Obj('Component')}, ancestors=anc, arith=True,
                 tolerant_calls=('_connect',))
        out = run_block(ev, body)
        r.evaluations += 1
        cons = f"by-name connection, {label}"
        if err:
            if out == ('raise', err):
                r.ok(m, fq, cons)
            else:
                r.bad(m, fq, cons, f"outcome {out} instead of {err}", f.lineno)
            continue
        if out[0] != 'fall':
            r.bad(m, fq, cons, f"a legal by-name connection ends with {out}", f.lineno)
            continue
        got = [tuple(args[:2]) for recv, meth, args in ev.effects if meth == '_connect' and len(args) >= 2]

        def same(p, q):
            return (p[0] is q[0] and p[1] is q[1]) or (p[0] is q[1] and p[1] is q[0]) or \
                (not isinstance(p[0], Obj) and p == q)
        missing = [w for w in want if sum(1 for g in got if same(g, w)) != 1]
        extra = [g for g in got if not any(same(g, w) for w in want)]
        if missing or extra:
            names = [k for k, v in a.items() for w in missing
                     if any(w[0] is x for x in ([v] if not isinstance(v, list) else [z for y in v for z in (y if isinstance(y, list) else [y])]))]
            r.bad(m, fq, cons, f"{len(missing)} of {len(want)} corresponding fields are not connected exactly once "
                  f"(fields {sorted(set(names))}) and {len(extra)} spurious connections are made: the ports stay undriven / "
                  f"unchecked", f.lineno)
        else:
            r.ok(m, fq, cons)
    if not r.findings:
        r.require_floor(8)
    return r


# ---------------------------------------------------------------------------
# R-C09-lambda-name: the generated block name of `x //= lambda` is injective on target names
class _StrEval:
    """constant folding of a string-building expression (format / replace / re.sub / f-string / + / %) with the target's
    name substituted for repr(<target>) / <target>._dsl.full_name"""
    def __init__(self, target_param, value):
        self.t, self.v = target_param, value

    def ev(self, e):
        import re as _re
        if isinstance(e, ast.Constant) and isinstance(e.value, (str, int)):
            return e.value
        if isinstance(e, ast.Call) and isinstance(e.func, ast.Name) and e.func.id in ('repr', 'str') and len(e.args) == 1 \
                and isinstance(e.args[0], ast.Name) and e.args[0].id == self.t:
            return self.v
        if isinstance(e, ast.Attribute) and norm(e) in (f"{self.t}._dsl.full_name",):
            return self.v
        if isinstance(e, ast.Call) and isinstance(e.func, ast.Attribute):
            meth = e.func.attr
            if norm(e.func.value) == 're' and meth == 'sub' and len(e.args) == 3 and not e.keywords:
                pat, rp, st = [self.ev(a) for a in e.args]
                return _re.sub(pat, rp, st)
            base = self.ev(e.func.value)
            args = [self.ev(a) for a in e.args]
            if isinstance(base, str) and meth in ('replace', 'format', 'strip', 'lstrip', 'rstrip', 'lower', 'upper', 'join',
                                                  'translate') and not e.keywords and meth != 'translate':
                return getattr(base, meth)(*args)
        if isinstance(e, ast.JoinedStr):
            out = ''
            for v in e.values:
                if isinstance(v, ast.FormattedValue):
                    x = self.ev(v.value)
                    out += repr(x) if v.conversion == 114 and not isinstance(v.value, ast.Name) else str(x)
                else:
                    out += str(self.ev(v))
            return out
        if isinstance(e, ast.BinOp) and isinstance(e.op, ast.Add):
            return self.ev(e.left) + self.ev(e.right)
        if isinstance(e, ast.BinOp) and isinstance(e.op, ast.Mod):
            return self.ev(e.left) % self.ev(e.right)
        if isinstance(e, ast.Tuple):
            return tuple(self.ev(x) for x in e.elts)
        if isinstance(e, (ast.ListComp, ast.GeneratorExp)) and len(e.generators) == 1 and not e.generators[0].ifs \
                and isinstance(e.generators[0].target, ast.Name):
            g = e.generators[0]
            it = self.ev(g.iter)
            out = []
            for ch in it:
                sub = _StrEval(self.t, self.v)
                sub.extra = dict(getattr(self, 'extra', {}), **{g.target.id: ch})
                out.append(sub.ev(e.elt))
            return out
        if isinstance(e, ast.Name) and e.id in getattr(self, 'extra', {}):
            return self.extra[e.id]
        if isinstance(e, ast.IfExp):
            return self.ev(e.body) if self.ev(e.test) else self.ev(e.orelse)
        if isinstance(e, ast.Compare) and len(e.ops) == 1:
            a2, b2 = self.ev(e.left), self.ev(e.comparators[0])
            ops = {ast.Eq: a2 == b2, ast.NotEq: a2 != b2}
            if isinstance(e.ops[0], (ast.In, ast.NotIn)):
                return (a2 in b2) == isinstance(e.ops[0], ast.In)
            if type(e.ops[0]) in ops:
                return ops[type(e.ops[0])]
        if isinstance(e, ast.Call) and isinstance(e.func, ast.Attribute) and e.func.attr in ('isalnum', 'isidentifier', 'isdigit', 'isalpha') \
                and not e.args:
            return getattr(self.ev(e.func.value), e.func.attr)()
        if isinstance(e, ast.Call) and isinstance(e.func, ast.Name) and e.func.id in ('ord', 'hex', 'len', 'str', 'id') \
                and len(e.args) == 1 and e.func.id != 'id':
            return {'ord': ord, 'hex': hex, 'len': len, 'str': str}[e.func.id](self.ev(e.args[0]))
        raise AnalysisError(f"block-name expression outside the string domain: {norm(e)[:80]}")


LAMBDA_NAME_PAIRS = [('s.x[0]', 's.x_0'), ('s.x[0].in_', 's.x_0.in_'), ('s.w[1][0:4]', 's.w_1[0:4]'), ('s.a.b', 's.a_b'),
                     ('s.x[10]', 's.x[1][0]'), ('s.x[1:3]', 's.x[13]')]


class _NameAbs(Abs):
    """Abs + real string building (format / replace / re.sub / f-strings over the values bound so far)"""
    def __init__(self, env, tparam, tname, **kw):
        super().__init__(env, **kw)
        self.tparam, self.tname = tparam, tname

    def ev(self, e):
        stringy = isinstance(e, ast.JoinedStr) or \
            (isinstance(e, ast.BinOp) and isinstance(e.op, (ast.Add, ast.Mod))) or \
            (isinstance(e, ast.Call) and ((isinstance(e.func, ast.Name) and e.func.id in ('repr', 'str')) or
                                          (isinstance(e.func, ast.Attribute) and
                                           (e.func.attr in ('format', 'replace', 'join', 'strip', 'lstrip', 'rstrip', 'lower', 'upper')
                                            or norm(e.func) == 're.sub'))))
        if stringy:
            se = _StrEval(self.tparam, self.tname)
            se.extra = {k: v for k, v in self.env.items() if isinstance(v, (str, int)) and not isinstance(v, bool)}
            try:
                return se.ev(e)
            except AnalysisError:
                pass
        return super().ev(e)


def rule_lambda_names(repo):
    r = RuleResult('R-C09-lambda-name', "the update blocks generated for `target //= lambda` of two different targets of one "
                                        "component (and for a target whose name is already taken by a user block) get "
                                        "different names: the naming fragment is evaluated with the names registered so far")
    m, f = _func_of(repo, L3, 'ComponentLevel3._create_assign_lambda')
    fq = 'ComponentLevel3._create_assign_lambda'
    if len(f.args.args) < 3:
        raise AnalysisError(f"{fq}: signature changed")
    me, tparam = f.args.args[0].arg, f.args.args[1].arg
    # the name variable: FunctionDef(name=<var>) of the generated block; the fragment = the top-level statements from its
    # first assignment up to the construction of that FunctionDef
    fdefs = [(c, k.value) for c in walk_no_nested(f) if isinstance(c, ast.Call) and norm(c.func) in ('ast.FunctionDef', 'FunctionDef')
             for k in c.keywords if k.arg == 'name' and isinstance(k.value, ast.Name)]
    fdefs = [(c, v) for c, v in fdefs if _assignments_to(f, v.id)]
    if not fdefs:
        raise AnalysisError(f"{fq}: the generated block's name variable was not found")
    fcall, nv = fdefs[0]
    nv = nv.id

    def top(n):
        while parent(n) is not f:
            n = parent(n)
        return n
    end = f.body.index(top(fcall))
    # backward slice of the name over the function's top-level statements: every statement that defines a name the block
    # name depends on, transitively (sanitiser locals, loop counters, ...), in source order
    needed, chosen = {nv}, set()
    changed = True
    while changed:
        changed = False
        for i, st in enumerate(f.body[:end]):
            if i in chosen or _is_doc(st):
                continue
            stores = {x.id for x in ast.walk(st) if isinstance(x, ast.Name) and isinstance(x.ctx, ast.Store)}
            if stores & needed:
                chosen.add(i)
                needed |= {x.id for x in ast.walk(st) if isinstance(x, ast.Name) and isinstance(x.ctx, ast.Load)}
                changed = True
    if not chosen:
        raise AnalysisError(f"{fq}: the block name is not assigned before the block is built")
    frag = [f.body[i] for i in sorted(chosen)]
    # the generated block is registered under its name before the next `//=` runs
    regs = [c for c in walk_no_nested(f) if isinstance(c, ast.Call) and isinstance(c.func, ast.Attribute) and c.func.attr == '_update']
    cons = 'the generated block is registered (ComponentLevel1._update) in the same call'
    (r.ok(m, fq, cons) if regs and all(_unconditional(c, f) for c in regs) else
     r.bad(m, fq, cons, "the generated block is not registered with _update: later lambdas cannot see its name", f.lineno))

    def gen(target, registered):
        host = Obj('Component', _dsl=Obj('dsl', name_upblk=registered, name_func={}, upblks=list(registered.values())))
        ev = _NameAbs({me: host, tparam: Obj('Wire')}, tparam, target, arith=True,
                      funcs={'itertools.count': lambda a=0: range(a, a + 40), 'count': lambda a=0: range(a, a + 40)})
        try:
            out = run_block(ev, frag)
        except AnalysisError as e:
            if 'does not terminate' in str(e):
                return None
            raise
        r.evaluations += 1
        if out[0] != 'fall':
            raise AnalysisError(f"{fq}: naming fragment ends with {out}")
        name = ev.env.get(nv)
        if not isinstance(name, str):
            raise AnalysisError(f"{fq}: the block name does not fold to a string ({name!r})")
        return name
    scen = [((a2, b2), {}) for a2, b2 in LAMBDA_NAME_PAIRS]
    scen += [(('s.a.b', 's.a_b'), {'_lambda__s_a_b': Obj('blk')}), (('s.x', 's.x'), {})]
    for (a2, b2), pre in scen:
        reg = dict(pre)
        names = []
        for t in (a2, b2):
            n = gen(t, reg)
            names.append(n)
            if n is None:
                break
            reg[n] = Obj('blk')
        label = f"{a2} and {b2}" + (f" next to a user block named {sorted(pre)[0]}" if pre else '')
        cons = f"block names for {label} differ" if a2 != b2 else f"a second lambda on {a2} gets a fresh block name"
        if None in names:
            r.bad(m, fq, cons, "the naming loop does not terminate once the first candidate is taken: elaboration hangs", f.lineno)
        elif len(set(names) | set(pre)) != len(names) + len(pre):
            r.bad(m, fq, cons, f"the generated block names are {names}{' with ' + str(sorted(pre)) + ' already defined' if pre else ''}: "
                  f"a name is reused, so a legal design is rejected with UpblkFuncSameNameError", f.lineno)
        elif not all(n.isidentifier() for n in names):
            r.bad(m, fq, cons, f"generated block name {names} is not an identifier", f.lineno)
        else:
            r.ok(m, fq, cons)
    if not r.findings:
        r.require_floor(len(LAMBDA_NAME_PAIRS) + 3)
    return r


# ---------------------------------------------------------------------------
# R-C09-writer-none: "this net has no writer" is an identity test against None, never truthiness
def _netlist_expr(e):
    return any((isinstance(x, ast.Name) and 'nets' in x.id) or (isinstance(x, ast.Attribute) and 'nets' in x.attr)
               for x in ast.walk(e))


def _writer_names(fn):
    """names that hold the writer of a (writer, net) pair in this function"""
    items, W = set(), set()
    nodes = list(walk_no_nested(fn))
    for _ in range(3):
        for n in nodes:
            pairs = []
            if isinstance(n, ast.For):
                pairs.append((n.target, n.iter))
            elif isinstance(n, (ast.ListComp, ast.SetComp, ast.GeneratorExp, ast.DictComp)):
                pairs += [(g.target, g.iter) for g in n.generators]
            elif isinstance(n, ast.Assign) and len(n.targets) == 1:
                pairs.append((n.targets[0], n.value))
            for tgt, src in pairs:
                is_asg = isinstance(n, ast.Assign)
                from_list = _netlist_expr(src) and not is_asg
                from_item = (isinstance(src, ast.Name) and src.id in items) or \
                    (is_asg and isinstance(src, ast.Subscript) and _netlist_expr(src.value))
                if isinstance(tgt, ast.Tuple) and len(tgt.elts) == 2:
                    a2, b2 = tgt.elts
                    if isinstance(src, ast.Call) and norm(src.func) == 'enumerate' and from_list:
                        if isinstance(b2, ast.Name):
                            items.add(b2.id)
                        elif isinstance(b2, ast.Tuple) and len(b2.elts) == 2 and isinstance(b2.elts[0], ast.Name):
                            W.add(b2.elts[0].id)
                    elif (from_list or from_item) and isinstance(a2, ast.Name):
                        W.add(a2.id)
                elif isinstance(tgt, ast.Name) and from_list:
                    items.add(tgt.id)
        for n in nodes:     # (w, net) pairs stored into a result list
            if isinstance(n, ast.Call) and isinstance(n.func, ast.Attribute) and n.func.attr == 'append' and len(n.args) == 1 \
                    and isinstance(n.args[0], ast.Tuple) and len(n.args[0].elts) == 2 and isinstance(n.args[0].elts[0], ast.Name) \
                    and isinstance(n.args[0].elts[1], ast.Name) and 'net' in n.args[0].elts[1].id:
                W.add(n.args[0].elts[0].id)
    return W


def _truth_tests(fn, names):
    """nodes that use one of `names` for its truth value"""
    out = []

    def direct(e):
        while isinstance(e, ast.UnaryOp) and isinstance(e.op, ast.Not):
            e = e.operand
        return isinstance(e, ast.Name) and e.id in names
    for n in ast.walk(fn):
        if isinstance(n, (ast.If, ast.While, ast.IfExp, ast.Assert)) and direct(n.test):
            out.append(n.test)
        elif isinstance(n, ast.comprehension):
            out += [c for c in n.ifs if direct(c)]
        elif isinstance(n, ast.BoolOp):
            out += [v for v in n.values if direct(v)]
        elif isinstance(n, ast.UnaryOp) and isinstance(n.op, ast.Not) and direct(n.operand):
            out.append(n)
        elif isinstance(n, ast.Call) and norm(n.func) == 'bool' and len(n.args) == 1 and direct(n.args[0]):
            out.append(n)
    uniq = []
    for x in out:
        if not any(x is y for y in uniq) and not any(x is not y and any(x is z for z in ast.walk(y)) for y in out):
            uniq.append(x)
    return uniq


def rule_writer_none(repo):
    r = RuleResult('R-C09-writer-none', "whether a net has a writer is decided by identity with None, never by the truth value of "
                                        "the writer object; no Connectable class defines __bool__/__len__ (a zero constant or an "
                                        "empty-looking signal must not read as 'no writer')")
    cm = repo.mod(CONN)
    for cname, cdef in sorted(cm.classes.items()):
        names = {c.name for _, c in repo.mro(cm, cdef)}
        if 'Connectable' not in names:
            continue
        own = [st.name for st in cm._defs_in(cdef.body) if isinstance(st, ast.FunctionDef) and st.name in ('__bool__', '__len__')]
        cons = f"class {cname} has no __bool__/__len__"
        if own:
            r.bad(cm, cname, cons, f"{cname} defines {own}: every `if x:` / `not x` / `x or y` on such an object silently becomes a "
                  f"question about its VALUE (a constant 0 driving a net reads as 'no writer' and skips the port checks)",
                  cdef.lineno)
        else:
            r.ok(cm, cname, cons, nontrivial=False)
    for rel in (L3, L5, COMP):
        mod = repo.mod(rel)
        for cdef in mod.classes.values():
            for fn in mod._defs_in(cdef.body):
                if not isinstance(fn, ast.FunctionDef):
                    continue
                W = _writer_names(fn)
                if not W:
                    continue
                tests = _truth_tests(fn, W)
                fq = f"{cdef.name}.{fn.name}"
                if not tests:
                    r.ok(mod, fq, f"writer variables {sorted(W)} are only compared by identity")
                for t in tests:
                    r.bad(mod, fq, f"truth value of a net writer: {norm(t)}",
                          f"`{norm(t)}` asks for the truth value of the net's writer object; the 'no writer' marker is None -- "
                          f"use `is None`: a writer with value semantics (e.g. a constant 0 once Const defines __bool__) is taken "
                          f"for a headless net and its port-direction check is skipped", t.lineno)
    # embedded positive example
    from sa.loader import _set_parents
    probe = ast.parse("def f(s):\n  nets = s._dsl.all_value_nets\n  for writer, _ in nets:\n    if not writer: continue\n"
                      "    g(writer)\n  for w2, sigs in nets:\n    if w2 is None: continue\n")
    _set_parents(probe)
    pf = probe.body[0]
    if _writer_names(pf) != {'writer', 'w2'} or [norm(t) for t in _truth_tests(pf, {'writer', 'w2'})] != ['not writer']:
        raise AnalysisError("R-C09-writer-none: embedded probe not judged as expected")
    if not r.findings:
        r.require_floor(20)
    return r


# ---------------------------------------------------------------------------
# R-C09-ifc-connect: the custom connect() protocol of interfaces
def rule_ifc_protocol(repo):
    r = RuleResult('R-C09-ifc-connect', "_connect_interfaces, evaluated over {no connect(), returns True / False / None / 0} for "
                                        "both interfaces: the by-name connection is made exactly once iff every custom connect() "
                                        "that exists declined (returned a false value); all call sites read the result alike")
    m, f = _func_of(repo, L3, 'ComponentLevel3._connect_interfaces')
    fq = 'ComponentLevel3._connect_interfaces'
    if len(f.args.args) != 3:
        raise AnalysisError(f"{fq}: signature changed")
    me, p1, p2 = [a.arg for a in f.args.args]
    helpers = [st for st in f.body if isinstance(st, ast.FunctionDef)]
    if len(helpers) != 1:
        raise AnalysisError(f"{fq}: expected one nested by-name helper")
    hname = helpers[0].name
    body = [st for st in f.body if not isinstance(st, ast.FunctionDef) and not _is_doc(st)]
    ABSENT = object()
    vals = [('no connect()', ABSENT), ('connect() -> True', True), ('connect() -> False', False), ('connect() -> None', None),
            ('connect() -> 0', 0)]

    def mk(v):
        o = Obj('Interface')
        if v is not ABSENT:
            o.fields['connect'] = True
            o.fields['connect()'] = v
        return o
    for l1, v1 in vals:
        for l2, v2 in vals:
            o1, o2 = mk(v1), mk(v2)
            calls = []
            ev = Abs({me: Obj('Component'), p1: o1, p2: o2}, funcs={hname: lambda a2, b2: calls.append((a2, b2))})
            out = run_block(ev, body)
            r.evaluations += 1
            want = 1 if (v1 is ABSENT or not v1) and (v2 is ABSENT or not v2) else 0
            cons = f"o1: {l1}; o2: {l2}"
            if out[0] != 'fall':
                r.bad(m, fq, cons, f"ends with {out}", f.lineno)
            elif len(calls) != want:
                why = ("a connect() that declines (returns a false value such as None) is treated as having handled the "
                       "connection: the ports stay unconnected") if want else \
                      "the ports are connected by name although a custom connect() handled them (or twice)"
                r.bad(m, fq, cons, f"the by-name connection is made {len(calls)} time(s), expected {want}: {why}", f.lineno)
            elif calls and not ((calls[0][0] is o1 and calls[0][1] is o2) or (calls[0][0] is o2 and calls[0][1] is o1)):
                r.bad(m, fq, cons, "the by-name connection is not made between the two interfaces", f.lineno)
            else:
                r.ok(m, fq, cons)
    if not r.findings:
        r.require_floor(25)
    return r


from rules.c02 import rule_funcfold   # noqa: E402  (a writer hidden in a nested helper must be attributed to the block: shared with C02)
from rules.c02 import rule_cache_scope   # noqa: E402  (read/write sets judged by the checks must not be stale cache entries of another lambda body)
from rules.c02 import rule_visitor   # noqa: E402  (every statement position that can hold a store -- for/while else, with, try -- is visited, so no driver is invisible to the checks)
from rules.c02 import rule_index_scope   # noqa: E402  (a loop variable used as index stands for every element: a second driver of out[1] must not be hidden by a global `i = 0`)
from rules.c02 import rule_cache_readonly   # noqa: E402  (the written-object sets the multi-writer check judges are resolved per instance, not from a class-cache entry patched by an earlier instance)
from rules.c08 import rule_byname   # noqa: E402  (a by-name interface connection that silently skips nested port lists hides a second driver from the checks)
from rules.c08 import rule_collectors   # noqa: E402  (slice signals must reach all_signals also after replace_component, or slice-only nets are never checked)
from rules.c08 import rule_nodes   # noqa: E402  (two different bit ranges registered as one slice object hide a second driver of those bits, or invent one)
from rules.c08 import rule_ancestors   # noqa: E402  (every signal ancestor of a written object is seeded as a writer: second drivers on a struct are seen)

RULES = [rule_overlap, rule_slicekey, rule_pipeline, rule_mw_guard, rule_mw_cover, rule_porttable, rule_optable,
         rule_nowriter, rule_loop, rule_raise_resolves, rule_const_host, rule_funcfold, rule_cache_scope, rule_ancestors,
         rule_op_record, rule_visitor, rule_cache_readonly, rule_byname, rule_collectors, rule_index_scope,
         rule_netwriters, rule_byname_fields, rule_lambda_names, rule_nodes, rule_writer_none, rule_ifc_protocol]


# ---------------------------------------------------------------------------
# self-test of the checker (thorough tier)
def _m(name, file, old, new, rule=None, count=1):
    return dict(name=name, file=file, old=old, new=new, rule=rule, count=count)


MUTANTS = [
    _m('oprecord-no-reset', ASTH, "    self.visit( node.target )\n    self.current_op = None\n", "    self.visit( node.target )\n", 'R-C09-oprecord', count='first'),
    _m('oprecord-reset-before-target', ASTH, "    self.current_op = node.op\n    self.visit( node.target )\n    self.current_op = None\n",
       "    self.current_op = node.op\n    self.current_op = None\n    self.visit( node.target )\n", 'R-C09-oprecord'),
    _m('oprecord-enter-no-reset', ASTH, "    self.calls = calls\n    self.current_op = None\n", "    self.calls = calls\n", 'R-C09-oprecord'),
    _m('visitor-for-else-skipped', ASTH, "    for stmt in node.orelse:\n      self.visit( stmt )\n", "", 'R-C02-visitor', count='first'),
    _m('const-parent-is-host', L3, "    o2._dsl.parent_obj = s\n    s._dsl.consts.add( o2 )", "    o2._dsl.parent_obj = host\n    s._dsl.consts.add( o2 )", 'R-C09-const-host'),
    _m('funcfold-wrong-func', L2, "            s._dsl.all_upblk_writes[ blk ] |= m._dsl.func_writes[u]", "            s._dsl.all_upblk_writes[ blk ] |= m._dsl.func_writes[call]", 'R-C02-funcfold'),
    # --- R-overlap
    _m('overlap-adjacent-slices', CONN, "if x.start <= y.start:  return y.start < x.stop", "if x.start <= y.start:  return y.start <= x.stop", 'R-overlap'),
    _m('overlap-int-lower-bound', CONN, "else:                     return y.start <= x < y.stop", "else:                     return y.start < x < y.stop", 'R-overlap'),
    _m('overlap-wrong-endpoint', CONN, "else:                   return x.start < y.stop", "else:                   return x.stop < y.stop", 'R-overlap'),
    _m('overlap-int-int', CONN, "if isinstance( y, int ):  return x == y", "if isinstance( y, int ):  return x <= y", 'R-overlap'),
    _m('slice-overlap-self', CONN, "return _overlap( s._dsl.slice, other._dsl.slice )", "return _overlap( s._dsl.slice, s._dsl.slice )", 'R-overlap'),
    _m('siblings-include-self', CONN, "      ret.remove( s )\n", "", 'R-overlap'),
    # --- R-C09-slicekey
    _m('nested-slice-offset-lost', CONN, "      start += outer_start\n", "", 'R-C09-slicekey'),
    _m('slice-bound-empty-accepted', CONN, "assert 0 <= start < stop <= s._dsl.Type.nbits", "assert 0 <= start <= stop <= s._dsl.Type.nbits", 'R-C09-slicekey'),
    _m('slice-registered-at-slice', CONN, "      xd.parent_obj = top_signal", "      xd.parent_obj = s", 'R-C09-slicekey'),
    _m('bit-index-interval', CONN, "start, stop = idx, idx + 1", "start, stop = idx - 1, idx", 'R-C09-slicekey'),
    # --- R-C09-pipeline
    _m('l4-drops-net-check', L4, "    s._check_port_in_nets()\n    s._check_upblk_calls()", "    s._check_upblk_calls()", 'R-C09-pipeline'),
    _m('l3-drops-upblk-port-check', L3, "    s._check_port_in_upblk()\n    s._check_port_in_nets()\n", "    s._check_port_in_nets()\n", 'R-C09-pipeline'),
    _m('check-before-collect', L2, "    s._elaborate_declare_vars()\n    s._elaborate_collect_all_vars()\n\n    s._check_valid_dsl_code()",
       "    s._check_valid_dsl_code()\n    s._elaborate_declare_vars()\n    s._elaborate_collect_all_vars()", 'R-C09-pipeline'),
    _m('check-before-net-resolution', L3, "    s._dsl.all_value_nets = s._resolve_value_connections()\n    s._dsl._has_pending_value_connections = False\n\n    s._check_valid_dsl_code()",
       "    s._check_valid_dsl_code()\n    s._dsl.all_value_nets = s._resolve_value_connections()\n    s._dsl._has_pending_value_connections = False", 'R-C09-pipeline'),
    _m('component-check-noop', COMP, "  def check( s ):\n    s._check_valid_dsl_code()", "  def check( s ):\n    pass", 'R-C09-pipeline'),
    _m('replace-component-unchecked', COMP, "def replace_component( top, foo, cls, check=True ):", "def replace_component( top, foo, cls, check=False ):", 'R-C09-pipeline'),
    _m('gendag-no-check', GENDAG, "    top.check()\n    top._dag = PassMetadata()", "    top._dag = PassMetadata()", 'R-C09-pipeline'),
    _m('l2-check-conditional', L2, "    s._elaborate_collect_all_vars()\n\n    s._check_valid_dsl_code()",
       "    s._elaborate_collect_all_vars()\n\n    if s._dsl.all_upblks: s._check_valid_dsl_code()", 'R-C09-pipeline'),
    # --- R-C09-mw-guard
    _m('mw-single-writer-reported', L2, "      if len(wr_blks) > 1:", "      if len(wr_blks) >= 1:", 'R-C09-mw-guard'),
    _m('mw-same-block-parent', L2, "          if wrx_blks[0] != wr_blks[0]:", "          if wrx_blks[0] == wr_blks[0]:", 'R-C09-mw-guard'),
    _m('mw-method-writer-inverted', L5, "            if writer is None:\n              writer = member", "            if writer is not None:\n              writer = member", 'R-C09-mw-guard'),
    _m('mw-net-first-assert-dropped', L3, "              assert not has_writer\n              has_writer, writer = True, v\n\n            else:",
       "              has_writer, writer = True, v\n\n            else:", 'R-C09-mw-guard'),
    # --- R-C09-mw-cover
    _m('mw-ancestor-one-level', L2, "      while x.is_signal():\n        if x is not obj", "      if x.is_signal():\n        if x is not obj", 'R-C09-mw-cover'),
    _m('mw-sibling-no-overlap-test', L2, "        if x.slice_overlap( obj ) and x in write_upblks:", "        if x in write_upblks:", 'R-C09-mw-cover'),
    _m('mw-ancestor-membership-inverted', L2, "        if x is not obj and x in write_upblks:", "        if x is not obj and x not in write_upblks:", 'R-C09-mw-cover'),
    _m('mw-map-filtered', L2, "        write_upblks[ wr ].add( blk )", "        if wr.is_top_level_signal(): write_upblks[ wr ].add( blk )", 'R-C09-mw-cover'),
    # --- R-C09-porttable
    _m('wire-host-is-declaring-object (C09r11)', L2, "        host = obj\n        while not isinstance( host, ComponentLevel2 ):\n          host = host.get_parent_object() # go to the component\n\n        if   isinstance( obj, (InPort, OutPort) ):  pass",
       "        host = obj.get_top_level_signal().get_parent_object()\n\n        if   isinstance( obj, (InPort, OutPort) ):  pass", 'R-C09-porttable'),
    _m('write-host-is-direct-parent', L2, "        host = obj\n        while not isinstance( host, ComponentLevel2 ):\n          host = host.get_parent_object() # go to the component\n\n      # A continuous assignment",
       "        host = obj.get_parent_object()\n\n      # A continuous assignment", 'R-C09-porttable'),
    _m('inport-written-by-own-block', L2, "          if host.get_parent_object() != blk_hostobj:", "          if host != blk_hostobj:", 'R-C09-porttable'),
    _m('wire-read-from-outside', L2, "          if blk_hostobj != host:\n            raise SignalTypeError(\"\"\"[Type 1]", "          if blk_hostobj == host:\n            raise SignalTypeError(\"\"\"[Type 1]", 'R-C09-porttable'),
    _m('child-outport-written-by-parent', L2, "        elif isinstance( obj, OutPort ):\n          if blk_hostobj != host:",
       "        elif isinstance( obj, OutPort ):\n          if blk_hostobj != host and blk_hostobj != host.get_parent_object():", 'R-C09-porttable'),
    _m('deeper-driver-to-inport', L3, "              valid = isinstance( u, OutPort ) and \\\n                      isinstance( v, (OutPort, Wire) )",
       "              valid = isinstance( u, OutPort ) and \\\n                      isinstance( v, (OutPort, Wire, InPort) )", 'R-C09-porttable'),
    _m('sibling-any-driver', L3, "              valid = isinstance( u, OutPort ) and isinstance( v, InPort )", "              valid = isinstance( u, Signal ) and isinstance( v, InPort )", 'R-C09-porttable'),
    _m('relation-direction-confused', L3, "            elif rhost == whost.get_parent_object():", "            elif rhost.get_parent_object() == whost:", 'R-C09-porttable'),
    _m('loopback-looked-up-at-top', L3, "                  u_connected_in_parent = v in parent._dsl.adjacency and u in parent._dsl.adjacency[v]\n                  v_connected_in_parent = u in parent._dsl.adjacency and v in parent._dsl.adjacency[u]",
       "                  u_connected_in_parent = v in s._dsl.adjacency and u in s._dsl.adjacency[v]\n                  v_connected_in_parent = u in s._dsl.adjacency and v in s._dsl.adjacency[u]", 'R-C09-porttable'),
    _m('loopback-inverted', L3, "                  if not u_connected_in_parent:", "                  if u_connected_in_parent:", 'R-C09-porttable'),
    _m('dfs-not-expanded', L3, "            S.append( v )\n", "", 'R-C09-porttable'),
    _m('same-host-inport-driven', L3, "              valid = isinstance( u, (Signal, Const) ) and \\\n                      isinstance( v, (OutPort, Wire) )",
       "              valid = isinstance( u, (Signal, Const) ) and \\\n                      isinstance( v, Signal )", 'R-C09-porttable'),
    _m('shallower-driver-const-rejected', L3, "              valid = isinstance( u, (Signal, Const) ) and isinstance( v, InPort )",
       "              valid = isinstance( u, Signal ) and isinstance( v, InPort )", 'R-C09-porttable'),
    # --- R-C09-optable
    _m('update-accepts-lshift', L2, "            elif not isinstance( op, ast.MatMult ):", "            elif not isinstance( op, (ast.MatMult, ast.LShift) ):", 'R-C09-optable'),
    _m('ff-toplevel-inverted', L2, "              if not x.is_top_level_signal():", "              if x.is_top_level_signal():", 'R-C09-optable'),
    _m('ff-no-double-buffer', L2, "              x._dsl.needs_double_buffer = True\n\n          else: # update", "              pass\n\n          else: # update", 'R-C09-optable'),
    _m('write-checks-skipped', L2, "          if not is_write or not objs:", "          if is_write or not objs:", 'R-C09-optable'),
    _m('write-checks-skipped-when-already-collected', L2, "          if not is_write or not objs:", "          if not is_write or not objs or objs <= all_objs:", 'R-C09-optable'),
    _m('callsite-is-write-dropped', L2, "update_ff = blk in s._dsl.update_ff, is_write=True )", "update_ff = blk in s._dsl.update_ff )", 'R-C09-optable'),
    _m('nonsignal-write-accepted', L2, "            if not isinstance( obj, Signal ):", "            if not isinstance( obj, NamedObject ):", 'R-C09-optable'),
    _m('block-kinds-swapped', L2, "          if update_ff:\n", "          if not update_ff:\n", 'R-C09-optable'),
    # --- R-C09-nowriter
    _m('headless-nets-dropped', L3, "    return headed + [ (None, x) for x in headless ]", "    return headed", 'R-C09-nowriter'),
    _m('nowriter-test-inverted', L3, "for writer, signals in nets if writer is None ]", "for writer, signals in nets if writer is not None ]", 'R-C09-nowriter'),
    _m('headless-not-requeued', L3, "          new_headless.append( net )\n", "", 'R-C09-nowriter'),
    _m('nowriter-not-raised', L3, "    if headless:\n      raise NoWriterError( headless )", "    if headless:\n      pass", 'R-C09-nowriter'),
    # --- R-C09-loop
    _m('seed-loop-stops-at-first-external-driver', L3, "          writer_prop[ member ] = True\n\n    headless = nets", "          writer_prop[ member ] = True\n          break\n\n    headless = nets", 'R-C09-netwriters'),
    _m('child-inport-seeded-as-writer', L3, "isinstance( member, InPort ) and host == s )", "isinstance( member, InPort ) and host != s )", 'R-C09-netwriters'),
    _m('const-not-a-net-writer', L3, "            if v in writer_prop or isinstance( v, Const ):", "            if v in writer_prop:", 'R-C09-netwriters'),
    _m('placeholder-outport-not-seeded', L3, "( isinstance( member, OutPort ) and isinstance( host, Placeholder ) ):", "( isinstance( member, OutPort ) and isinstance( host, Placeholder ) and host == s ):", 'R-C09-netwriters'),
    _m('headed-net-loses-readers', L3, "        headed.append( (writer, net) )", "        headed.append( (writer, { writer }) )", 'R-C09-netwriters'),
    _m('byname-break-on-plain-attribute', L3, "                repr(this), type(this), repr(other), type(other) ) )\n", "                repr(this), type(this), repr(other), type(other) ) )\n            break\n", 'R-C09-byname'),
    _m('byname-private-filter-inverted', L3, "        if name[0] != '_': # filter private variables\n          obj = this.__dict__[ name ]", "        if name[0] == '_': # filter private variables\n          obj = this.__dict__[ name ]", 'R-C09-byname'),
    _m('byname-list-element-zero', L3, "            recursive_connect( this_obj[i], other_obj[i] )", "            recursive_connect( this_obj[i], other_obj[0] )", 'R-C09-byname'),
    _m('byname-missing-port-silent', L3, "            if isinstance( obj, Connectable ):\n              raise InvalidConnectionError(\"There is no", "            if isinstance( obj, list ):\n              raise InvalidConnectionError(\"There is no", 'R-C09-byname'),
    _m('lambda-name-not-uniquified (375ca6d)', L3, "    base_name, nth = blk_name, 1\n    while blk_name in s._dsl.name_upblk:\n      nth += 1\n      blk_name = f\"{base_name}__{nth}\"\n", "", 'R-C09-lambda-name'),
    _m('lambda-name-uniquified-against-functions-only', L3, "    while blk_name in s._dsl.name_upblk:", "    while blk_name in s._dsl.name_func:", 'R-C09-lambda-name'),
    _m('lambda-name-counter-stuck', L3, "      nth += 1\n      blk_name = f\"{base_name}__{nth}\"", "      blk_name = f\"{base_name}__{nth}\"", 'R-C09-lambda-name'),
    _m('lambda-name-uniquify-once', L3, "    while blk_name in s._dsl.name_upblk:\n      nth += 1", "    if blk_name in s._dsl.name_upblk:\n      nth += 1", 'R-C09-lambda-name'),
    _m('lambda-name-suffix-ambiguous', L3, "      blk_name = f\"{base_name}__{nth}\"", "      blk_name = f\"{base_name}_\"", 'R-C09-lambda-name'),
    _m('dfs-skips-falsy-writer', L3, "    for writer, _ in nets:\n", "    for writer, _ in nets:\n      if not writer: continue\n", 'R-C09-writer-none'),
    _m('const-gets-bool', CONN, "  def get_parent_object( s ):\n    try:\n      return s._dsl.parent_obj", "  def __bool__( s ):\n    return bool( s._dsl.const )\n\n  def get_parent_object( s ):\n    try:\n      return s._dsl.parent_obj", 'R-C09-writer-none'),
    _m('headless-by-truthiness', L3, "for writer, signals in nets if writer is None ]", "for writer, signals in nets if not writer ]", 'R-C09-writer-none'),
    _m('signal-gets-len', CONN, "  def default_value( s ):\n    return s._dsl.Type()", "  def __len__( s ):\n    return s._dsl.Type.nbits\n\n  def default_value( s ):\n    return s._dsl.Type()", 'R-C09-writer-none'),
    dict(name='ifc-second-connect-is-false', rule='R-C09-ifc-connect', edits=[
        dict(file=L3, old="          if not o2.connect( o1, s ):\n            connect_by_name( o1, o2 )", new="          if o2.connect( o1, s ) is False:\n            connect_by_name( o1, o2 )", count=1),
        dict(file=L3, old="        if not o2.connect( o1, s ):\n          connect_by_name( o1, o2 )", new="        if o2.connect( o1, s ) is False:\n          connect_by_name( o1, o2 )", count=1)]),
    _m('ifc-first-connect-is-false', L3, "      if not o1.connect( o2, s ): # o1.connect fail", "      if o1.connect( o2, s ) is False: # o1.connect fail", 'R-C09-ifc-connect'),
    _m('ifc-byname-although-handled', L3, "      if not o1.connect( o2, s ): # o1.connect fail", "      if o1.connect( o2, s ): # o1.connect fail", 'R-C09-ifc-connect'),
    _m('ifc-second-side-not-tried', L3, "        if hasattr( o2, \"connect\" ):\n          if not o2.connect( o1, s ):\n            connect_by_name( o1, o2 )\n        else:\n          connect_by_name( o1, o2 )", "        connect_by_name( o1, o2 )", 'R-C09-ifc-connect'),
    _m('loop-back-edge-to-root-ignored', L3, "            elif v is not pred[u]:", "            elif v in pred and v is not pred[u]:", 'R-C09-loop'),
    _m('floodfill-neighbour-not-queued', L3, "              pred[v] = u\n              Q.append( v )", "              pred[v] = u", 'R-C09-loop'),
    _m('floodfill-two-signal-nets-dropped', L3, "        if len(net) == 1:\n          continue", "        if len(net) <= 2:\n          continue", 'R-C09-loop'),
    _m('floodfill-visited-never-set', L3, "          visited.add( u )\n          net.add( u )", "          net.add( u )", 'R-C09-loop'),
    _m('floodfill-pred-is-root', L3, "              pred[v] = u\n", "              pred[v] = obj\n", 'R-C09-loop'),
    _m('loop-test-inverted', L3, "            elif v is not pred[u]:", "            elif v is pred[u]:", 'R-C09-loop'),
    _m('pred-not-recorded', L3, "              pred[v] = u\n", "", 'R-C09-loop'),
    _m('floodfill-local-adjacency', L3, "s._floodfill_nets( s._dsl.all_signals, s._dsl.all_adjacency )", "s._floodfill_nets( s._dsl.all_signals, s._dsl.adjacency )", 'R-C09-loop'),
    # --- R-C09-raise-resolves
    _m('d10-import-dropped', CONN, "from .errors import InvalidConnectionError, InvalidPlaceholderError", "from .errors import InvalidConnectionError", 'R-C09-raise-resolves'),
    _m('d10-unbound-blk', CONN, "\"in a placeholder component {!r}.\".format( host )", "\"in a placeholder component {!r}.\".format( blk.__name__ )", 'R-C09-raise-resolves'),
    _m('nowriter-arity', L3, "      raise NoWriterError( headless )", "      raise NoWriterError()", 'R-C09-raise-resolves'),
    _m('l3-import-dropped', L3, "    NoWriterError,\n", "", 'R-C09-raise-resolves'),
    _m('samename-arity', L1, "      raise UpblkFuncSameNameError( name )", "      raise UpblkFuncSameNameError( name, blk )", 'R-C09-raise-resolves'),
    _m('misspelt-error-class', L2, "              raise UpdateFFNonTopLevelSignalError( s, func, nodelist[0].lineno )", "              raise UpdateFFNonTopLevelError( s, func, nodelist[0].lineno )", 'R-C09-raise-resolves'),
]

EQUIV = [
    _m('overlap-closed-form', CONN, "      if x.start <= y.start:  return y.start < x.stop\n      else:                   return x.start < y.stop",
       "      return max( x.start, y.start ) < min( x.stop, y.stop )"),
    _m('overlap-negated-form', CONN, "else:                     return y.start <= x < y.stop", "else:                     return not (x < y.start or x >= y.stop)"),
    _m('slice-overlap-args-swapped', CONN, "return _overlap( s._dsl.slice, other._dsl.slice )", "return _overlap( other._dsl.slice, s._dsl.slice )"),
    _m('bit-index-two-statements', CONN, "      start, stop = idx, idx + 1", "      start = idx\n      stop = start + 1"),
    _m('l4-checks-via-super', L4, "    s._check_upblk_writes()\n    s._check_port_in_upblk()\n    s._check_port_in_nets()\n    s._check_upblk_calls()",
       "    super()._check_valid_dsl_code()\n    s._check_upblk_calls()"),
    _m('l3-checks-reordered', L3, "    s._check_upblk_writes()\n    s._check_port_in_upblk()\n    s._check_port_in_nets()\n", "    s._check_port_in_upblk()\n    s._check_upblk_writes()\n    s._check_port_in_nets()\n"),
    _m('mw-len-ge-2', L2, "      if len(wr_blks) > 1:", "      if len(wr_blks) >= 2:"),
    _m('mw-not-equal-form', L2, "          if wrx_blks[0] != wr_blks[0]:", "          if not (wrx_blks[0] == wr_blks[0]):"),
    _m('mw-ancestor-conjuncts-swapped', L2, "        if x is not obj and x in write_upblks:", "        if x in write_upblks and x is not obj:"),
    _m('port-valid-conjuncts-swapped', L3, "              valid = isinstance( u, OutPort ) and isinstance( v, InPort )", "              valid = isinstance( v, InPort ) and isinstance( u, OutPort )"),
    _m('port-relation-sides-swapped', L3, "            if   whost == rhost:", "            if   rhost == whost:"),
    _m('upblk-host-via-host-component', L2, "        host = obj\n        while not isinstance( host, ComponentLevel2 ):\n          host = host.get_parent_object() # go to the component\n\n        if   isinstance( obj, (InPort, OutPort) ):  pass",
       "        host = obj.get_host_component()\n\n        if   isinstance( obj, (InPort, OutPort) ):  pass"),
    _m('upblk-host-walk-is-component', L2, "        host = obj\n        while not isinstance( host, ComponentLevel2 ):\n          host = host.get_parent_object() # go to the component\n\n        if   isinstance( obj, (InPort, OutPort) ):  pass",
       "        host = obj.get_top_level_signal().get_parent_object()\n        while not host.is_component():\n          host = host.get_parent_object()\n\n        if   isinstance( obj, (InPort, OutPort) ):  pass"),
    _m('port-upblk-not-eq', L2, "          if blk_hostobj != host:\n            raise SignalTypeError(\"\"\"[Type 1]", "          if not (blk_hostobj == host):\n            raise SignalTypeError(\"\"\"[Type 1]"),
    _m('optable-loop-var-renamed', L2, "            for x in objs:\n              if not x.is_top_level_signal():\n                raise UpdateFFNonTopLevelSignalError( s, func, nodelist[0].lineno )\n\n              x._dsl.needs_double_buffer = True",
       "            for sig in objs:\n              if not sig.is_top_level_signal():\n                raise UpdateFFNonTopLevelSignalError( s, func, nodelist[0].lineno )\n\n              sig._dsl.needs_double_buffer = True"),
    _m('nowriter-comprehension-renamed', L3, "headless = [ signals for writer, signals in nets if writer is None ]", "headless = [ sigs for w, sigs in nets if w is None ]"),
    _m('loop-test-sides-swapped', L3, "            elif v is not pred[u]:", "            elif pred[u] is not v:"),
    _m('import-split', CONN, "from .errors import InvalidConnectionError, InvalidPlaceholderError", "from .errors import InvalidConnectionError\nfrom .errors import InvalidPlaceholderError"),
    # nested / merged ifs, flipped branches, local aliases, loop <-> comprehension
    _m('mw-sibling-nested-ifs', L2, "        if x.slice_overlap( obj ) and x in write_upblks:\n          wrx_blks = list(write_upblks[x])\n          raise MultiWriterError( \\\n            \"Two-writer conflict between sibling slices.",
       "        if x.slice_overlap( obj ):\n         if x in write_upblks:\n          wrx_blks = list(write_upblks[x])\n          raise MultiWriterError( \\\n            \"Two-writer conflict between sibling slices."),
    _m('mw-sibling-conjuncts-swapped', L2, "        if x.slice_overlap( obj ) and x in write_upblks:", "        if x in write_upblks and x.slice_overlap( obj ):"),
    _m('mw-sibling-early-continue', L2, "        if x.slice_overlap( obj ) and x in write_upblks:", "        if not x.slice_overlap( obj ): continue\n        if x in write_upblks:"),
    _m('mw-sibling-alias', L2, "        if x.slice_overlap( obj ) and x in write_upblks:", "        ov = x.slice_overlap( obj )\n        if ov and x in write_upblks:"),
    _m('mw-ancestor-nested-ifs', L2, "        if x is not obj and x in write_upblks:", "        if x is not obj:\n         if x in write_upblks:"),
    _m('mw-parent-merged-if', L2, "          wrx_blks = list(write_upblks[x])\n\n          if wrx_blks[0] != wr_blks[0]:\n            raise MultiWriterError( \\\n            \"Two-writer conflict in nested",
       "          wrx_blks = list(write_upblks[x])\n\n          if wrx_blks[0] != wr_blks[0] and True:\n            raise MultiWriterError( \\\n            \"Two-writer conflict in nested"),
    _m('dfs-visited-early-continue', L3, "          if v not in visited:\n            visited.add( v )", "          if v in visited: continue\n          if True:\n            visited.add( v )"),
    _m('port-valid-inlined', L3, "              valid = isinstance( u, OutPort ) and isinstance( v, InPort )\n\n              if not valid:", "              if not (isinstance( u, OutPort ) and isinstance( v, InPort )):"),
    _m('port-upblk-nested-ifs', L2, "        elif isinstance( obj, OutPort ):\n          if blk_hostobj != host:", "        elif isinstance( obj, OutPort ) and blk_hostobj != host:\n          if True:"),
    _m('nowriter-loop-form', L3, "    headless = [ signals for writer, signals in nets if writer is None ] # remove None\n",
       "    headless = []\n    for writer, signals in nets:\n      if writer is None:\n        headless.append( signals )\n"),
    _m('nowriter-return-loop-form', L3, "    return headed + [ (None, x) for x in headless ]", "    for x in headless:\n      headed.append( (None, x) )\n    return headed"),
    _m('nowriter-requeue-flipped', L3, "        if not has_writer:\n          new_headless.append( net )\n          continue\n", "        if has_writer:\n          pass\n        else:\n          new_headless.append( net )\n          continue\n"),
    _m('seed-loop-two-ifs', L3, "        if ( isinstance( member, InPort ) and host == s ) or \\\n           ( isinstance( member, OutPort ) and isinstance( host, Placeholder ) ):\n          writer_prop[ member ] = True",
       "        if isinstance( member, InPort ) and host == s:\n          writer_prop[ member ] = True\n        elif isinstance( member, OutPort ) and isinstance( host, Placeholder ):\n          writer_prop[ member ] = True"),
    _m('seed-loop-guard-clause', L3, "        if ( isinstance( member, InPort ) and host == s ) or \\\n           ( isinstance( member, OutPort ) and isinstance( host, Placeholder ) ):\n          writer_prop[ member ] = True",
       "        if not (( isinstance( member, InPort ) and host == s ) or \\\n           ( isinstance( member, OutPort ) and isinstance( host, Placeholder ) )):\n          continue\n        writer_prop[ member ] = True"),
    _m('byname-guard-clauses-continue', L3, "        if name[0] != '_': # filter private variables\n          obj = this.__dict__[ name ]\n          if hasattr( other, name ):\n            # other has the corresponding field, connect recursively\n            recursive_connect( obj, getattr( other, name ) )\n\n          else:\n            # other doesn't have the corresponding field, raise error\n            # if obj is connectable.\n            if isinstance( obj, Connectable ):",
       "        if name[0] == '_': continue\n        if True:\n          obj = this.__dict__[ name ]\n          if hasattr( other, name ):\n            recursive_connect( obj, getattr( other, name ) )\n            continue\n          if True:\n            if isinstance( obj, Connectable ):"),
    dict(name='lambda-name-regex-one-for-one', edits=[
        dict(file=L3, old="import linecache\n", new="import linecache\nimport re\n", count=1),
        dict(file=L3, old="repr(o).replace(\".\",\"_\").replace(\"[\", \"_\").replace(\"]\", \"_\").replace(\":\", \"_\") )", new="re.sub( r'[.\\[\\]:]', '_', repr(o) ) )", count=1)]),
    dict(name='lambda-name-punctuation-runs-collapsed-but-numbered', edits=[
        dict(file=L3, old="import linecache\n", new="import linecache\nimport re\n", count=1),
        dict(file=L3, old="repr(o).replace(\".\",\"_\").replace(\"[\", \"_\").replace(\"]\", \"_\").replace(\":\", \"_\") )", new="re.sub( r'\\W+', '_', repr(o) ) )", count=1)]),
    dict(name='lambda-name-itertools-count', edits=[
        dict(file=L3, old="import linecache\n", new="import linecache\nimport itertools\n", count=1),
        dict(file=L3, old="    base_name, nth = blk_name, 1\n    while blk_name in s._dsl.name_upblk:\n      nth += 1\n      blk_name = f\"{base_name}__{nth}\"\n",
             new="    base_name = blk_name\n    if blk_name in s._dsl.name_upblk:\n      for nth in itertools.count(2):\n        blk_name = f\"{base_name}__{nth}\"\n        if blk_name not in s._dsl.name_upblk:\n          break\n", count=1)]),
    dict(name='lambda-name-sanitiser-as-loop (RF38/4)', edits=[
        dict(file=L3, old="    blk_name = \"_lambda__{}\".format( repr(o).replace(\".\",\"_\").replace(\"[\", \"_\").replace(\"]\", \"_\").replace(\":\", \"_\") )\n",
             new="    target_name = repr(o)\n    for ch in ( \".\", \"[\", \"]\", \":\" ):\n      target_name = target_name.replace( ch, \"_\" )\n\n    blk_name = \"_lambda__{}\".format( target_name )\n", count=1),
        dict(file=L3, old="    base_name, nth = blk_name, 1\n", new="    base_name = blk_name\n    nth       = 1\n", count=1)]),
    _m('lambda-name-membership-keys', L3, "    while blk_name in s._dsl.name_upblk:", "    while blk_name in s._dsl.name_upblk.keys():"),
    _m('lambda-name-fstring', L3, "blk_name = \"_lambda__{}\".format( repr(o)", "blk_name = \"_lambda__\" + \"{}\".format( repr(o)"),
    _m('dfs-skips-none-writer-by-identity', L3, "    for writer, _ in nets:\n", "    for writer, _ in nets:\n      if writer is None: continue\n"),
    _m('headless-is-none-eq-form', L3, "for writer, signals in nets if writer is None ]", "for writer, signals in nets if not (writer is not None) ]"),
    _m('ifc-flipped-branches', L3, "          if not o2.connect( o1, s ):\n            connect_by_name( o1, o2 )\n        else:", "          if o2.connect( o1, s ):\n            pass\n          else:\n            connect_by_name( o1, o2 )\n        else:"),
    _m('ifc-result-in-local', L3, "      if not o1.connect( o2, s ): # o1.connect fail", "      handled = o1.connect( o2, s )\n      if not handled: # o1.connect fail"),
    _m('ifc-bool-of-result', L3, "        if not o2.connect( o1, s ):\n          connect_by_name( o1, o2 )", "        if bool( o2.connect( o1, s ) ) == False:\n          connect_by_name( o1, o2 )"),
    _m('loop-test-ne-for-identity', L3, "            elif v is not pred[u]:", "            elif v != pred[u]:"),
    _m('floodfill-breadth-first', L3, "          u = Q.pop()\n          visited.add( u )", "          u = Q.pop(0)\n          visited.add( u )"),
    _m('floodfill-root-pred-none', L3, "        Q   = [ obj ]\n", "        Q   = [ obj ]\n        pred[obj] = None\n"),
    _m('loop-early-continue', L3, "            if v not in visited:\n              pred[v] = u\n              Q.append( v )\n            elif v is not pred[u]:", "            if v not in visited:\n              pred[v] = u\n              Q.append( v )\n              continue\n            if v is not pred[u]:"),
    _m('loop-nested-else', L3, "            elif v is not pred[u]:\n              raise", "            else:\n             if v is not pred[u]:\n              raise"),
    _m('optable-skip-split', L2, "          if not is_write or not objs:\n            all_objs |= objs\n            continue\n", "          if not is_write:\n            all_objs |= objs\n            continue\n          if not objs:\n            continue\n"),
    _m('optable-update-flipped', L2, "            elif not isinstance( op, ast.MatMult ):\n              if isinstance( op, ast.LShift ):", "            elif isinstance( op, ast.MatMult ):\n              pass\n            else:\n              if isinstance( op, ast.LShift ):"),
    _m('dfs-mark-after-push', L3, "            visited.add( v )\n            S.append( v )\n", "            S.append( v )\n            visited.add( v )\n"),
]

LEVEL_TEXT = ("Static analysis of the elaboration-time design-rule checkers of pymtl3/dsl: the slice-overlap predicate is proved "
              "against interval intersection over all order types; the port-direction and assignment-operator decisions are "
              "abstractly evaluated over every hierarchical relation x port class / block kind x operator and compared with "
              "the specified tables; the check pipeline actually run by each component level is resolved through the MRO; "
              "multi-writer raises are tied to a two-driver test; headless nets and connection loops are shown to be "
              "reported; every design-rule raise resolves. It decides these clauses for all designs at the level of code "
              "shape, without executing pymtl3.")
LEVEL_NOTE = ("Not decided: completeness of the iterative writer propagation in _resolve_value_connections (which placement of "
              "two drivers across nets is found), faithfulness of the read/write sets extracted from update-block ASTs "
              "(C02), self-connections. Known genuine finding: D9 (one block writing two overlapping slices is rejected; listed in "
              "known_findings.json). Two further defects found by these rules were repaired in /repo (fix: commits).")
TECHNIQUE = ("ast extraction + finite abstract evaluation (order types of slice endpoints; hierarchy x port-class and "
             "block-kind x operator case splits), structural dominance of guards, MRO/call resolution of the elaborate "
             "template, name/arity resolution of raise sites")
