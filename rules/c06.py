"""C06 -- Bitstruct packing is a lossless, order-preserving bijection.  (DESIGN.md section 4, C06)

The per-type methods of a bitstruct are produced by source-text generators in
pymtl3/datatypes/bitstructs.py.  The generators (not any concrete struct) are what the property
quantifies over, so they are evaluated symbolically (sa/c06_util.py: template / sequence domain) and the
rules argue by structural induction over the shape of a field type (list / nested struct / Bits leaf).
"""
import ast
import copy

from sa.astutil import norm, guards_of, walk_no_nested, parent, preceding_stmts, qualname, stmt_of
from sa.errors import AnalysisError
from sa.minieval import Evaluator
from sa.report import RuleResult
from sa import c06_util as U
from sa.c06_util import (Sym, Const, Lin, Tmpl, Join, SeqV, DictV, Item, Splice, LoopSeg, CondSeg, Rev, Tup, Attr,
                         Sub, Len, Innermost, FieldsOf, RangeSp, ItemsSp, KeysSp, ValuesSp, EnumSp, Wrapped,
                         LoopVar, Carried, Fold, Phi, Rec, Proj, CallV, Bin, Cmp, Fn, show)

PID = 'C06'
BS = 'pymtl3/datatypes/bitstructs.py'
HELPERS = 'pymtl3/datatypes/helpers.py'
KINDS = ('list', 'struct', 'bits')

# the layout / traversal specification of the property, per generator
GEN_SPEC = {
    '_mk_imatmul_fn':       dict(list_dir=None,   struct='delegate', seq=True),
    '_mk_ff_fn':            dict(list_dir=None,   struct='delegate', seq=True),
    '_mk_clone_fn':         dict(list_dir='asc',  struct='delegate'),
    '_mk_deepcopy_fn':      dict(list_dir='asc',  struct='delegate'),
    '_mk_nbits_to_bits_fn': dict(list_dir='desc', struct='recurse', seq=True),   # element 0 least significant
    '_mk_from_bits_fns':    dict(list_dir=None,   struct='recurse'),
}

EXPLANATION = (
    "Static analysis of the source-text generators in pymtl3/datatypes/bitstructs.py and of concat in helpers.py (ast; "
    "nothing is imported or run, no concrete struct type is built). Each generator is evaluated symbolically in a "
    "template/sequence domain: strings become templates with holes, statement lists become sequences with loop segments, "
    "a for loop is executed once with symbolic loop variables, a recursive helper is analysed case by case (list / nested "
    "struct / Bits leaf) with its recursive calls kept symbolic, so every rule is an induction step over the shape of a "
    "field type. The emitted statement templates are parsed (holes replaced by placeholder identifiers) and their shape is "
    "inspected. R-C06-traversal: every generated method visits every leaf of every field (field loops complete and in "
    "declaration order, every list index, to_bits descending = element 0 least significant, clone ascending, nested "
    "structs field by field, index / field name appended to the access path, result components not crossed). "
    "R-C06-leaf: emitted leaf statements and function frames (self.p @= other.p, self.p <<= other.p, self.p._flip(), "
    "p.clone(), concat(...), cls(...), other[lo:hi], return self, Bits->struct conversion prologue): no leaf is aliased. "
    "R-C06-width: the bit counter starts at 0 / at the total, is threaded through every recursive call, changes by exactly "
    "type_.nbits per leaf, the slice is [end-nbits:end], from_bits asserts that it ends at 0, and every element contributes "
    "exactly one constructor argument. R-C06-mirror: to_bits and from_bits use the same field order, the same nested field "
    "order, opposite list handling (descending emission <-> reversed list literal), the same width source, and the total "
    "handed to from_bits is the one to_bits computed. R-C06-eqhash: __eq__ and __hash__ range over the same complete field "
    "tuple, __eq__ requires class identity. R-C06-init: the generated constructor takes the fields positionally in "
    "declaration order (from_bits / clone rely on it), converts Bits fields, builds distinct default elements. "
    "R-C06-wiring: _process_class / bitstruct / mk_bitstruct attach each generated function under its name from the same "
    "ordered field table. R-C06-admit: the admission guard of list fields (_check_field_annotation and its helpers) is "
    "evaluated over an exhaustive finite family of nested list specs over abstract leaf tokens (every spec of depth <= 2 with "
    "lists of length 0..2 over two Bits types, a struct type and a non-type; 3-element lists; 2x2xN arrays; thorough tier: every "
    "spec of depth <= 3) and must accept exactly the specs in which every element has the shape and leaf type of element 0 -- "
    "the assumption under which the generators derive every element from type_[0]. R-C06-grid: the symbolic generator "
    "results are unfolded for a grid of 13 concrete field shapes (Bits, nested structs, 1/2/3-dimensional lists, lists of "
    "structs, struct with lists), the emitted source is parsed and the actions it performs are enumerated -- loops that the "
    "emitted code itself contains are iterated -- and compared with the specification for that shape (every leaf copied / "
    "flipped exactly once, clone element k at position k, concat operand order, nbits, absolute slice positions of from_bits); "
    "it decides generators that emit run-time loops instead of unrolling, to which R-C06-traversal defers. R-C06-fresh: every "
    "leaf stored by the generated from_bits / clone / __init__ is a constructor call of the field type, a .clone() call or a "
    "slice of the packed value (never a reference or a conditional pass-through; signature defaults are the None sentinel), "
    "and the Bits primitives relied upon build new objects (rules.c05 R-C05-value is evaluated as part of C06). R-C06-concat: concat puts its first operand most significant and sums the widths. "
    "NOT decided: user supplied __init__/__eq__/__hash__ overrides, the _bitstruct_hash_cache collision case, the "
    "Bits primitives (slicing, @=, <<=, clone: C04/C05), the Yosys half of R-layout-agree (C12), _create_fn/exec itself.")
ASSUMPTIONS = [
    "Python semantics of the emitted code (augmented assignment calls __imatmul__/__ilshift__ of the left operand, list "
    "and tuple equality are element-wise, dict iteration is insertion ordered)",
    "Bits primitives: x[a:b] returns a fresh Bits of width b-a holding bits a..b-1, @= / <<= / _flip / clone of Bits copy "
    "values (C04, C05); Bits(nbits, v) rejects nbits >= 1024 (C04 R-C04-tables) which is the only total width limit",
    "_create_fn joins the argument list with ', ', the body list with newlines at one indentation level and returns the "
    "function it exec'ed; field annotations admitted by _check_field_annotation are Bits classes, bitstruct classes or "
    "rectangular lists of one of them (so every list element has the shape of element 0)",
    "structural induction over the nesting depth of a field type: a nested struct's own generated methods satisfy the "
    "same rules (they come from the same generators)",
    "the user does not override __init__/__eq__/__hash__ and the class-hash cache returns an identical class",
]


# ---------------------------------------------------------------------------
# analysis cache: symbolic evaluation of every generator and of every recursive helper (per kind)
def stringish(c):
    return isinstance(c, (SeqV, Tmpl, Join)) or (isinstance(c, Const) and isinstance(c.value, str))


class Helper:
    def __init__(self, m, fobj):
        self.fdef = fobj.fdef
        self.name = self.fdef.name
        self.qual = qualname(self.fdef)
        self.params = [a.arg for a in self.fdef.args.args]
        self.tpname = U.find_type_param(self.fdef)
        self.T = Sym(self.tpname)
        self.cases = {}
        self.steps = 0
        self.extra = {}                  # kind -> [(conditions, value)] : additional return paths of the case
        self.raw = {}                    # kind -> complete symbolic result (all return paths)
        self.label = ''
        for k in KINDS:
            v, ev, _ = U.eval_case(m, fobj, k, self.tpname)
            arms = U.alternatives(v)
            main = arms[-1][1]               # the arm taken when every undecided extra condition is false
            self.extra[k] = [(c, a) for c, a in arms[:-1] if a != main]
            self.cases[k] = (main, ev)
            self.raw[k] = v
            self.steps += ev.steps
        leaf = self.comps('bits')
        self.ncomp = len(leaf)
        self.is_tuple = isinstance(self.cases['bits'][0], Tup)
        self.str_idx = [i for i, c in enumerate(leaf) if stringish(c)]
        self.cnt_idx = [i for i, c in enumerate(leaf) if not stringish(c)]
        self.prefix = self.counter = None
        self.layout_params = []          # string parameters that only lead an emitted line (indentation of emitted blocks)
        cands = []
        for p in self.params:
            if p == self.tpname:
                continue
            in_cnt = any(Sym(p) in set(U.walk_values(leaf[i])) for i in self.cnt_idx)
            in_str = any(Sym(p) in set(U.walk_values(leaf[i])) for i in self.str_idx)
            if in_cnt:
                if self.counter is not None:
                    raise AnalysisError(f"{self.qual}: two counter-like parameters")
                self.counter = p
            elif in_str:
                cands.append(p)
        if len(cands) > 1:
            def only_leading(p):
                for i in self.str_idx:
                    for x in U.walk_values(leaf[i]):
                        if isinstance(x, Tmpl) and Sym(p) in x.parts and any(q == Sym(p) for q in x.parts[1:]):
                            return False
                return True
            self.layout_params = [p for p in cands if only_leading(p)]
            cands = [p for p in cands if p not in self.layout_params]
        if len(cands) > 1:
            raise AnalysisError(f"{self.qual}: two prefix-like parameters {cands}")
        self.prefix = cands[0] if cands else None

    def comps(self, kind):
        v = self.cases[kind][0]
        out = list(v.items) if isinstance(v, Tup) else [v]
        n = getattr(self, 'ncomp', 0)
        while len(out) < n:                       # a return path with fewer results than the leaf case
            out.append(Sym('<missing result component>'))
        return out

    def pos(self, pname):
        return self.params.index(pname)

    @property
    def where(self):
        return self.qual + self.label

    def variants(self, kinds=None):
        """the helper itself, then one copy per additional return path (an `if <cond>: return ...` that the
        kind assumption does not decide): every path has to satisfy the specification of its case"""
        out = [self]
        for k in (kinds or KINDS):
            for conds, val in self.extra[k]:
                c = copy.copy(self)
                c.cases = dict(self.cases)
                c.cases[k] = (val, self.cases[k][1])
                c.extra = {kk: [] for kk in KINDS}
                c.label = f" [{k} case, path {U.show_conds(conds)}]"
                out.append(c)
        return out


class Gen:
    def __init__(self, A, name, kinds=(None,)):
        m = A.m
        self.name = name
        self.fdef = m.get_func(name)
        self.params = [a.arg for a in self.fdef.args.args]
        self.tops = {}
        self.steps = 0
        for k in kinds:
            v, ev = U.eval_generator(m, self.fdef, k)
            self.tops[k] = (v, ev)
            self.steps += ev.steps
        self.extra = []          # additional return paths of the generator: (label, conditions, value)
        for k in kinds:
            v, ev = self.tops[k]
            arms = U.alternatives(v)
            main = arms[-1][1]
            for c, a in arms[:-1]:
                if a != main:
                    self.extra.append((k, c, a))
            self.tops[k] = (main, ev)
        self.top, self.ev = self.tops[kinds[0]]
        self.helpers = {}
        for k, (v, ev) in self.tops.items():
            for hn, fobj in ev.rec_defs.items():
                if hn not in self.helpers:
                    try:
                        U.find_type_param(fobj.fdef)
                    except AnalysisError:
                        continue        # a recursive function that is no type-shape traversal: its results stay opaque
                    self.helpers[hn] = A.helper(fobj)

    def fns(self, kind=None):
        v = self.tops[kind if kind in self.tops else next(iter(self.tops))][0]
        if isinstance(v, Fn):
            return [(None, v)]
        if isinstance(v, Tup):
            return [(i, x) for i, x in enumerate(v.items) if isinstance(x, Fn)]
        return []

    def fields_sym(self):
        for k, (v, ev) in self.tops.items():
            for L in U.loops_in(v):
                sp = L.space
                while isinstance(sp, Wrapped):
                    sp = sp.space
                d = getattr(sp, 'd', None)
                if isinstance(d, Sym) and d.name in self.params:
                    return d
        return None


class Deferred(AnalysisError):
    """the generator is outside the symbolic analysis but is decided on the concrete grid"""
    def __init__(self, gname, why):
        super().__init__(f"{gname}: {why}")
        self.gname, self.why = gname, why


def gen_or_defer(r, A, gname, kinds=(None,)):
    try:
        return A.gen(gname, kinds)
    except Deferred as d:
        r.ok(A.m, gname, f"{gname}: decided on the concrete grid", nontrivial=False,
             note=f"the induction analysis does not follow this generator ({d.why[:80]}); R-C06-grid evaluates it for every "
                  f"grid shape and judges the emitted code")
        r.deferred = getattr(r, 'deferred', 0) + 1
        return None


def grid_fields(shape):
    from collections import OrderedDict
    return OrderedDict([('x', U.Shape('bits', width=3)), ('f', shape), ('z', U.Shape('bits', width=1))])


def grid_run(m, gname, fields, total):
    """the generated functions (dicts name/args/body) and other results of a generator for a concrete field table"""
    fdef = m.get_func(gname)
    params = [a.arg for a in fdef.args.args]
    extra = {p_: Lin(total) for p_ in params[1:]} if gname == '_mk_from_bits_fns' else None
    items, cev = U.eval_concrete(m, fdef, fields, extra=extra)
    return items


class Analysis:
    def __init__(self, repo):
        self.repo = repo
        self.m = repo.mod(BS)
        self._gens = {}
        self._helpers = {}

    def gen(self, name, kinds=(None,)):
        g = self._gens.get(name)
        if g is None:
            try:
                g = Gen(self, name, kinds)
            except AnalysisError as ex:
                # a generator the symbolic (induction) analysis cannot follow -- e.g. an iterative one: if it can be
                # evaluated for every shape of the grid, the clauses are decided there (R-C06-grid) instead
                g = Deferred(name, str(ex)) if name in GEN_SPEC and self.concrete_ok(name) else ex
            self._gens[name] = g
        if isinstance(g, Exception):
            raise g
        return g

    def concrete_ok(self, name):
        from collections import OrderedDict
        try:
            for shape in grid_shapes():
                grid_run(self.m, name, grid_fields(shape), 0)
            return True
        except AnalysisError:
            return False

    def stub(self, name):
        """names / kinds of the results of a deferred generator (from its evaluation on a grid shape)"""
        items = grid_run(self.m, name, grid_fields(grid_shapes()[0]), 8)
        comps = tuple(Fn(Const(it['name']), SeqV(()), SeqV(()), Const(None)) if isinstance(it, dict) else Lin(0) for it in items)
        fdef = self.m.get_func(name)

        class Stub:
            pass
        st = Stub()
        st.name, st.fdef = name, fdef
        st.top = comps[0] if len(comps) == 1 else Tup(comps)
        st.fields_sym = lambda: Sym(fdef.args.args[0].arg)
        return st

    def helper(self, fobj):
        h = self._helpers.get(id(fobj.fdef))
        if h is None:
            h = self._helpers[id(fobj.fdef)] = Helper(self.m, fobj)
        return h

    def steps(self):
        return sum(getattr(g, 'steps', 0) for g in self._gens.values()) + sum(h.steps for h in self._helpers.values())


def analysis(repo):
    a = getattr(repo, '_c06_analysis', None)
    if a is None:
        a = repo._c06_analysis = Analysis(repo)
    return a


def extra_generator_paths(r, m, g):
    """a generator with an additional `return` under a condition the analysis cannot decide: that path must
    produce generated function(s) too; the rules analyse the fall-through path"""
    for k, conds, arm in g.extra:
        items = arm.items if isinstance(arm, Tup) else (arm,)
        cons = f"return path [{U.show_conds(conds)}]"
        if not any(isinstance(x, Fn) for x in items):
            r.bad(m, g.name, cons, f"under `{U.show_conds(conds)}` the generator returns {show(arm)[:100]} instead of the "
                  f"generated function(s): the method is missing / not generated from the fields for such types", g.fdef.lineno)
        else:
            raise AnalysisError(f"{g.name}: a second, different generated function is returned under "
                                f"`{U.show_conds(conds)}`; the rules cannot relate it to the specification")


def gen_sites(g, v):
    """occurrences of results of the generator's traversal helper(s) in a value (other recursive functions the
    generator calls are opaque)"""
    return [s_ for s_ in U.rec_sites(v) if s_.rec.fn in g.helpers]


def floor(r, n):
    """exact instance count of today's tree; enforced when the rule is otherwise clean (a rule that already
    reports a violation keeps exit status 1 instead of degrading to an analysis error)"""
    if r.findings or getattr(r, 'deferred', 0):
        r.floor = n
    else:
        r.require_floor(n)


def the_helper(g):
    if len(g.helpers) != 1:
        raise AnalysisError(f"{g.name}: expected exactly one recursive traversal helper, found {sorted(g.helpers)}")
    return next(iter(g.helpers.values()))


# ---------------------------------------------------------------------------
# shared predicates
def flags_problem(ev, loop, what):
    fl = ev.loop_flags.get(loop.id, ())
    if fl:
        return [f"the loop body contains {'/'.join(sorted(fl))}: some {what} are skipped"]
    return []


def field_space_problems(ev, loop, container, what='fields'):
    out = flags_problem(ev, loop, what)
    sp = loop.space
    if isinstance(sp, Wrapped):
        out.append(f"iterates {show(sp)}: the {what} are not visited completely in declaration order")
    elif not (isinstance(sp, (ItemsSp, KeysSp, ValuesSp)) and sp.d == container):
        out.append(f"iterates {show(sp)} instead of the {what} of {show(container)}")
    return out


def _unwrapped(sp):
    while isinstance(sp, Wrapped):
        sp = sp.space
    return sp


def field_type_value(loop):
    sp = _unwrapped(loop.space)
    if isinstance(sp, (ItemsSp, ValuesSp)):
        return LoopVar(loop, 'val')
    if isinstance(sp, KeysSp):
        return Sub(sp.d, LoopVar(loop, 'key'))
    return None


def field_key_value(loop):
    if isinstance(_unwrapped(loop.space), (ItemsSp, KeysSp)):
        return LoopVar(loop, 'key')
    return None


def list_space(ev, loop, T, want_dir):
    """(direction or None, problems)"""
    out = flags_problem(ev, loop, 'list elements')
    sp = loop.space
    d = None
    if isinstance(sp, RangeSp):
        if sp.n != Len(T):
            out.append(f"iterates {sp.desc}: not one index per element of {show(T)}")
        elif not sp.complete or sp.dir not in ('asc', 'desc'):
            out.append(f"iterates {sp.desc}: does not cover every index 0 .. len({show(T)})-1 "
                       f"(breaks e.g. for a 1- or 2-element list)")
        else:
            d = sp.dir
    elif isinstance(sp, EnumSp) and sp.v == T:
        d = 'asc'
    elif isinstance(sp, KeysSp) and sp.d == T:
        d = 'asc'
    elif isinstance(sp, Wrapped) and sp.fn == 'reversed' and \
            ((isinstance(sp.space, EnumSp) and sp.space.v == T) or (isinstance(sp.space, KeysSp) and sp.space.d == T)):
        d = 'desc'
    else:
        out.append(f"iterates {show(sp)}: not a complete pass over the elements of {show(T)}")
    if want_dir and d and d != want_dir:
        out.append(f"list elements are visited in {d}ending index order, the layout requires {want_dir}ending order")
    return d, out


def elem_type_values(loop, T):
    ok = {Sub(T, Lin(0)), Sub(T, Lin(-1)), Sub(T, LoopVar(loop, 'idx'))}
    if isinstance(loop.space, EnumSp):
        ok.add(LoopVar(loop, 'elem'))
    if isinstance(loop.space, KeysSp):
        ok.add(LoopVar(loop, 'key'))
    return ok


def prefix_shape(v):
    """classify an access-path argument: ('name', x) | ('index', base, idx) | ('attr', base, attr) | ('other', text)"""
    if not isinstance(v, Tmpl):
        return ('name', U.unlin(v))
    h = U.Holes()
    e, src, err = U.parse_text(v, h, 'eval')
    if err:
        return ('other', src)

    def hv(x):
        val = h.value(x)
        return x if val is None else val
    if isinstance(e, ast.Name):
        return ('name', hv(e.id))
    if isinstance(e, ast.Subscript) and isinstance(e.value, ast.Name) and isinstance(e.slice, ast.Name):
        return ('index', hv(e.value.id), hv(e.slice.id))
    if isinstance(e, ast.Attribute) and isinstance(e.value, ast.Name):
        return ('attr', hv(e.value.id), hv(e.attr))
    return ('other', src)


def chain(node):
    """(root name, steps) of an attribute/subscript chain; steps are ('attr', name) / ('idx', text)"""
    steps = []
    while True:
        if isinstance(node, ast.Attribute):
            steps.append(('attr', node.attr))
            node = node.value
        elif isinstance(node, ast.Subscript):
            steps.append(('idx', norm(node.slice)))
            node = node.value
        elif isinstance(node, ast.Name):
            return node.id, steps[::-1]
        else:
            return None, None


def single_rec(sites, what):
    recs = {}
    for s in sites:
        recs[s.rec.site] = s.rec
    if len(recs) != 1:
        raise AnalysisError(f"{what}: {len(recs)} distinct recursive call sites (the rule understands one per case)")
    return next(iter(recs.values()))


# ---------------------------------------------------------------------------
def rule_traversal(repo):
    r = RuleResult('R-C06-traversal',
                   "every generated method visits every leaf of every field: field loops complete and in declaration order, "
                   "every list index (to_bits descending = element 0 least significant, clone ascending), nested structs "
                   "field by field, index / field name appended to the access path, result components not crossed")
    A = analysis(repo)
    m = A.m
    seen_helpers = set()
    for gname, spec in GEN_SPEC.items():
        g = gen_or_defer(r, A, gname)
        if g is None:
            continue
        extra_generator_paths(r, m, g)
        h = the_helper(g)
        fields = g.fields_sym()
        sites = gen_sites(g, g.top)
        if fields is None or not sites:
            r.bad(m, gname, 'field loop', "the generator never traverses its field table: no field is visited", g.fdef.lineno)
            continue
        # --- field loops
        loops = []
        for s in sites:
            for L in s.loops:
                if L not in loops:
                    loops.append(L)
        for L in loops:
            pr = field_space_problems(g.ev, L, fields)
            cons = f"field loop: for {show(L.space)}"
            if pr:
                r.bad(m, gname, cons, '; '.join(pr) + " -- a field is dropped or the packing order differs from the "
                      "declaration order", g.fdef.lineno)
            else:
                r.ok(m, gname, cons)
        # --- field visit (arguments of the helper call)
        rec = single_rec(sites, gname)
        pr = []
        if any(len(s.loops) != 1 for s in sites) or len({s.loops for s in sites}) != 1:
            pr.append("the helper call is not inside exactly one loop over the fields")
        if any(s.conds for s in sites):
            pr.append("the helper call is guarded by a condition: some fields are skipped")
        L = sites[0].loops[0] if sites[0].loops else None
        if L is not None and not pr:
            if rec.fn != h.name:
                pr.append(f"calls {rec.fn}, not the traversal helper")
            if rec.args[h.pos(h.tpname)] != field_type_value(L):
                pr.append(f"type argument is {show(rec.args[h.pos(h.tpname)])}, not the type of the current field")
            if h.prefix is not None:
                sh = prefix_shape(rec.args[h.pos(h.prefix)])
                key = field_key_value(L)
                if not (key is not None and (sh == ('name', key) or sh == ('attr', 'self', key))):
                    pr.append(f"access path argument is {show(rec.args[h.pos(h.prefix)])}, not the name of the current field")
        cons = f"field visit: {show(rec)}"
        if pr:
            r.bad(m, gname, cons, '; '.join(pr), g.fdef.lineno)
        else:
            r.ok(m, gname, cons)
        # --- every generated function contains the traversal
        for idx, fn in g.fns():
            cons = f"generated {show(fn.name)} contains the field traversal"
            if gen_sites(g, fn.body):
                r.ok(m, gname, cons, nontrivial=False)
            else:
                r.bad(m, gname, cons, f"the body of the generated {show(fn.name)} does not contain the per-field statements",
                      g.fdef.lineno)
        # --- the recursive helper, case by case
        if id(h) in seen_helpers:
            continue
        seen_helpers.add(id(h))
        for hv in h.variants():
            _check_list_case(r, m, hv, spec)
            _check_struct_case(r, m, hv, spec)
    r.evaluations = A.steps()
    floor(r, 36)
    return r


def _proj_problems(h, kind):
    pr = []
    if h.is_tuple:
        for i, c in enumerate(h.comps(kind)):
            for s in U.rec_sites(c):
                if s.proj != i:
                    pr.append(f"result component {i} is built from component {s.proj} of the recursive results (crossed)")
    return pr


def _seq_problems(h, kind, rec, L, spec):
    """for helpers that return lists of emitted strings: the list/struct case must return exactly the
    concatenation, in loop order, of the element results (nothing dropped, repeated, sliced or added)"""
    pr = []
    if not spec.get('seq'):
        return pr
    comps = h.comps(kind)
    for i in h.str_idx:
        c = comps[i]
        want = Proj(rec, i) if h.is_tuple else rec
        ok = isinstance(c, SeqV)
        if ok:
            ents = list(U.flatten(c.segs))
            ok = len(ents) == 1 and ents[0][0] == Splice(want) and len(ents[0][1]) == 1 and ents[0][1][0].loop == L \
                and not ents[0][2]
        if not ok:
            pr.append(f"the returned strings are {show(c)[:160]}: not exactly the results of all elements in loop order")
    return pr


def emits_loop_header(h):
    """the list case of a statement-emitting helper puts a `for <v> in range(len(T)):` line in front of the
    element statements (the generated code iterates at run time)"""
    for c in h.comps('list'):
        if not isinstance(c, SeqV):
            continue
        for seg, loops, conds in U.flatten(c.segs):
            if isinstance(seg, Item) and not loops and U.is_stringy(seg.v):
                t = U.subst_values(seg.v, {Sym(p): Const('') for p in h.layout_params})
                hl = U.Holes()
                body, src, err = U.parse_text(mk_block(t), hl, 'exec')
                if not err and len(body) == 1 and isinstance(body[0], ast.For) and isinstance(body[0].iter, ast.Call) \
                        and norm(body[0].iter.func) == 'range':
                    return True
    return False


def mk_block(header):
    return U.mk_tmpl([header, '\n  pass'])


def _check_list_case(r, m, h, spec):
    v, ev = h.cases['list']
    sites = U.rec_sites(v)
    fn = h.where
    if not sites:
        r.bad(m, fn, 'list case: element loop', "the list case does not recurse into the elements: list fields are not "
              "traversed", h.fdef.lineno)
        return
    rec = single_rec(sites, fn + '[list]')
    if all(not s.loops for s in sites) and emits_loop_header(h):
        r.ok(m, fn, 'list case: emits a `for` loop over the elements instead of unrolling', nontrivial=False,
             note="element coverage of the EMITTED loop nest is decided on concrete shapes by R-C06-grid")
        r.ok(m, fn, f"list case: recursion {show(rec)} inside the emitted loop", nontrivial=False,
             note="index expression of the emitted access path is decided by R-C06-grid")
        return
    if any(len(s.loops) != 1 for s in sites) or len({s.loops for s in sites}) != 1:
        r.bad(m, fn, 'list case: element loop', "the recursion is not inside exactly one loop over the list elements",
              h.fdef.lineno)
        return
    L = sites[0].loops[0]
    d, pr = list_space(ev, L, h.T, spec['list_dir'])
    if any(s.conds for s in sites):
        pr.append("the recursion is guarded by a condition: some elements are skipped")
    cons = f"list case: for {show(L.space)}"
    if pr:
        r.bad(m, fn, cons, '; '.join(pr), h.fdef.lineno)
    else:
        r.ok(m, fn, cons, note=f"direction {d}")
    pr = []
    if rec.fn != h.name:
        pr.append(f"recurses through {rec.fn}")
    ta = rec.args[h.pos(h.tpname)]
    if ta not in elem_type_values(L, h.T):
        pr.append(f"recurses on {show(ta)} instead of the element type {show(h.T)}[0]")
    if h.prefix is not None:
        sh = prefix_shape(rec.args[h.pos(h.prefix)])
        if sh != ('index', Sym(h.prefix), LoopVar(L, 'idx')):
            pr.append(f"access path of an element is {show(rec.args[h.pos(h.prefix)])}, must be <prefix>[<index of this "
                      f"element>] -- every element would read/write the same object")
    pr += _proj_problems(h, 'list')
    pr += _seq_problems(h, 'list', rec, L, spec)
    cons = f"list case: recursion {show(rec)}"
    if pr:
        r.bad(m, fn, cons, '; '.join(pr), h.fdef.lineno)
    else:
        r.ok(m, fn, cons)


def _check_struct_case(r, m, h, spec):
    v, ev = h.cases['struct']
    sites = U.rec_sites(v)
    fn = h.where
    if not sites:
        if spec['struct'] == 'delegate' and v == h.cases['bits'][0]:
            r.ok(m, fn, 'struct case: treated as one leaf', nontrivial=False,
                 note="a nested struct is handled by its own generated method (induction over the nesting depth)")
        else:
            r.bad(m, fn, 'struct case: nested field loop', "a nested struct field is not traversed field by field",
                  h.fdef.lineno)
        return
    rec = single_rec(sites, fn + '[struct]')
    if any(len(s.loops) != 1 for s in sites) or len({s.loops for s in sites}) != 1:
        r.bad(m, fn, 'struct case: nested field loop', "the recursion is not inside exactly one loop over the nested fields",
              h.fdef.lineno)
        return
    L = sites[0].loops[0]
    pr = field_space_problems(ev, L, FieldsOf(h.T), 'nested fields')
    if any(s.conds for s in sites):
        pr.append("the recursion is guarded by a condition: some nested fields are skipped")
    cons = f"struct case: for {show(L.space)}"
    if pr:
        r.bad(m, fn, cons, '; '.join(pr), h.fdef.lineno)
    else:
        r.ok(m, fn, cons)
    pr = []
    if rec.fn != h.name:
        pr.append(f"recurses through {rec.fn}")
    if rec.args[h.pos(h.tpname)] != field_type_value(L):
        pr.append(f"recurses on {show(rec.args[h.pos(h.tpname)])} instead of the type of the nested field")
    if h.prefix is not None:
        sh = prefix_shape(rec.args[h.pos(h.prefix)])
        if sh != ('attr', Sym(h.prefix), field_key_value(L)):
            pr.append(f"access path of a nested field is {show(rec.args[h.pos(h.prefix)])}, must be <prefix>.<field name>")
    pr += _proj_problems(h, 'struct')
    pr += _seq_problems(h, 'struct', rec, L, spec)
    cons = f"struct case: recursion {show(rec)}"
    if pr:
        r.bad(m, fn, cons, '; '.join(pr), h.fdef.lineno)
    else:
        r.ok(m, fn, cons)


# ---------------------------------------------------------------------------
# R-C06-leaf: emitted leaf statements and function frames
def one_item(comp):
    """template of a component holding exactly one emitted string (not inside a loop / condition), else None"""
    if isinstance(comp, SeqV):
        ents = list(U.flatten(comp.segs))
        if len(ents) == 1 and isinstance(ents[0][0], Item) and not ents[0][1] and not ents[0][2]:
            return ents[0][0].v
        return None
    if stringish(comp):
        return comp
    return None


def join_info(v):
    """(separator text, reversed?, SeqV) of a Join value"""
    if not isinstance(v, Join):
        return None
    sep = U.tmpl_text(v.sep)
    seq, rev = v.seq, False
    while True:
        if isinstance(seq, Rev):
            rev, seq = not rev, seq.v
        elif isinstance(seq, SeqV) and len(seq.segs) == 1 and isinstance(seq.segs[0], Splice) \
                and isinstance(seq.segs[0].v, (Rev, SeqV)):
            seq = seq.segs[0].v
        else:
            break
    if not isinstance(seq, SeqV) or sep is None:
        return None
    return sep, rev, seq


def top_visit(g, h):
    """(field loop, Rec of the field visit)"""
    sites = gen_sites(g, g.top)
    if not sites:
        raise AnalysisError(f"{g.name}: no field visit")
    rec = single_rec(sites, g.name)
    if not sites[0].loops:
        raise AnalysisError(f"{g.name}: field visit outside a loop")
    return sites[0].loops[0], rec


def compose(h, tmpl, rec):
    """the leaf template with the top-level access path substituted for the prefix parameter"""
    mapping = {Sym(p): Const('') for p in getattr(h, 'layout_params', [])}
    if h.prefix is not None:
        mapping[Sym(h.prefix)] = rec.args[h.pos(h.prefix)]
    return U.subst_values(tmpl, mapping) if mapping else tmpl


def path_problem(node, root, hl, key, what):
    rt, steps = chain(node)
    kn = hl.by_value.get(key)
    if rt is None:
        return f"{what} is `{norm(node)}`, not an access path"
    if rt != root:
        return f"{what} is rooted at `{rt}`, must be `{root}`"
    if kn is None or steps != [('attr', kn)]:
        return f"{what} is `{norm(node)}`, must be {root}.<field>"
    return None


def leaf_problems(kind_of_fn, src_tmpl, key, other_name='other'):
    """parse the emitted leaf text and compare its shape with the required action"""
    hl = U.Holes()
    if kind_of_fn in ('__imatmul__', '__ilshift__', '_flip'):
        body, src, err = U.parse_text(src_tmpl, hl, 'exec')
        if err or len(body) != 1:
            return [f"emitted leaf `{src}` is not one statement ({err})"], src
        st = body[0]
        if kind_of_fn == '_flip':
            ok = isinstance(st, ast.Expr) and isinstance(st.value, ast.Call) and isinstance(st.value.func, ast.Attribute) \
                and st.value.func.attr == '_flip' and not st.value.args and not st.value.keywords
            if not ok:
                return [f"emitted leaf `{src}` is not `self.<field>._flip()`: the pending value of the leaf is not committed"], src
            p = path_problem(st.value.func.value, 'self', hl, key, 'flipped object')
            return ([p] if p else []), src
        opcls, sym = (ast.MatMult, '@=') if kind_of_fn == '__imatmul__' else (ast.LShift, '<<=')
        if isinstance(st, ast.Assign):
            return [f"emitted leaf `{src}` is a plain assignment: the field of the target is rebound to (aliases) the "
                    f"source's object instead of receiving its value"], src
        if not isinstance(st, ast.AugAssign):
            return [f"emitted leaf `{src}` is not `self.<field> {sym} other.<field>`"], src
        pr = []
        if not isinstance(st.op, opcls):
            pr.append(f"emitted leaf `{src}` applies {type(st.op).__name__}, {kind_of_fn} must apply `{sym}` "
                      f"({'blocking: visible immediately' if sym == '@=' else 'non-blocking: visible after _flip'})")
        for node, root, what in ((st.target, 'self', 'copy target'), (st.value, other_name, 'copy source')):
            p = path_problem(node, root, hl, key, what)
            if p:
                pr.append(p)
        return pr, src
    body, src, err = U.parse_text(src_tmpl, hl, 'eval')
    if err:
        return [f"emitted leaf `{src}` is not an expression ({err})"], src
    e = body
    if kind_of_fn in ('clone', '__deepcopy__'):
        ok = isinstance(e, ast.Call) and isinstance(e.func, ast.Attribute) and e.func.attr in ('clone', '__deepcopy__') \
            and not e.keywords and len(e.args) == (0 if e.func.attr == 'clone' else 1)
        if not ok:
            return [f"emitted leaf `{src}` is not `<field>.clone()`: the copy shares (aliases) the leaf object with the "
                    f"original, a later @= on one is seen by the other"], src
        p = path_problem(e.func.value, 'self', hl, key, 'cloned object')
        return ([p] if p else []), src
    if kind_of_fn == 'to_bits':
        p = path_problem(e, 'self', hl, key, 'concat operand')
        return ([p] if p else []), src
    raise AnalysisError(f"no leaf specification for generated function {kind_of_fn}")


def class_test_polarity(test, a0, a1):
    """True iff `test` holds exactly when the classes of a0 and a1 differ"""
    res = []
    for same in (True, False):
        def leaf(e, same=same):
            who = None
            if isinstance(e, ast.Attribute) and e.attr == '__class__' and isinstance(e.value, ast.Name):
                who = e.value.id
            elif isinstance(e, ast.Call) and norm(e.func) == 'type' and len(e.args) == 1 and isinstance(e.args[0], ast.Name):
                who = e.args[0].id
            if who == a0:
                return 'A'
            if who == a1:
                return 'A' if same else 'B'
            return NotImplemented
        try:
            res.append(bool(Evaluator({}, leaf=leaf).ev(test)))
        except AnalysisError:
            return None
    return res == [False, True]


def frame_copy(fd, hl, want_params=2):
    """problems of an emitted __imatmul__/__ilshift__ frame"""
    pr = []
    names = [a.arg for a in fd.args.args]
    if len(names) != want_params:
        return [f"takes parameters {names}, expected (self, other)"]
    a0, a1 = names
    body = fd.body
    ph = [i for i, st in enumerate(body) if isinstance(st, ast.Expr) and isinstance(st.value, ast.Name)
          and isinstance(hl.value(st.value.id), Splice)]
    nested = [n for n in ast.walk(fd) if isinstance(n, ast.Name) and isinstance(hl.value(n.id), Splice)]
    if not ph or len(nested) != len(ph):
        pr.append("the per-field copy statements are not at the top level of the function body")
    last = body[-1]
    if not (isinstance(last, ast.Return) and isinstance(last.value, ast.Name) and last.value.id == a0):
        pr.append(f"does not end with `return {a0}`: `x.f @= v` / `x.f <<= v` rebinds x.f to the method's result, so a "
                  f"nested struct field would be replaced by None")
    pro = [st for st in body[:ph[0]] if isinstance(st, ast.If)] if ph else []
    if not pro:
        pr.append("no conversion prologue: a Bits value or a different struct type on the right-hand side is not "
                  "converted with from_bits(to_bits())")
    for st in pro:
        pol = class_test_polarity(st.test, a0, a1)
        if pol is not True:
            pr.append(f"prologue condition `{norm(st.test)}` is not `classes differ`")
        good = len(st.body) == 1 and isinstance(st.body[0], ast.Assign) and len(st.body[0].targets) == 1 \
            and norm(st.body[0].targets[0]) == a1 and not st.orelse
        if good:
            v = st.body[0].value
            good = isinstance(v, ast.Call) and isinstance(v.func, ast.Attribute) and v.func.attr == 'from_bits' \
                and class_of(v.func.value) == a0 and len(v.args) == 1 and isinstance(v.args[0], ast.Call) \
                and norm(v.args[0].func) == f"{a1}.to_bits" and not v.args[0].args
        if not good and is_direct_unpack(st, a0, a1, hl):
            continue        # leaf-wise unpacking of the packed value: its bit positions are judged by R-C06-grid
        if not good:
            pr.append(f"prologue `{norm(st.body)[:80]}` does not rebind {a1} to {a0}.__class__.from_bits({a1}.to_bits())")
    return pr


def is_direct_unpack(st, a0, a1, hl):
    """the foreign-right-hand-side block normalises `other` with to_bits() and then stores slices of it leaf by leaf
    (emitted statement lines `self.<leaf> op= other[lo:hi]`), ending with `return self`"""
    if st.orelse or not st.body:
        return False
    stores = 0
    for x in st.body:
        if isinstance(x, ast.Assign) and len(x.targets) == 1 and norm(x.targets[0]) == a1 and norm(x.value) == f"{a1}.to_bits()":
            continue
        if isinstance(x, ast.Assert):
            continue
        if isinstance(x, ast.AugAssign) and isinstance(x.value, ast.Subscript) and isinstance(x.value.slice, ast.Slice) \
                and chain(x.target)[0] == a0 and chain(x.value.value)[0] == a1:
            stores += 1
            continue
        if isinstance(x, ast.Return) and norm(x.value) == a0 and x is st.body[-1]:
            continue
        return False
    return stores > 0


def generator_defers_to_grid(g):
    """R-C06-traversal / R-C06-leaf left a clause of this generator to the grid (emitted loops, direct unpacking)"""
    if any(emits_loop_header(h) for h in g.helpers.values()):
        return True
    for idx, fn in g.fns():
        if U.tmpl_text(fn.name) in ('__imatmul__', '__ilshift__'):
            hl = U.Holes()
            fd, src, err = U.parse_fn(fn, hl)
            if fd is not None and len(fd.args.args) == 2:
                a0, a1 = [a.arg for a in fd.args.args]
                if any(isinstance(st, ast.If) and is_direct_unpack(st, a0, a1, hl) for st in fd.body):
                    return True
    return False


def class_of(e):
    if isinstance(e, ast.Attribute) and e.attr == '__class__' and isinstance(e.value, ast.Name):
        return e.value.id
    if isinstance(e, ast.Call) and norm(e.func) == 'type' and len(e.args) == 1 and isinstance(e.args[0], ast.Name):
        return e.args[0].id
    return None


def name_bound_to_type(v, ev, T):
    """the emitted constructor name must be the name registered for T in the name->type table that becomes
    the generated function's globals.  Returns (table symbol or None, problems)"""
    v = U.unlin(v)

    def arm(x, conds):
        x = U.unlin(x)
        if isinstance(x, Sub) and x.idx == T and isinstance(x.v, Sym):
            return x.v, None
        for cont, key, val, sc in ev.stores:
            if key == T and val == x and all(c in conds for c in sc) and isinstance(cont, Sym):
                return cont, None
        return None, f"constructor name {show(x)} is not registered for {show(T)} in the name table: the generated " \
                     f"from_bits would look up an unbound / wrong class"
    if isinstance(v, Phi):
        ta, pa = arm(v.a, ((v.test, True),))
        tb, pb = arm(v.b, ((v.test, False),))
        pr = [p for p in (pa, pb) if p]
        if not pr and ta != tb:
            pr.append("the two branches use different name tables")
        return ta, pr
    t, p = arm(v, ())
    return t, ([p] if p else [])


def rule_leaf(repo):
    r = RuleResult('R-C06-leaf',
                   "emitted leaf actions and function frames: self.p @= other.p / self.p <<= other.p / self.p._flip() / "
                   "p.clone() / concat(self.p...) / cls(other[lo:hi]...), return self, conversion prologue; a leaf is "
                   "never emitted as a bare reference to the source object (no aliasing)")
    A = analysis(repo)
    m = A.m
    for gname in ('_mk_imatmul_fn', '_mk_ff_fn', '_mk_clone_fn', '_mk_deepcopy_fn', '_mk_nbits_to_bits_fn'):
        g = gen_or_defer(r, A, gname)
        if g is None:
            continue
        h = the_helper(g)
        L, rec = top_visit(g, h)
        key = field_key_value(L)
        for idx, fn in g.fns():
            fname = U.tmpl_text(fn.name)
            if fname is None:
                raise AnalysisError(f"{gname}: generated function with a computed name")
            projs = {s.proj for s in gen_sites(g, fn.body)}
            if len(projs) != 1:
                r.bad(m, gname, f"generated {fname}: body", "the generated body mixes different components of the "
                      "traversal results (or contains none)", g.fdef.lineno)
                continue
            k = next(iter(projs)) or 0
            # leaf actions (Bits leaf and nested-struct leaf), on every return path of the case
            for hv in h.variants(('bits', 'struct')):
                kinds = ('bits', 'struct') if not hv.label else tuple(kd for kd in ('bits', 'struct')
                                                                      if hv.label.startswith(f" [{kd} "))
                _leaf_actions(r, m, hv, kinds, k, fname, rec, key)
            # list case wrapper of clone: a list literal of all element copies
            if fname in ('clone', '__deepcopy__') and gname == '_mk_clone_fn':
                for hv in h.variants(('list',)):
                    _clone_list_wrapper(r, m, hv)
            # frame
            hl = U.Holes()
            fd, src, err = U.parse_fn(fn, hl)
            cons = f"generated {fname}: frame"
            if fd is None:
                r.bad(m, gname, cons, f"the generated source does not parse: {err}: {src[:120]}", g.fdef.lineno)
                continue
            pr = []
            names = [a.arg for a in fd.args.args]
            if fname in ('__imatmul__', '__ilshift__'):
                pr = frame_copy(fd, hl)
            elif fname == '_flip':
                if len(names) != 1:
                    pr.append(f"takes parameters {names}, expected (self)")
                if not fd.body or not all(isinstance(st, ast.Expr) and isinstance(st.value, ast.Name)
                                          and isinstance(hl.value(st.value.id), Splice) for st in fd.body):
                    pr.append("body is not exactly the per-leaf flip statements")
            elif fname in ('clone', '__deepcopy__'):
                want = 1 if fname == 'clone' else 2
                if len(names) != want:
                    pr.append(f"takes parameters {names}, expected {want} "
                              f"({'copy.deepcopy passes the memo dict' if want == 2 else 'self'})")
                st = fd.body[0] if len(fd.body) == 1 else None
                ok = isinstance(st, ast.Return) and isinstance(st.value, ast.Call) and names \
                    and class_of(st.value.func) == names[0] and not st.value.keywords and len(st.value.args) == 1 \
                    and isinstance(st.value.args[0], ast.Name) and isinstance(hl.value(st.value.args[0].id), Rec)
                if not ok:
                    pr.append("body is not `return self.__class__(<one positional copy per field, in field order>)`")
            elif fname == 'to_bits':
                if len(names) != 1:
                    pr.append(f"takes parameters {names}, expected (self)")
                st = fd.body[0] if len(fd.body) == 1 else None
                ok = isinstance(st, ast.Return) and isinstance(st.value, ast.Call) and isinstance(st.value.func, ast.Name) \
                    and not st.value.keywords and len(st.value.args) == 1 and isinstance(st.value.args[0], ast.Name)
                ji = join_info(hl.value(st.value.args[0].id)) if ok else None
                if not ok or ji is None:
                    pr.append("body is not `return concat(<all leaf operands>)`")
                else:
                    sep, rev, seq = ji
                    if sep.strip() != ',':
                        pr.append(f"operands are joined with {sep!r}, not with a comma")
                    if rev:
                        pr.append("the operand list is reversed before it is passed to concat: the first field would be "
                                  "least significant")
                    ents = list(U.flatten(seq.segs))
                    if not (len(ents) == 1 and isinstance(ents[0][0], Splice) and len(ents[0][1]) == 1 and not ents[0][2]):
                        pr.append(f"operand list is {show(seq)}: not exactly the leaves of every field")
                    cn = st.value.func.id
                    gl = fn.globs
                    bound = [s.v.items[1] for s in gl.segs if isinstance(s, Item) and s.v.items[0] == Const(cn)] \
                        if isinstance(gl, DictV) else []
                    if bound != [Sym('concat')] or m.imports.get('concat', (None, None))[1] != 'concat' \
                            or not m.imports['concat'][0].endswith('helpers'):
                        pr.append(f"`{cn}` in the generated function is not bound to helpers.concat")
            if pr:
                r.bad(m, gname, cons, '; '.join(pr), g.fdef.lineno)
            else:
                r.ok(m, gname, cons)
    if gen_or_defer(r, A, '_mk_from_bits_fns') is not None:
        _from_bits_leaf(r, A)
    r.evaluations = A.steps()
    floor(r, 23)
    return r


def _leaf_actions(r, m, h, kinds, k, fname, rec, key):
    done = []
    for kind in kinds:
        comps = h.comps(kind)
        if kind == 'struct' and U.rec_sites(h.cases['struct'][0]):
            continue      # recursed field by field: no leaf here
        if k >= len(comps):
            r.bad(m, h.where, f"generated {fname}: {kind} leaf", f"the {kind} case returns {show(h.cases[kind][0])}: "
                  f"component {k} (the statements of {fname}) is missing", h.fdef.lineno)
            continue
        t = one_item(comps[k])
        cons0 = f"generated {fname}: {kind} leaf"
        if t is None:
            r.bad(m, h.where, cons0, f"the {kind} case emits {show(comps[k])}: not exactly one leaf action",
                  h.fdef.lineno)
            continue
        if t in done:
            r.ok(m, h.where, cons0 + ' (same template as the Bits leaf)', nontrivial=False)
            continue
        done.append(t)
        pr, src = leaf_problems(fname, compose(h, t, rec), key)
        cons = f"{cons0}: {show(t)}"
        if pr:
            r.bad(m, h.where, cons, '; '.join(pr), h.fdef.lineno)
        else:
            r.ok(m, h.where, cons)


def _clone_list_wrapper(r, m, h):
    v = h.cases['list'][0]
    cons = "clone list case: list literal of the element copies"
    hl = U.Holes()
    e, src, err = U.parse_text(v, hl, 'eval') if stringish(v) else (None, show(v), 'not a string')
    ok = err is None and isinstance(e, ast.List) and len(e.elts) == 1 and isinstance(e.elts[0], ast.Name)
    ji = join_info(hl.value(e.elts[0].id)) if ok else None
    if ji is None:
        r.bad(m, h.where, cons, f"the list case emits `{src}`, not `[<copy of element 0>, <copy of element 1>, ...]`",
              h.fdef.lineno)
        return
    sep, rev, seq = ji
    pr = []
    if sep.strip() != ',':
        pr.append(f"elements joined with {sep!r}")
    if rev:
        pr.append("the element copies are reversed: element k of the copy is element n-1-k of the original")
    ents = list(U.flatten(seq.segs))
    if not (len(ents) == 1 and isinstance(ents[0][0], Item) and isinstance(ents[0][0].v, Rec) and len(ents[0][1]) == 1
            and not ents[0][2]):
        pr.append(f"elements are {show(seq)}: not exactly one copy per element")
    if pr:
        r.bad(m, h.where, cons, '; '.join(pr), h.fdef.lineno)
    else:
        r.ok(m, h.where, cons)


def from_bits_parts(A):
    """shared by leaf / width / mirror: the analysed pieces of from_bits"""
    g = A.gen('_mk_from_bits_fns')
    h = the_helper(g)
    if not h.is_tuple or len(h.str_idx) != 1 or len(h.cnt_idx) != 1 or h.counter is None:
        raise AnalysisError(f"{h.qual}: expected a (counter, strings) result")
    return g, h, h.cnt_idx[0], h.str_idx[0]


def _from_bits_leaf(r, A):
    m = A.m
    g, h, ci, si = from_bits_parts(A)
    fns = g.fns()
    if len(fns) != 1:
        raise AnalysisError("_mk_from_bits_fns does not return one generated function")
    fn = fns[0][1]
    hl = U.Holes()
    fd, src, err = U.parse_fn(fn, hl)
    cons = "generated from_bits: frame"
    other = None
    if fd is None:
        r.bad(m, g.name, cons, f"the generated source does not parse: {err}", g.fdef.lineno)
    else:
        names = [a.arg for a in fd.args.args]
        pr = []
        if len(names) != 2:
            pr.append(f"takes parameters {names}, expected (cls, other)")
        else:
            c, other = names
            last = fd.body[-1]
            ok = isinstance(last, ast.Return) and isinstance(last.value, ast.Call) and norm(last.value.func) == c \
                and not last.value.keywords and len(last.value.args) == 1 and isinstance(last.value.args[0], ast.Name)
            ji = join_info(hl.value(last.value.args[0].id)) if ok else None
            if ji is None:
                pr.append(f"does not end with `return {c}(<one positional argument per field>)`")
            else:
                sep, rev, seq = ji
                if sep.strip() != ',':
                    pr.append(f"constructor arguments joined with {sep!r}")
                if rev:
                    pr.append("constructor arguments are reversed: the first field would receive the last field's bits")
                ents = list(U.flatten(seq.segs))
                if not (len(ents) == 1 and isinstance(ents[0][0], Splice) and len(ents[0][1]) == 1 and not ents[0][2]):
                    pr.append(f"constructor arguments are {show(seq)}: not exactly one per field")
            pre = fd.body[:-1]
            if not any(isinstance(st, ast.Assert) and isinstance(st.test, ast.Compare) and len(st.test.ops) == 1
                       and isinstance(st.test.ops[0], ast.Eq)
                       and {norm(st.test.left), norm(st.test.comparators[0])} == {f"{c}.nbits", f"{other}.nbits"}
                       for st in pre):
                pr.append(f"no `assert {c}.nbits == {other}.nbits`: a value of another width would be unpacked silently")
            if not any(isinstance(st, ast.Assign) and norm(st.targets[0]) == other and norm(st.value) == f"{other}.to_bits()"
                       for st in pre):
                pr.append(f"`{other}` is not normalised with {other}.to_bits() before it is sliced")
        if pr:
            r.bad(m, g.name, cons, '; '.join(pr), g.fdef.lineno)
        else:
            r.ok(m, g.name, cons)
    h0 = h
    for h in h0.variants():
        # name table -> globals (inverted, injective)
        table = None
        v, ev = h.cases['struct']
        t = one_item(h.comps('struct')[si])
        cons = "from_bits struct case: <class name>(<one argument per nested field>)"
        if t is None:
            r.bad(m, h.where, cons, f"the struct case emits {show(h.comps('struct')[si])}, not one constructor call", h.fdef.lineno)
        else:
            hl2 = U.Holes()
            e, src2, err2 = U.parse_text(t, hl2, 'eval')
            ok = err2 is None and isinstance(e, ast.Call) and isinstance(e.func, ast.Name) and not e.keywords \
                and len(e.args) == 1 and isinstance(e.args[0], ast.Name) and hl2.value(e.func.id) is not None
            ji = join_info(hl2.value(e.args[0].id)) if ok else None
            if ji is None:
                r.bad(m, h.where, cons, f"the struct case emits `{src2}`", h.fdef.lineno)
            else:
                sep, rev, seq = ji
                pr = []
                if sep.strip() != ',':
                    pr.append(f"arguments joined with {sep!r}")
                if rev:
                    pr.append("nested constructor arguments are reversed w.r.t. the nested field order")
                ents = list(U.flatten(seq.segs))
                if not (len(ents) == 1 and isinstance(ents[0][0], Splice) and len(ents[0][1]) == 1 and not ents[0][2]):
                    pr.append(f"arguments are {show(seq)}: not exactly one per nested field")
                table, p2 = name_bound_to_type(hl2.value(e.func.id), ev, h.T)
                pr += p2
                if pr:
                    r.bad(m, h.where, cons, '; '.join(pr), h.fdef.lineno)
                else:
                    r.ok(m, h.where, cons)
        cons = "from_bits globals: inverted name table"
        gl = fn.globs
        pr = []
        ok = isinstance(gl, DictV) and len(gl.segs) == 1 and isinstance(gl.segs[0], LoopSeg) and len(gl.segs[0].segs) == 1 \
            and isinstance(gl.segs[0].segs[0], Item)
        if not ok:
            pr.append(f"globals of the generated from_bits are {show(gl)}, not the inverted name table")
        else:
            Lg = gl.segs[0].loop
            src_d = Lg.space.d if isinstance(Lg.space, ItemsSp) else None
            if not (isinstance(src_d, DictV) and table is not None and src_d.name == table.name):
                pr.append(f"globals are built from {show(Lg.space)}, not from the table the struct case registers its names in")
            if gl.segs[0].segs[0].v != Tup((LoopVar(Lg, 'val'), LoopVar(Lg, 'key'))):
                pr.append("globals do not map name -> type (the table type -> name is not inverted)")
            if table is not None and not any(
                    isinstance(a[0], Cmp) and a[0].op == 'Eq' and {type(a[0].l), type(a[0].r)} == {Len} and not a[1] and not a[2]
                    and {show(a[0].l), show(a[0].r)} >= {show(Len(gl))} for a in assert_atoms(g.ev)):
                pr.append("no assertion that the inversion is injective (two types registered under one name would "
                          "silently construct the wrong class)")
        if pr:
            r.bad(m, g.name, cons, '; '.join(pr), g.fdef.lineno)
        else:
            r.ok(m, g.name, cons)
        # list case: one list literal
        t = one_item(h.comps('list')[si])
        cons = "from_bits list case: [<one argument per element>]"
        hl3 = U.Holes()
        e, src3, err3 = U.parse_text(t, hl3, 'eval') if t is not None else (None, show(h.comps('list')[si]), 'x')
        ok = err3 is None and isinstance(e, ast.List) and len(e.elts) == 1 and isinstance(e.elts[0], ast.Name)
        ji = join_info(hl3.value(e.elts[0].id)) if ok else None
        if ji is None:
            r.bad(m, h.where, cons, f"the list case emits `{src3}`, not one list literal", h.fdef.lineno)
        else:
            sep, rev, seq = ji
            ents = list(U.flatten(seq.segs))
            pr = []
            if sep.strip() != ',':
                pr.append(f"elements joined with {sep!r}")
            if not (len(ents) == 1 and isinstance(ents[0][0], Splice) and len(ents[0][1]) == 1 and not ents[0][2]):
                pr.append(f"elements are {show(seq)}: not exactly one per list element")
            if pr:
                r.bad(m, h.where, cons, '; '.join(pr), h.fdef.lineno)
            else:
                r.ok(m, h.where, cons, note='reversed' if rev else 'in consumption order')
        # bits leaf: a slice of the packed value
        t = one_item(h.comps('bits')[si])
        cons = "from_bits Bits leaf: other[lo:hi]"
        hl4 = U.Holes()
        e, src4, err4 = U.parse_text(t, hl4, 'eval') if t is not None else (None, show(h.comps('bits')[si]), 'x')
        ok = err4 is None and isinstance(e, ast.Subscript) and isinstance(e.value, ast.Name) and isinstance(e.slice, ast.Slice) \
            and e.slice.step is None and e.slice.lower is not None and e.slice.upper is not None
        if not ok:
            r.bad(m, h.where, cons, f"the Bits leaf emits `{src4}`, not a slice of the packed value", h.fdef.lineno)
        elif other is not None and e.value.id != other:
            r.bad(m, h.where, cons, f"the leaf slices `{e.value.id}`, the generated function's packed operand is `{other}`",
                  h.fdef.lineno)
        else:
            r.ok(m, h.where, cons + f": {show(t)}")


def from_list_reversed(A, h=None):
    g, h0, ci, si = from_bits_parts(A)
    h = h or h0
    t = one_item(h.comps('list')[si])
    if t is None:
        return None
    hl = U.Holes()
    e, src, err = U.parse_text(t, hl, 'eval')
    if err or not (isinstance(e, ast.List) and len(e.elts) == 1 and isinstance(e.elts[0], ast.Name)):
        return None
    ji = join_info(hl.value(e.elts[0].id))
    return None if ji is None else ji[1]


# ---------------------------------------------------------------------------
# R-C06-width: bit-position bookkeeping
def to_bits_parts(A):
    g = A.gen('_mk_nbits_to_bits_fn')
    h = the_helper(g)
    if not h.is_tuple or len(h.str_idx) != 1 or len(h.cnt_idx) != 1 or h.counter is None:
        raise AnalysisError(f"{h.qual}: expected a (counter, strings) result")
    return g, h, h.cnt_idx[0], h.str_idx[0]


def assert_atoms(ev):
    """(fact, loops, conds) for every asserted fact of an evaluation: `assert a and b` == two asserts;
    `if c: raise` is recorded by the evaluator as the fact `not c`"""
    def split(t):
        if isinstance(t, U.BoolV) and t.op == 'and':
            out = []
            for x in t.vals:
                out += split(x)
            return out
        if isinstance(t, U.Not) and isinstance(t.v, Cmp) and t.v.op in ('NotEq', 'IsNot'):
            return [Cmp({'NotEq': 'Eq', 'IsNot': 'Is'}[t.v.op], t.v.l, t.v.r)]
        return [t]
    for test, loops, conds, node in ev.asserts:
        for a in split(test):
            yield a, loops, conds


def threaded_problems(fold, h, ci, init, what):
    """`fold` must be: counter = init; for <every element>: counter = helper(..., counter)[ci]"""
    if not isinstance(fold, Fold):
        return [f"the {what} is {show(fold)}: it is not carried through the recursive calls (every leaf must move it)"], None
    pr = []
    if U.unlin(fold.init) != U.unlin(init) and fold.init != init:
        pr.append(f"the {what} starts at {show(fold.init)}, must start at {show(init)}")
    step = fold.step
    if not (isinstance(step, Proj) and isinstance(step.v, Rec) and step.k == ci):
        pr.append(f"the {what} is updated to {show(step)}, not to the position returned by the recursive call")
        return pr, None
    rec = step.v
    if rec.fn != h.name:
        pr.append(f"the {what} comes from {rec.fn}")
    arg = rec.args[h.pos(h.counter)]
    if arg != Carried(fold.loop, fold.name):
        pr.append(f"the recursive call receives {show(arg)} as position, not the running {what}: consecutive elements "
                  f"would overlap")
    return pr, rec


def rule_width(repo):
    r = RuleResult('R-C06-width',
                   "bit positions: to_bits counts from 0 and adds type_.nbits per leaf (nbits = sum of leaf widths); from_bits "
                   "counts down from the total by type_.nbits per leaf, slices [end-nbits:end], asserts it ends at 0; the "
                   "counter is threaded through every recursive call; every element yields exactly one constructor argument")
    A = analysis(repo)
    m = A.m
    if any(gen_or_defer(r, A, gn_) is None for gn_ in ('_mk_nbits_to_bits_fn', '_mk_from_bits_fns')):
        return r            # absolute bit positions and nbits of every grid shape are judged by R-C06-grid
    # ---- to_bits
    g, h, ci, si = to_bits_parts(A)
    top = g.top
    cons = "to_bits: total width accumulated over the fields from 0"
    if not (isinstance(top, Tup) and len(top.items) == 2):
        raise AnalysisError("_mk_nbits_to_bits_fn does not return (total, function)")
    totals = [x for x in top.items if not isinstance(x, Fn)]
    if len(totals) != 1:
        raise AnalysisError("_mk_nbits_to_bits_fn: no total width component")
    pr, rec = threaded_problems(totals[0], h, ci, Lin(0), 'total width')
    if rec is not None:
        L, vrec = top_visit(g, h)
        if rec != vrec or totals[0].loop != L:
            pr.append("the width is accumulated over a different traversal than the one that emits the operands")
    (r.bad(m, g.name, cons, '; '.join(pr), g.fdef.lineno) if pr else r.ok(m, g.name, cons))
    h0 = h
    for h in h0.variants():
        for kind in ('list', 'struct'):
            comps = h.comps(kind)
            cons = f"to_bits {kind} case: position threaded through every element"
            pr, rec = threaded_problems(comps[ci], h, ci, Sym(h.counter), 'bit position')
            if rec is not None:
                ss = U.rec_sites(comps[si])
                if not ss or any(s.rec != rec or s.loops != (comps[ci].loop,) for s in ss):
                    pr.append("operands and positions come from different recursive calls / loops")
            (r.bad(m, h.where, cons, '; '.join(pr), h.fdef.lineno) if pr else r.ok(m, h.where, cons))
        leaf = h.comps('bits')
        cons = f"to_bits Bits leaf: position {show(leaf[ci])}"
        want = U.lin(Sym(h.counter)).add(U.lin(Attr(h.T, 'nbits')))
        if U.lin(leaf[ci]) != want:
            r.bad(m, h.where, cons, f"a leaf advances the position to {show(leaf[ci])}, must be {show(want)}: the reported nbits "
                  f"differs from the sum of the leaf widths", h.fdef.lineno)
        else:
            r.ok(m, h.where, cons)
        cons = "to_bits Bits leaf: exactly one concat operand"
        if one_item(leaf[si]) is None:
            r.bad(m, h.where, cons, f"a leaf contributes {show(leaf[si])}", h.fdef.lineno)
        else:
            r.ok(m, h.where, cons, nontrivial=False)
    # ---- from_bits
    g, h, ci, si = from_bits_parts(A)
    L, vrec = top_visit(g, h)
    carg = vrec.args[h.pos(h.counter)]
    cons = "from_bits: position counts down from the total over the fields"
    fold = None
    if not isinstance(carg, Carried):
        r.bad(m, g.name, cons, f"the field visit receives {show(carg)} as position, not a running counter", g.fdef.lineno)
    else:
        try:
            fold = U.freeze(g.ev.final_env.lookup(carg.name))
        except Exception:
            fold = None
        if len(g.params) < 2:
            raise AnalysisError("_mk_from_bits_fns lost its total-width parameter")
        total = [p for p in g.params if Sym(p) != g.fields_sym()]
        pr, rec = threaded_problems(fold, h, ci, Sym(total[0]), 'bit position')
        if rec is not None and (rec != vrec or fold.loop != L):
            pr.append("the position is threaded through a different traversal than the one that emits the arguments")
        (r.bad(m, g.name, cons, '; '.join(pr), g.fdef.lineno) if pr else r.ok(m, g.name, cons))
    cons = "from_bits: assert <final position> == 0"
    found = False
    for test, loops, conds in assert_atoms(g.ev):
        if isinstance(test, Cmp) and test.op == 'Eq' and not loops and not conds and fold is not None:
            a, b = U.unlin(test.l), U.unlin(test.r)
            if (a == fold and b == Lin(0)) or (b == fold and a == Lin(0)):
                found = True
    if found:
        r.ok(m, g.name, cons)
    else:
        r.bad(m, g.name, cons, "the generator does not assert that unpacking consumed exactly the total width: a "
              "to_bits/from_bits width disagreement would go unnoticed and fields would be cut from shifted positions",
              g.fdef.lineno)
    h0 = h
    for h in h0.variants():
        for kind in ('list', 'struct'):
            comps = h.comps(kind)
            cons = f"from_bits {kind} case: position threaded through every element"
            pr, rec = threaded_problems(comps[ci], h, ci, Sym(h.counter), 'bit position')
            if rec is not None:
                ss = U.rec_sites(comps[si])
                if not ss or any(s.rec != rec or s.loops != (comps[ci].loop,) for s in ss):
                    pr.append("arguments and positions come from different recursive calls / loops")
            (r.bad(m, h.where, cons, '; '.join(pr), h.fdef.lineno) if pr else r.ok(m, h.where, cons))
            cons = f"from_bits {kind} case: exactly one constructor argument"
            if one_item(comps[si]) is None:
                r.bad(m, h.where, cons, f"the {kind} case returns {show(comps[si])}: the caller (reversal of list elements, "
                      f"positional constructor arguments) relies on one string per element", h.fdef.lineno)
            else:
                r.ok(m, h.where, cons, nontrivial=False)
        leaf = h.comps('bits')
        want = U.lin(Sym(h.counter)).add(U.lin(Attr(h.T, 'nbits')), -1)
        cons = f"from_bits Bits leaf: returns position {show(leaf[ci])}"
        if U.lin(leaf[ci]) != want:
            r.bad(m, h.where, cons, f"a leaf moves the position to {show(leaf[ci])}, must be {show(want)}", h.fdef.lineno)
        else:
            r.ok(m, h.where, cons)
        t = one_item(leaf[si])
        cons = "from_bits Bits leaf: slice bounds"
        if t is None:
            r.bad(m, h.where, cons, f"a leaf contributes {show(leaf[si])}, not one slice", h.fdef.lineno)
        else:
            hl = U.Holes()
            e, src, err = U.parse_text(t, hl, 'eval')
            if err or not (isinstance(e, ast.Subscript) and isinstance(e.slice, ast.Slice)):
                r.bad(m, h.where, cons, f"the leaf emits `{src}`, not a slice", h.fdef.lineno)
            else:
                def bound(x):
                    if x is None:
                        return None
                    if isinstance(x, ast.Name) and hl.value(x.id) is not None:
                        return U.lin(hl.value(x.id))
                    if isinstance(x, ast.Constant) and isinstance(x.value, int):
                        return Lin(x.value)
                    return 'expr:' + norm(x)
                lo, hi = bound(e.slice.lower), bound(e.slice.upper)
                hi_want = U.lin(Sym(h.counter))
                if lo != want or hi != hi_want or e.slice.step is not None:
                    r.bad(m, h.where, cons + f": {show(t)}", f"the leaf is cut from [{show(lo) if isinstance(lo, Lin) else lo}:"
                          f"{show(hi) if isinstance(hi, Lin) else hi}], must be [{show(want)}:{show(hi_want)}] (the nbits bits "
                          f"below the running position)", h.fdef.lineno)
                else:
                    r.ok(m, h.where, cons + f": {show(t)}")
    r.evaluations = A.steps()
    floor(r, 13)
    return r


# ---------------------------------------------------------------------------
# R-C06-mirror: to_bits and from_bits agree with each other
def rule_mirror(repo):
    r = RuleResult('R-C06-mirror',
                   "to_bits and from_bits are mirror images: same field order, same nested field order, descending emission of "
                   "list elements <-> reversed list literal, same width source, from_bits starts at the total to_bits computed")
    A = analysis(repo)
    m = A.m
    if any(gen_or_defer(r, A, gn_) is None for gn_ in ('_mk_nbits_to_bits_fn', '_mk_from_bits_fns')):
        return r            # to_bits / from_bits are compared with one absolute layout per grid shape by R-C06-grid
    gt, ht, cti, sti = to_bits_parts(A)
    gf, hf, cfi, sfi = from_bits_parts(A)
    Lt, rect = top_visit(gt, ht)
    Lf, recf = top_visit(gf, hf)

    def order_of(space):
        """the container and whether the iteration is its plain order"""
        if isinstance(space, (ItemsSp, KeysSp, ValuesSp)):
            return ('plain', space.d)
        return ('other', show(space))
    cons = f"field order: to_bits {show(Lt.space)} / from_bits {show(Lf.space)}"
    a, b = order_of(Lt.space), order_of(Lf.space)
    fa, fb = gt.fields_sym(), gf.fields_sym()
    if a[0] == b[0] == 'plain' and a[1] == fa and b[1] == fb:
        r.ok(m, '_mk_from_bits_fns', cons)
    elif show(Lt.space).replace(fa.name if fa else '', '#') == show(Lf.space).replace(fb.name if fb else '', '#'):
        r.ok(m, '_mk_from_bits_fns', cons, note="same non-plain order on both sides (R-C06-traversal judges the order itself)")
    else:
        r.bad(m, '_mk_from_bits_fns', cons, "packing and unpacking walk the fields in different orders: "
              "from_bits(to_bits(v)) permutes the field values", gf.fdef.lineno)
    # nested struct
    st, sf = U.rec_sites(ht.cases['struct'][0]), U.rec_sites(hf.cases['struct'][0])
    cons = "nested struct field order"
    if not st or not sf or not st[0].loops or not sf[0].loops:
        r.bad(m, hf.qual, cons, "one of to_bits/from_bits does not walk the fields of a nested struct", hf.fdef.lineno)
    else:
        sa, sb = st[0].loops[0].space, sf[0].loops[0].space
        na = U.subst_values(sa, {ht.T: Sym('T')})
        nb = U.subst_values(sb, {hf.T: Sym('T')})
        if show(na) == show(nb):
            r.ok(m, hf.qual, cons + f": {show(na)}")
        else:
            r.bad(m, hf.qual, cons + f": {show(na)} / {show(nb)}", "packing and unpacking walk the fields of a nested "
                  "struct in different orders", hf.fdef.lineno)
    # lists
    lt = U.rec_sites(ht.cases['list'][0])
    cons = "list elements: emission order vs. list literal order"
    if not lt or not lt[0].loops:
        r.bad(m, ht.qual, cons, "to_bits does not walk list elements", ht.fdef.lineno)
    else:
        d, _ = list_space(ht.cases['list'][1], lt[0].loops[0], ht.T, None)
        rev = from_list_reversed(A)
        # additional return paths of the two list cases (e.g. a special case for multi-dimensional lists)
        for tv in ht.variants(('list',))[1:]:
            ls = U.rec_sites(tv.cases['list'][0])
            dv = list_space(tv.cases['list'][1], ls[0].loops[0], ht.T, None)[0] if ls and ls[0].loops else None
            if dv != d:
                r.bad(m, tv.where, cons, f"on this path to_bits emits the elements in {dv}ending order, otherwise {d}ending: "
                      f"from_bits reverses uniformly", ht.fdef.lineno)
        for fv in hf.variants(('list',))[1:]:
            rv = from_list_reversed(A, fv)
            if rv is None or d is None or (d == 'desc') != rv:
                r.bad(m, fv.where, cons, f"on this path from_bits {'reverses' if rv else 'does not reverse'} the collected "
                      f"element arguments while to_bits emits the elements in {d}ending index order: for such list fields "
                      f"from_bits(to_bits(v)).f == reversed(v.f)", hf.fdef.lineno)
        if d is None or rev is None:
            r.bad(m, hf.qual, cons, "cannot relate the list handling of to_bits and from_bits (see R-C06-traversal / "
                  "R-C06-leaf)", hf.fdef.lineno)
        elif (d == 'desc') == rev:
            r.ok(m, hf.qual, cons, note=f"to_bits emits {d}ending, from_bits {'reverses' if rev else 'keeps'} the consumed order")
        else:
            r.bad(m, hf.qual, cons, f"to_bits emits the elements in {d}ending index order (so from_bits consumes them in that "
                  f"order from the MSB side) but from_bits {'reverses' if rev else 'does not reverse'} the collected "
                  f"arguments: from_bits(to_bits(v)).f == reversed(v.f) for every list field with 2+ elements",
                  hf.fdef.lineno)
    # width source
    wt = U.lin(ht.comps('bits')[cti]).add(U.lin(Sym(ht.counter)), -1)
    wf = U.lin(Sym(hf.counter)).add(U.lin(hf.comps('bits')[cfi]), -1)
    wt = U.subst_values(wt, {ht.T: Sym('T')})
    wf = U.subst_values(wf, {hf.T: Sym('T')})
    cons = f"leaf width: to_bits +({show(wt)}) / from_bits -({show(wf)})"
    if U.lin(wt) == U.lin(wf):
        r.ok(m, hf.qual, cons)
    else:
        r.bad(m, hf.qual, cons, "a leaf occupies a different number of bits when packing and when unpacking", hf.fdef.lineno)
    # the total handed to from_bits is the one to_bits computed (wiring in _process_class)
    pc = m.get_func('_process_class')
    cons = "from_bits generator receives the total computed by the to_bits generator"
    tot_idx = [i for i, x in enumerate(gt.top.items) if not isinstance(x, Fn)][0]
    total_param = [p for p in gf.params if Sym(p) != gf.fields_sym()]
    calls = [n for n in walk_no_nested(pc) if isinstance(n, ast.Call) and norm(n.func) == gf.name]
    pr = []
    if len(calls) != 1 or not total_param:
        pr.append(f"expected exactly one call of {gf.name} in _process_class")
    else:
        call = calls[0]
        bound = bind_call(gf.fdef, call)
        targ = bound.get(total_param[0])
        if targ is None:
            pr.append("no total width argument")
        else:
            src = attr_source(pc, targ, call)
            if src is None or src[0] != gt.name or src[1] != tot_idx:
                pr.append(f"the total width argument `{norm(targ)}` is not the total returned by {gt.name}")
            elif norm(bound.get(gf.fields_sym().name)) != norm(src[2]):
                pr.append("to_bits and from_bits are generated from different field tables")
    (r.bad(m, '_process_class', cons, '; '.join(pr), pc.lineno) if pr else r.ok(m, '_process_class', cons))
    r.evaluations = A.steps()
    floor(r, 5)
    return r


def bind_call(fdef, call):
    """parameter name -> argument expression of a plain call"""
    names = [a.arg for a in fdef.args.args] + [a.arg for a in fdef.args.kwonlyargs]
    out = {}
    for n, a in zip(names, call.args):
        if isinstance(a, ast.Starred):
            raise AnalysisError(f"starred argument in call of {fdef.name}")
        out[n] = a
    for k in call.keywords:
        if k.arg is None:
            raise AnalysisError(f"** in call of {fdef.name}")
        out[k.arg] = k.value
    return out


def name_source(func, name, at):
    """(call node, index or None) if `name` is bound, before `at`, by `name = f(...)` / `.., name, .. = f(...)`;
    (expr, None) for another simple value; None when unknown / ambiguous"""
    val = None
    for st in preceding_stmts(at):
        if isinstance(st, ast.Assign):
            for t in st.targets:
                if isinstance(t, ast.Name) and t.id == name:
                    val = (st.value, None)
                elif isinstance(t, (ast.Tuple, ast.List)):
                    for i, e in enumerate(t.elts):
                        if isinstance(e, ast.Name) and e.id == name:
                            if isinstance(st.value, (ast.Tuple, ast.List)) and len(st.value.elts) == len(t.elts):
                                val = (st.value.elts[i], None)
                            else:
                                val = (st.value, i)
        elif any(isinstance(n, ast.Name) and n.id == name and isinstance(n.ctx, ast.Store) for n in walk_no_nested(st)):
            val = None
    return val


def attr_stores(func, obj):
    """all stores `obj.attr = ...` / `obj.a, obj.b = ...` / setattr(obj, 'attr', v) in func:
    list of (attr, value expr, index or None, statement)"""
    out = []
    for n in walk_no_nested(func):
        if isinstance(n, ast.Assign):
            for t in n.targets:
                if isinstance(t, ast.Attribute) and isinstance(t.value, ast.Name) and t.value.id == obj:
                    out.append((t.attr, n.value, None, n))
                elif isinstance(t, (ast.Tuple, ast.List)):
                    for i, e in enumerate(t.elts):
                        if isinstance(e, ast.Attribute) and isinstance(e.value, ast.Name) and e.value.id == obj:
                            if isinstance(n.value, (ast.Tuple, ast.List)) and len(n.value.elts) == len(t.elts):
                                out.append((e.attr, n.value.elts[i], None, n))
                            else:
                                out.append((e.attr, n.value, i, n))
        elif isinstance(n, ast.Expr) and isinstance(n.value, ast.Call) and norm(n.value.func) == 'setattr' \
                and len(n.value.args) == 3 and norm(n.value.args[0]) == obj:
            k = n.value.args[1]
            key = k.value if isinstance(k, ast.Constant) else ('$' + norm(k))
            out.append((key, n.value.args[2], None, n))
    return out


def resolve_value(func, expr, idx, at, depth=0):
    """follow local names: returns (generator name, component index, fields argument, wrappers, call) or None"""
    wrappers = []
    while True:
        if depth > 6:
            return None
        depth += 1
        if isinstance(expr, ast.Name):
            src = name_source(func, expr.id, at)
            if src is None:
                return None
            expr, i2 = src
            if i2 is not None:
                if idx is not None:
                    return None
                idx = i2
            continue
        if isinstance(expr, ast.Call) and isinstance(expr.func, ast.Name) and expr.func.id in ('classmethod', 'staticmethod') \
                and len(expr.args) == 1:
            wrappers.append(expr.func.id)
            expr = expr.args[0]
            continue
        if isinstance(expr, ast.Subscript) and isinstance(expr.slice, ast.Constant) and isinstance(expr.slice.value, int) \
                and idx is None:
            idx = expr.slice.value
            expr = expr.value
            continue
        break
    if isinstance(expr, ast.Call) and isinstance(expr.func, ast.Name):
        return expr.func.id, idx, (expr.args[0] if expr.args else None), wrappers, expr
    return None


def attr_source(func, expr, at):
    """for an expression `cls.attr`: the generator call that produced the attribute -> (gen name, index, fields arg)"""
    if not (isinstance(expr, ast.Attribute) and isinstance(expr.value, ast.Name)):
        if isinstance(expr, ast.Name):
            rv = resolve_value(func, expr, None, at)
            return None if rv is None else (rv[0], rv[1], rv[4].args[0] if rv[4].args else None)
        return None
    prev = {id(s) for s in preceding_stmts(at)}
    cands = [(a, v, i, st) for a, v, i, st in attr_stores(func, expr.value.id) if a == expr.attr and id(st) in prev]
    if len(cands) != 1:
        return None
    a, v, i, st = cands[0]
    rv = resolve_value(func, v, i, st)
    if rv is None:
        return None
    return rv[0], rv[1], (rv[4].args[0] if rv[4].args else None)


# ---------------------------------------------------------------------------
# R-C06-eqhash
def field_tuple(v):
    """a hole that stands for `<root>.<f0>,<root>.<f1>,...`: returns (root, loop) or a problem string"""
    ji = join_info(v)
    if ji is None:
        return f"{show(v)} is not a join over the fields"
    sep, rev, seq = ji
    if sep.strip() != ',':
        return f"elements joined with {sep!r}"
    ents = list(U.flatten(seq.segs))
    if not (len(ents) == 1 and isinstance(ents[0][0], Item) and len(ents[0][1]) == 1 and not ents[0][2]):
        return f"{show(seq)} is not exactly one element per field"
    L = ents[0][1][0].loop
    hl = U.Holes()
    e, src, err = U.parse_text(ents[0][0].v, hl, 'eval')
    if err or not (isinstance(e, ast.Attribute) and isinstance(e.value, ast.Name)):
        return f"element `{src}` is not <object>.<field>"
    if hl.value(e.attr) != field_key_value(L):
        return f"element `{src}` does not name the current field"
    root = hl.value(e.value.id)
    root = e.value.id if root is None else (U.tmpl_text(root) or show(root))
    return (root, L, rev)


def tuple_holes(node, hl):
    """the field-tuple holes of an emitted tuple expression `(<hole>,)`"""
    if isinstance(node, ast.Tuple) and len(node.elts) == 1 and isinstance(node.elts[0], ast.Name):
        return hl.value(node.elts[0].id)
    if isinstance(node, ast.Name):
        return hl.value(node.id)
    return None


def reads_fields_of(node, who, hl):
    """the expression touches an attribute of `who` other than its class (directly or through a field-tuple hole)"""
    for n in ast.walk(node):
        if isinstance(n, ast.Attribute) and isinstance(n.value, ast.Name) and n.value.id == who and n.attr != '__class__':
            return True
        if isinstance(n, ast.Name):
            v = hl.value(n.id)
            if v is not None:
                ft = field_tuple(v)
                if not isinstance(ft, str) and ft[0] == who:
                    return True
    return False


def eq_body_shape(fd, names):
    """(expression whose truth is the result on the same-class path, class guard already established by an
    earlier statement?) for the emitted __eq__ body:
       return <expr>
       if <classes differ>: return False / NotImplemented ; return <expr>
       if <classes equal>:  return <expr> ; [else:] return False / NotImplemented"""
    a0, a1 = names
    body = [st for st in fd.body if not (isinstance(st, ast.Expr) and isinstance(st.value, ast.Constant))]

    def negative(st):
        return isinstance(st, ast.Return) and ((isinstance(st.value, ast.Constant) and st.value.value is False) or
                                               norm(st.value) == 'NotImplemented')

    def same_class(test):
        res = []
        for same in (True, False):
            def leaf(e, same=same):
                w = class_of(e)
                if w == a0:
                    return 'A'
                if w == a1:
                    return 'A' if same else 'B'
                return NotImplemented
            try:
                res.append(bool(Evaluator({}, leaf=leaf).ev(test)))
            except AnalysisError:
                return None
        return {(True, False): 'same', (False, True): 'differ'}.get(tuple(res))
    if len(body) == 1 and isinstance(body[0], ast.Return) and body[0].value is not None:
        return body[0].value, False, 'False'
    if len(body) in (1, 2) and isinstance(body[0], ast.If) and len(body[0].body) == 1:
        st = body[0]
        k = same_class(st.test)
        rest = st.orelse if st.orelse else body[1:]
        if len(rest) != 1 or (st.orelse and len(body) != 1):
            return None
        kind = lambda x: 'NotImplemented' if norm(x.value) == 'NotImplemented' else 'False'
        if k == 'differ' and negative(st.body[0]) and isinstance(rest[0], ast.Return) and rest[0].value is not None:
            return rest[0].value, True, kind(st.body[0])
        if k == 'same' and isinstance(st.body[0], ast.Return) and st.body[0].value is not None and negative(rest[0]):
            return st.body[0].value, True, kind(rest[0])
    return None


class _NI:
    """the NotImplemented singleton inside the abstract evaluation (truthy, like the real one)"""
    def __repr__(self):
        return 'NotImplemented'


def _check_ne(r, A, eq_foreign):
    """`a != b` must be the negation of `a == b` in all three situations: same class & equal fields, same class &
    different fields, operand of a foreign class.  Python derives != from __eq__ (treating NotImplemented correctly)
    unless the class installs its own __ne__; an installed, generated __ne__ is evaluated abstractly together with
    what the generated __eq__ returns in each situation."""
    m = A.m
    pc = m.get_func('_process_class')
    cls = pc.args.args[0].arg
    cons = "!= is the negation of =="
    stores = [(a, v, i, st) for a, v, i, st in attr_stores(pc, cls) if a == '__ne__']
    if not stores:
        r.ok(m, '_process_class', cons + ": no generated __ne__ (Python derives it from __eq__)", nontrivial=False)
        return
    if eq_foreign is None:
        raise AnalysisError("a generated __ne__ exists but the generated __eq__ could not be analysed")
    for a, v, i, st in stores:
        rv = resolve_value(pc, v, i, st)
        where = '_process_class'
        if rv is None or rv[0] not in m.functions:
            r.bad(m, where, cons + f": cls.__ne__ = {norm(v)}", f"cls.__ne__ is set to `{norm(v)}`, not to a generated function "
                  f"that can be related to the generated __eq__", st.lineno)
            continue
        gname = rv[0]
        gdef = m.functions[gname]
        top, ev = U.eval_generator(m, gdef, None)
        items = top.items if isinstance(top, Tup) else (top,)
        fn = items[rv[1]] if rv[1] is not None and rv[1] < len(items) else items[0]
        hl = U.Holes()
        fd, src, err = U.parse_fn(fn, hl) if isinstance(fn, Fn) else (None, show(fn), 'not a generated function')
        if fd is None or len(fd.args.args) != 2:
            r.bad(m, gname, cons + ": generated __ne__", f"the generated __ne__ is `{src[:100]}` ({err})", gdef.lineno)
            continue
        a0, a1 = [x.arg for x in fd.args.args]
        NI = _NI()
        situations = {'same class, equal fields': True, 'same class, different fields': False,
                      'operand of a foreign class (Bits, int, None, another struct type)': NI if eq_foreign == 'NotImplemented' else False}
        wrong = []
        for sit, eqres in situations.items():
            def leaf(e, eqres=eqres):
                if isinstance(e, ast.Name) and e.id == 'NotImplemented':
                    return NI
                if isinstance(e, ast.Call) and isinstance(e.func, ast.Attribute) and e.func.attr == '__eq__' \
                        and len(e.args) == 1 and {norm(e.func.value), norm(e.args[0])} == {a0, a1}:
                    return eqres
                if isinstance(e, ast.Compare) and len(e.ops) == 1 and {norm(e.left), norm(e.comparators[0])} == {a0, a1}:
                    if isinstance(e.ops[0], ast.Eq):
                        return False if eqres is NI else eqres        # `==` falls back to identity on NotImplemented
                    if isinstance(e.ops[0], ast.NotEq):
                        raise AnalysisError("the generated __ne__ uses != on its own operands (unbounded recursion)")
                if isinstance(e, ast.Name) and e.id in (a0, a1):
                    return e.id
                return NotImplemented
            outcome = Evaluator({}, leaf=leaf).run(fd.body)
            r.evaluations += 1
            if outcome[0] != 'return':
                wrong.append(f"{sit}: the generated __ne__ does not return a value ({outcome[0]})")
                continue
            res = outcome[1]
            ne_val = (eqres is not True) if res is NI else bool(res)   # a NotImplemented result lets Python fall back
            eq_val = False if eqres is NI else eqres
            if ne_val != (not eq_val):
                wrong.append(f"{sit}: == gives {eq_val} and != gives {ne_val} (the generated __eq__ returns {eqres!r} there and "
                             f"the generated __ne__ `{norm(fd.body)[:60]}` turns it into {res!r})")
        c2 = cons + f": generated __ne__ `{norm(fd.body)[:60]}` with __eq__ returning {eq_foreign} for a foreign operand"
        if wrong:
            r.bad(m, gname, c2, '; '.join(wrong) + " -- == and != must never both be False (or both True)", gdef.lineno)
        else:
            r.ok(m, gname, c2)


def rule_eqhash(repo):
    r = RuleResult('R-C06-eqhash', "__eq__ compares, and __hash__ hashes, the complete field tuple in declaration order "
                                   "(equal iff the packed values are equal); __eq__ additionally requires class identity")
    A = analysis(repo)
    m = A.m
    spaces = {}
    for gname, fname in (('_mk_eq_fn', '__eq__'), ('_mk_hash_fn', '__hash__')):
        g = A.gen(gname)
        if not isinstance(g.top, Fn):
            raise AnalysisError(f"{gname} does not return one generated function")
        arms = [('', g.top)]
        for k, conds, arm in g.extra:      # every return path of the generator must produce a correct function
            if isinstance(arm, Fn):
                arms.append((f" [path {U.show_conds(conds)}]", arm))
            else:
                r.bad(m, gname, f"return path [{U.show_conds(conds)}]", f"under `{U.show_conds(conds)}` the generator returns "
                      f"{show(arm)[:80]} instead of a generated {fname}", g.fdef.lineno)
        for label, fn in arms:
            where = gname + label
            fields = g.fields_sym()
            hl = U.Holes()
            fd, src, err = U.parse_fn(fn, hl)
            if fd is None:
                r.bad(m, where, f"generated {fname}", f"generated source does not parse: {err}", g.fdef.lineno)
                continue
            names = [a.arg for a in fd.args.args]
            rets = [n for n in ast.walk(fd) if isinstance(n, ast.Return)]
            if fname == '__eq__':
                cons = "generated __eq__: class identity and field tuples"
                shape = eq_body_shape(fd, names) if len(names) == 2 else None
                if shape is None:
                    r.bad(m, where, cons, f"`{src}` is neither `return <class identity> and <tuple> == <tuple>` nor a class-guard "
                          f"early return followed by the tuple comparison", g.fdef.lineno)
                    continue
                e, guarded_first, foreign = shape
                if label == '':
                    spaces['eq-foreign'] = foreign
                conj = [c_ for c_, pol_ in cond_atoms(e)] if all(pol_ for _, pol_ in cond_atoms(e)) else [e]
                ident = [c for c in conj if isinstance(c, ast.Compare) and len(c.ops) == 1 and
                         isinstance(c.ops[0], (ast.Is, ast.Eq)) and
                         {class_of(c.left), class_of(c.comparators[0])} == set(names)]
                tups = [c for c in conj if isinstance(c, ast.Compare) and len(c.ops) == 1 and isinstance(c.ops[0], ast.Eq)
                        and tuple_holes(c.left, hl) is not None and tuple_holes(c.comparators[0], hl) is not None]
                pr = []
                if not ident and not guarded_first:
                    pr.append("no conjunct requires `other.__class__ is self.__class__`: values of two different struct types "
                              "with equal field tuples compare equal")
                if ident and not guarded_first:
                    # evaluation order of `and`: the class test must come before anything that reads a field of `other`
                    first_ident = min(i_ for i_, c_ in enumerate(conj) if any(c_ is x_ for x_ in ident))
                    early = [c_ for c_ in conj[:first_ident] if reads_fields_of(c_, names[1], hl)]
                    if early:
                        pr.append(f"`{norm(early[0])[:60]}` is evaluated before the class test: comparing with a value of another "
                                  f"struct type (other field names), with the packed Bits, an int or None raises AttributeError "
                                  f"instead of giving False -- the class guard must short-circuit first")
                if len([c_ for c_ in conj if any(c_ is x_ for x_ in ident) or any(c_ is x_ for x_ in tups)]) != len(conj):
                    pr.append(f"unexpected conjunct in `{norm(e)}`")
                if len(tups) != 1:
                    pr.append("no comparison of the two field tuples")
                if pr:
                    r.bad(m, where, cons, '; '.join(pr), g.fdef.lineno)
                else:
                    r.ok(m, where, cons)
                if len(tups) != 1:
                    continue
                c = tups[0]
                sides = [field_tuple(tuple_holes(c.left, hl)), field_tuple(tuple_holes(c.comparators[0], hl))]
                cons = "generated __eq__: the two tuples list every field of self and of other, pairwise aligned"
                pr = [s for s in sides if isinstance(s, str)]
                if not pr:
                    (ra, La, reva), (rb, Lb, revb) = sides
                    if {ra, rb} != set(names):
                        pr.append(f"the tuples are built from {ra} and {rb}, must be {names[0]} and {names[1]} (a value would be "
                                  f"compared with itself)")
                    for L in (La, Lb):
                        pr += field_space_problems(g.ev, L, fields)
                    if show(La.space) != show(Lb.space) or reva != revb:
                        pr.append("the two tuples enumerate the fields differently: field i of self is compared with field j of other")
                    spaces['eq'] = show(U.subst_values(La.space, {fields: Sym('F')})) if fields else None
                if pr:
                    r.bad(m, where, cons, '; '.join(pr), g.fdef.lineno)
                else:
                    r.ok(m, where, cons)
            else:
                cons = "generated __hash__: hash of the complete field tuple of self"
                e = rets[0].value if len(rets) == 1 and len(fd.body) == 1 else None
                ok = len(names) == 1 and isinstance(e, ast.Call) and norm(e.func) == 'hash' and len(e.args) == 1 and not e.keywords
                hole = tuple_holes(e.args[0], hl) if ok else None
                if hole is None:
                    r.bad(m, where, cons, f"`{src}` is not `return hash((<field tuple>,))`", g.fdef.lineno)
                    continue
                side = field_tuple(hole)
                pr = []
                if isinstance(side, str):
                    pr.append(side)
                else:
                    root, L, rev = side
                    if root != names[0]:
                        pr.append(f"hashes the fields of `{root}`, not of `{names[0]}`")
                    pr += field_space_problems(g.ev, L, fields)
                    spaces['hash'] = show(U.subst_values(L.space, {fields: Sym('F')})) if fields else None
                if pr:
                    r.bad(m, where, cons, '; '.join(pr) + " -- equal values must hash equally and the hash must cover what __eq__ "
                          "compares", g.fdef.lineno)
                else:
                    r.ok(m, where, cons)
    _check_ne(r, A, spaces.get('eq-foreign'))
    cons = "__eq__ and __hash__ range over the same field tuple"
    if 'eq' in spaces and 'hash' in spaces:
        if spaces['eq'] == spaces['hash']:
            r.ok(m, '_mk_hash_fn', cons + f": {spaces['eq']}")
        else:
            r.bad(m, '_mk_hash_fn', cons + f": {spaces['eq']} / {spaces['hash']}",
                  "__eq__ and __hash__ are computed from different field sets", A.gen('_mk_hash_fn').fdef.lineno)
    r.evaluations = A.steps()
    floor(r, 5)
    return r


# ---------------------------------------------------------------------------
# R-C06-init: the positional constructor contract from_bits / clone rely on
def rule_init(repo):
    r = RuleResult('R-C06-init', "generated __init__: one positional parameter per field in declaration order; Bits fields are "
                                 "converted by the field's Bits class, struct / list fields default to fresh distinct objects of "
                                 "the (innermost) field type")
    A = analysis(repo)
    m = A.m
    g = A.gen('_mk_init_fn', KINDS)
    extra_generator_paths(r, m, g)
    fields = g.fields_sym()
    if fields is None:
        raise AnalysisError("_mk_init_fn does not iterate its field table")
    for kind in KINDS:
        top, ev = g.tops[kind]
        if not isinstance(top, Fn):
            raise AnalysisError("_mk_init_fn does not return one generated function")
        fn = top
        # ---- parameter list
        cons = f"__init__ parameters ({kind} field)"
        segs = fn.args.segs if isinstance(fn.args, SeqV) else None
        pr = []
        if not segs or not isinstance(segs[0], Item) or len(segs) != 2 or not isinstance(segs[1], LoopSeg):
            pr.append(f"parameter list is {show(fn.args)}, not [self, <one parameter per field>]")
        else:
            Lp = segs[1].loop
            pr += field_space_problems(ev, Lp, fields)
            if not (len(segs[1].segs) == 1 and isinstance(segs[1].segs[0], Item)):
                pr.append(f"per-field parameters are {show(segs[1])}: not exactly one per field")
        hl = U.Holes()
        fd, src, err = U.parse_fn(fn, hl)
        if fd is None:
            pr.append(f"generated source does not parse: {err}")
        if pr:
            r.bad(m, g.name, cons, '; '.join(pr) + " -- from_bits and clone pass the field values positionally", g.fdef.lineno)
            continue
        a = fd.args
        names = [x.arg for x in a.args]
        selfn = names[0]
        if len(names) != 2 or hl.value(names[1]) != field_key_value(Lp) or len(a.defaults) != 1 or a.kwonlyargs or a.vararg:
            r.bad(m, g.name, cons, f"signature `{norm(a)}`: the per-field parameter is not `<field name> = <default>`",
                  g.fdef.lineno)
            continue
        dflt = a.defaults[0]
        want_d = '0' if kind == 'bits' else 'None'
        if norm(dflt) != want_d:
            r.bad(m, g.name, cons, f"default of a {kind} field parameter is `{norm(dflt)}`, expected `{want_d}`", g.fdef.lineno)
            continue
        r.ok(m, g.name, cons + f": ({show(hl.value(selfn) or selfn)}, <field> = {want_d})")
        # ---- body
        cons = f"__init__ body ({kind} field)"
        bsegs = fn.body.segs if isinstance(fn.body, SeqV) else None
        if not bsegs or len(bsegs) != 1 or not isinstance(bsegs[0], LoopSeg) or len(bsegs[0].segs) != 1 \
                or not isinstance(bsegs[0].segs[0], Item) or len(fd.body) != 1:
            r.bad(m, g.name, cons, f"body is {show(fn.body)}: not exactly one assignment per field", g.fdef.lineno)
            continue
        Lb = bsegs[0].loop
        pr = field_space_problems(ev, Lb, fields)
        st = fd.body[0]
        key = field_key_value(Lb)
        kn = hl.by_value.get(key)
        ok = isinstance(st, ast.Assign) and len(st.targets) == 1 and isinstance(st.targets[0], ast.Attribute) \
            and norm(st.targets[0].value) == selfn and st.targets[0].attr == kn
        if not ok:
            pr.append(f"statement `{norm(st)}` is not `{selfn}.<field> = ...`")
        else:
            v = st.value
            if kind == 'bits':
                # <type of the field>(<parameter>)
                good = isinstance(v, ast.Call) and len(v.args) == 1 and not v.keywords and norm(v.args[0]) == kn \
                    and isinstance(v.func, ast.Name)
                if not good:
                    pr.append(f"a Bits field is initialised with `{norm(v)}`, not with <field type>(<parameter>): the struct "
                              f"would alias the caller's object / keep a value of another width")
                else:
                    pr += _type_global(fn, ev, hl, v.func.id, kn, Lb, kind)
            else:
                # <parameter> or <fresh default>
                good = isinstance(v, ast.BoolOp) and isinstance(v.op, ast.Or) and len(v.values) == 2 \
                    and norm(v.values[0]) == kn and isinstance(v.values[1], ast.Name) \
                    and isinstance(hl.value(v.values[1].id), Rec)
                if not good:
                    pr.append(f"a {kind} field is initialised with `{norm(v)}`, not with `<parameter> or <fresh default>`")
                else:
                    rec = hl.value(v.values[1].id)
                    h = g.helpers.get(rec.fn)
                    if h is None or rec.args[h.pos(h.tpname)] != field_type_value(Lb):
                        pr.append(f"default `{show(rec)}` is not built from the type of the current field")
                    elif dict(rec.closure).get('name') not in (None, key) and 'name' in dict(rec.closure):
                        pr.append("the default builder is bound to another field's name")
                    else:
                        for hv in h.variants():
                            pr += [(f"on the return path{hv.label}: " if hv.label else '') + p_
                                   for p_ in _default_builder(hv, fn, ev, hl, Lb, kind, dict(rec.closure))]
        if pr:
            r.bad(m, g.name, cons, '; '.join(pr), g.fdef.lineno)
        else:
            r.ok(m, g.name, cons + f": {show(bsegs[0].segs[0].v)}")
    r.evaluations = A.steps()
    floor(r, 6)
    return r


def _type_global(fn, ev, hl, ctor_name_src, kn, Lb, kind):
    """the constructor name used in the emitted text must be a key of the generated function's globals that is
    bound to the field's type (innermost element type for lists)"""
    gl = fn.globs
    if not isinstance(gl, DictV):
        return [f"globals of the generated __init__ are {show(gl)}"]
    # the text of the emitted name with the field-name placeholder, e.g. _type_<field>
    want_val = {'bits': lambda L: field_type_value(L), 'struct': lambda L: field_type_value(L),
                'list': lambda L: Innermost(field_type_value(L))}[kind]
    for s, loops, conds in U.flatten(gl.segs):
        if not isinstance(s, Item) or len(loops) != 1 or conds:
            continue
        Lg = loops[0].loop
        if not isinstance(Lg.space, type(Lb.space)) or show(Lg.space) != show(Lb.space):
            continue
        k, v = s.v.items
        h2 = U.Holes()
        ktxt = U.render(U.subst_values(k, {field_key_value(Lg): Const('__FIELD__')}), h2)
        if ktxt == ctor_name_src.replace(kn, '__FIELD__'):
            if v == want_val(Lg):
                return field_space_problems(ev, Lg, Lg.space.d) if False else []
            return [f"global `{ktxt.replace('__FIELD__', '<field>')}` is bound to {show(v)}, must be "
                    f"{show(want_val(Lg))} ({'for a multi-dimensional list the element type is the innermost one' if kind == 'list' else 'the type of the field'})"]
    return [f"the name `{ctor_name_src.replace(kn, '<field>')}` used by the generated __init__ is not defined in its globals"]


def _default_builder(h, fn, ev, hl, Lb, kind, closure):
    pr = []
    key_sym = None
    # leaf: <type global>() -- a fresh object per call site
    leaf = h.cases['struct'][0]
    if leaf != h.cases['bits'][0]:
        pr.append("default builder distinguishes struct and Bits elements")
    # free variable of the builder that carries the field name
    fv = [n for n, v in closure.items() if v == field_key_value(Lb)]
    hl2 = U.Holes()
    e, src, err = U.parse_text(leaf, hl2, 'eval') if stringish(leaf) else (None, show(leaf), 'not a string')
    if err or not (isinstance(e, ast.Call) and not e.args and not e.keywords and isinstance(e.func, ast.Name)):
        pr.append(f"default leaf is `{src}`, not a constructor call: default elements would not be fresh objects")
        return pr
    # compose the emitted constructor name with the closure (the field name)
    name_t = leaf
    for n in fv:
        name_t = U.subst_values(name_t, {Sym(n): Const('__FIELD__')})
    txt = U.render(name_t, U.Holes())
    if not txt.endswith('()') or '__h' in txt:
        pr.append(f"default leaf `{src}` does not name the field's type global")
        return pr
    pr += _type_global(fn, ev, hl, txt[:-2], '__FIELD__', Lb, kind)
    if kind == 'list':
        v = h.cases['list'][0]
        hl3 = U.Holes()
        e, src3, err3 = U.parse_text(v, hl3, 'eval') if stringish(v) else (None, show(v), 'x')
        ok = err3 is None and isinstance(e, ast.List) and len(e.elts) == 1 and isinstance(e.elts[0], ast.Name)
        ji = join_info(hl3.value(e.elts[0].id)) if ok else None
        if ji is None:
            pr.append(f"default of a list field is `{src3}`, not a list literal with one separately constructed default per "
                      f"element (e.g. `[x] * n` would make all elements one shared object: writing element 0 changes every "
                      f"element)")
        else:
            sep, rev, seq = ji
            ents = list(U.flatten(seq.segs))
            if sep.strip() != ',' or not (len(ents) == 1 and isinstance(ents[0][0], Item) and isinstance(ents[0][0].v, Rec)
                                          and len(ents[0][1]) == 1 and not ents[0][2]):
                pr.append(f"default list elements are {show(seq)}")
            else:
                L = ents[0][1][0].loop
                sp = L.space
                if not (isinstance(sp, RangeSp) and sp.n == Len(h.T) and sp.complete):
                    pr.append(f"default list has {show(sp)} elements, not len({show(h.T)})")
                rec = ents[0][0].v
                if rec.args[h.pos(h.tpname)] not in elem_type_values(L, h.T):
                    pr.append(f"default list elements are built for {show(rec.args[h.pos(h.tpname)])}")
    return pr


# ---------------------------------------------------------------------------
# R-C06-wiring: which generated function becomes which method, from which field table
#   attribute -> (generator, wrapper, mandatory)
WIRING = {
    '__init__':     ('_mk_init_fn', [], False),
    '__eq__':       ('_mk_eq_fn', [], False),
    '__hash__':     ('_mk_hash_fn', [], False),
    '__ilshift__':  ('_mk_ff_fn', [], True),
    '_flip':        ('_mk_ff_fn', [], True),
    'clone':        ('_mk_clone_fn', [], True),
    '__deepcopy__': ('_mk_deepcopy_fn', [], True),
    '__imatmul__':  ('_mk_imatmul_fn', [], True),
    'nbits':        ('_mk_nbits_to_bits_fn', [], True),
    'to_bits':      ('_mk_nbits_to_bits_fn', [], True),
    'from_bits':    ('_mk_from_bits_fns', ['classmethod'], True),
}


def cond_atoms(test, polarity=True):
    """split a condition that is known to have truth value `polarity` into atomic facts [(expr, polarity)]:
    `a and b` true -> a, b true; `a or b` false -> a, b false; `not a` flips; `x not in y` == not (x in y);
    `x is not y` == not (x is y); `x != y` == not (x == y).  A disjunctive fact stays one (compound) atom."""
    if isinstance(test, ast.UnaryOp) and isinstance(test.op, ast.Not):
        return cond_atoms(test.operand, not polarity)
    if isinstance(test, ast.BoolOp) and ((isinstance(test.op, ast.And) and polarity) or
                                         (isinstance(test.op, ast.Or) and not polarity)):
        out = []
        for v in test.values:
            out += cond_atoms(v, polarity)
        return out
    if isinstance(test, ast.Compare) and len(test.ops) == 1 and isinstance(test.ops[0], (ast.NotIn, ast.IsNot, ast.NotEq)):
        pos = {ast.NotIn: ast.In, ast.IsNot: ast.Is, ast.NotEq: ast.Eq}[type(test.ops[0])]()
        return [(ast.Compare(left=test.left, ops=[pos], comparators=test.comparators), not polarity)]
    return [(test, polarity)]


def guard_atom_set(stmt, kinds=('if',), stop=None):
    """the set of atomic facts (normalised text, polarity) that hold where `stmt` executes, from all enclosing
    branch conditions -- nested ifs, one merged `and`, either operand order and if/else flipping are the same set"""
    out = set()
    for g_ in guards_of(stmt, stop=stop):
        if g_.kind in kinds and isinstance(g_.polarity, bool):
            for e, pol in cond_atoms(g_.test, g_.polarity):
                out.add((norm(e), pol))
    return out


def same_value(func, a, b, at):
    """two expressions denote the same value at `at`: equal text, or one is a local bound to the other"""
    if norm(a) == norm(b):
        return True
    for x, y in ((a, b), (b, a)):
        if isinstance(x, ast.Name):
            src = name_source(func, x.id, at)
            if src is not None and src[1] is None and norm(src[0]) == norm(y):
                return True
    return False


def _items_loop(loop):
    """(source expr, key expr, value expr) of a loop over the entries of a mapping:
    `for k, v in X.items()` / `for k in X` / `for k in X.keys()`; None for another loop"""
    it, tg = loop.iter, loop.target
    if isinstance(it, ast.Call) and isinstance(it.func, ast.Attribute) and not it.args and not it.keywords:
        if it.func.attr == 'items' and isinstance(tg, ast.Tuple) and len(tg.elts) == 2:
            return it.func.value, tg.elts[0], tg.elts[1]
        if it.func.attr == 'keys' and isinstance(tg, ast.Name):
            src = it.func.value
            return src, tg, ast.Subscript(value=src, slice=ast.Name(id=tg.id, ctx=ast.Load()), ctx=ast.Load())
        return None
    if isinstance(it, (ast.Name, ast.Attribute)) and isinstance(tg, ast.Name):
        return it, tg, ast.Subscript(value=it, slice=ast.Name(id=tg.id, ctx=ast.Load()), ctx=ast.Load())
    return None


def _loop_fill_problems(func, table, what):
    """the dict `table` must receive every (name, type) entry of the declared fields in their order: either
    `table[k] = v` for every entry of a plain loop over the mapping (items / keys form), or a whole-mapping copy
    (`dict(X)`, `X.copy()`, `{k: v for k, v in X.items()}`).  Returns (problems, loop node or None, source expr)"""
    stores = [n for n in walk_no_nested(func) if isinstance(n, ast.Assign) and len(n.targets) == 1
              and isinstance(n.targets[0], ast.Subscript) and norm(n.targets[0].value) == table]
    if not stores:
        for n in walk_no_nested(func):
            if isinstance(n, ast.Assign) and len(n.targets) == 1 and norm(n.targets[0]) == table:
                v = n.value
                if isinstance(v, ast.Call) and norm(v.func) == 'dict' and len(v.args) == 1 and not v.keywords:
                    return [], None, v.args[0]
                if isinstance(v, ast.Call) and isinstance(v.func, ast.Attribute) and v.func.attr == 'copy' and not v.args:
                    return [], None, v.func.value
                if isinstance(v, ast.DictComp) and len(v.generators) == 1 and not v.generators[0].ifs:
                    g = v.generators[0]
                    fake = ast.For(target=g.target, iter=g.iter, body=[], orelse=[])
                    il = _items_loop(fake)
                    if il is not None and norm(v.key) == norm(il[1]) and norm(v.value) == norm(il[2]):
                        return [], None, il[0]
    if len(stores) != 1:
        return [f"`{table}` is filled at {len(stores)} places (expected one `{table}[name] = type` in a loop)"], None, None
    st = stores[0]
    loop = parent(st)
    while loop is not None and not isinstance(loop, (ast.For, ast.FunctionDef)):
        loop = parent(loop)
    if not isinstance(loop, ast.For):
        return [f"`{norm(st)}` is not inside a loop over the declared fields"], None, None
    pr = []
    il = _items_loop(loop)
    if il is None:
        pr.append(f"iterates `{norm(loop.iter)}`, not the declared fields themselves: {what} order is not the declaration order")
        src = None
    else:
        src, k, v = il
        if not (same_value(func, st.targets[0].slice, k, st) and same_value(func, st.value, v, st)):
            pr.append(f"`{norm(st)}` does not store the loop's (name, type) pair")
    if guard_atom_set(st, stop=loop):
        pr.append(f"`{norm(st)}` is conditional: some declared fields are dropped from the field table")
    if any(isinstance(n, (ast.Continue, ast.Break)) for b in loop.body for n in walk_no_nested(b)) or loop.orelse:
        pr.append("the loop contains break/continue: some declared fields are dropped from the field table")
    return pr, loop, src


def rule_wiring(repo):
    r = RuleResult('R-C06-wiring', "_process_class attaches every generated function under its method name (tuple results in "
                                   "the right order, from_bits as classmethod), all from the one field table that preserves the "
                                   "declaration order; bitstruct / mk_bitstruct hand the class and the ordered annotations through")
    A = analysis(repo)
    m = A.m
    pc = m.get_func('_process_class')
    cls = pc.args.args[0].arg
    stores = attr_stores(pc, cls)
    fields_names = set()
    for attr, (gname, wrappers, mandatory) in WIRING.items():
        cons = f"cls.{attr} <- {gname}"
        cands = [(a, v, i, st) for a, v, i, st in stores if a == attr]
        if len(cands) != 1:
            r.bad(m, '_process_class', cons, f"{len(cands)} assignments of cls.{attr} (expected exactly one)", pc.lineno)
            continue
        a, v, i, st = cands[0]
        rv = resolve_value(pc, v, i, st)
        if rv is None:
            r.bad(m, '_process_class', cons, f"cls.{attr} is assigned `{norm(v)}`, not the result of a generator", st.lineno)
            continue
        gn, idx, farg, wr, call = rv
        pr = []
        if gn != gname:
            pr.append(f"cls.{attr} is produced by {gn}, must be {gname}")
        else:
            try:
                g = A.gen(gname, KINDS if gname == '_mk_init_fn' else (None,))
            except Deferred:
                g = A.stub(gname)
            top = g.top
            comp = top
            if isinstance(top, Tup):
                if idx is None or not (0 <= idx < len(top.items)):
                    pr.append(f"{gname} returns {len(top.items)} results, cls.{attr} takes {'all' if idx is None else idx}")
                    comp = None
                else:
                    comp = top.items[idx]
            elif idx is not None:
                pr.append(f"{gname} returns one function, cls.{attr} takes component {idx}")
                comp = None
            if comp is not None:
                if attr == 'nbits':
                    if isinstance(comp, Fn):
                        pr.append(f"cls.nbits receives the generated function {show(comp.name)} (results of {gname} swapped)")
                elif not isinstance(comp, Fn):
                    pr.append(f"cls.{attr} receives {show(comp)[:60]}, not a generated function (results of {gname} swapped)")
                elif U.tmpl_text(comp.name) != attr:
                    pr.append(f"cls.{attr} receives the generated function {show(comp.name)}")
            fs = g.fields_sym()
            bound = bind_call(g.fdef, call)
            fa = bound.get(fs.name) if fs is not None else None
            if not isinstance(fa, ast.Name):
                pr.append(f"the field table argument of {gname} is `{norm(fa)}`")
            else:
                fields_names.add(fa.id)
        if wr != wrappers:
            pr.append(f"cls.{attr} is wrapped with {wr or 'nothing'}, must be {wrappers or 'nothing'}"
                      + (" (from_bits is called on the class: T.from_bits(bits))" if attr == 'from_bits' else ''))
        atoms = guard_atom_set(st)
        if mandatory and atoms:
            a0 = sorted(atoms)[0]
            pr.append(f"cls.{attr} is only assigned when `{a0[0]}` is {a0[1]}")
        if not mandatory:
            # expected guard set: {add_<x> is true, '<attr>' not in cls.__dict__} (any subset), as a set of atoms
            params = {x.arg for x in pc.args.args}
            flag = 'add_' + attr.strip('_')
            for txt, pol in sorted(atoms):
                e = ast.parse(txt, mode='eval').body
                if isinstance(e, ast.Name) and e.id in params:
                    if not pol:
                        pr.append(f"cls.{attr} is generated when the option `{e.id}` is off")
                    elif e.id != flag:
                        pr.append(f"cls.{attr} is generated depending on the option `{e.id}` (expected `{flag}`)")
                    continue
                if isinstance(e, ast.Compare) and len(e.ops) == 1 and isinstance(e.ops[0], ast.In) \
                        and isinstance(e.left, ast.Constant) and norm(e.comparators[0]) == f"{cls}.__dict__":
                    if pol:
                        pr.append(f"cls.{attr} is generated only when the user already defined {e.left.value!r}")
                    elif e.left.value != attr:
                        pr.append(f"cls.{attr} is generated depending on whether the user defined {e.left.value!r}")
                    continue
                pr.append(f"cls.{attr} is assigned under the unexpected condition `{txt}` is {pol}")
        (r.bad(m, '_process_class', cons, '; '.join(pr), st.lineno) if pr else r.ok(m, '_process_class', cons))
    # ---- one field table, stamped on the class, filled in declaration order
    cons = "one field table for all generators, stamped as __bitstruct_fields__"
    pr = []
    if len(fields_names) != 1:
        pr.append(f"generators are fed from different tables: {sorted(fields_names)}")
    else:
        F = next(iter(fields_names))
        key = None
        stamped = []
        for a, v, i, st in stores:
            k = a
            if isinstance(a, str) and a.startswith('$'):
                c = m.assigns.get(a[1:])
                k = c.value if isinstance(c, ast.Constant) else a
            if k == '__bitstruct_fields__':
                stamped.append((v, st))
        if len(stamped) != 1 or norm(stamped[0][0]) != F or any(g_.kind == 'if' for g_ in guards_of(stamped[0][1])):
            pr.append(f"the class attribute __bitstruct_fields__ (read back for nested structs by to_bits/from_bits and by the "
                      f"translators) is not unconditionally set to `{F}`")
        p2, loop, src = _loop_fill_problems(pc, F, 'field')
        pr += p2
        if src is not None:
            ok = False
            if isinstance(src, ast.Name):
                ns = name_source(pc, src.id, loop if loop is not None else pc.body[-1])
                if ns is not None and ns[1] is None:
                    ok = '__annotations__' in norm(ns[0]) and cls in norm(ns[0])
            else:
                ok = '__annotations__' in norm(src) and cls in norm(src)
            if not ok:
                pr.append(f"the field table is not built from the class annotations (`{norm(src)}`)")
    (r.bad(m, '_process_class', cons, '; '.join(pr), pc.lineno) if pr else r.ok(m, '_process_class', cons))
    # ---- reserved names cannot be user-defined (the generated packing methods are never shadowed by a field)
    cons = "to_bits / from_bits / nbits are reserved names"
    res = [n for n in walk_no_nested(pc) if isinstance(n, (ast.Assert, ast.If))
           and any(isinstance(e, ast.Compare) and isinstance(e.ops[0], ast.In) and
                   pol == (not isinstance(n, ast.Assert))          # assert x not in R   /   if x in R: raise
                   for e, pol in cond_atoms(n.test))
           and (isinstance(n, ast.Assert) or any(isinstance(x, ast.Raise) for b in n.body for x in ast.walk(b)))
           and any(isinstance(x, ast.For) for x in _ancestors(n, pc))]
    lists = [n.value for n in walk_no_nested(pc) if isinstance(n, ast.Assign) and isinstance(n.value, (ast.List, ast.Tuple))
             and all(isinstance(e, ast.Constant) for e in n.value.elts)]
    names = {e.value for l in lists for e in l.elts}
    if res and {'to_bits', 'from_bits', 'nbits'} <= names:
        r.ok(m, '_process_class', cons, nontrivial=False)
    else:
        r.bad(m, '_process_class', cons, "a field or user attribute named to_bits / from_bits / nbits is no longer rejected: "
              "the generated method would be shadowed by / would overwrite it", pc.lineno)
    # ---- bitstruct decorator
    bs = m.get_func('bitstruct')
    cons = "bitstruct(cls) returns _process_class(cls, ...)"
    pr = []
    inner = [n for n in bs.body if isinstance(n, ast.FunctionDef)]
    okw = None
    for w in inner:
        rets = [n for n in walk_no_nested(w) if isinstance(n, ast.Return)]
        if len(rets) == 1 and isinstance(rets[0].value, ast.Call) and norm(rets[0].value.func) == '_process_class' \
                and rets[0].value.args and w.args.args and norm(rets[0].value.args[0]) == w.args.args[0].arg:
            okw = w
            dropped = [p.arg for p in bs.args.kwonlyargs if p.arg not in {n.id for n in ast.walk(rets[0].value)
                                                                             if isinstance(n, ast.Name)}]
            if dropped:
                r.observations.append(f"bitstruct() does not forward {dropped} to _process_class (the flag is ignored; "
                                      f"not a clause of C06: a consistent __hash__ is always generated)")
    if okw is None:
        pr.append("no inner wrapper returns _process_class(<its class argument>, ...)")
    else:
        c0 = bs.args.args[0].arg if bs.args.args else None
        rets = [n for n in walk_no_nested(bs) if isinstance(n, ast.Return)]

        def alts(e):
            return alts(e.body) | alts(e.orelse) if isinstance(e, ast.IfExp) else {norm(e)}
        vals = set()
        for x in rets:
            vals |= alts(x.value)
        if not ({okw.name, f"{okw.name}({c0})"} >= vals and f"{okw.name}({c0})" in vals):
            pr.append(f"bitstruct returns {sorted(vals)}, expected the wrapper applied to the class")
    (r.bad(m, 'bitstruct', cons, '; '.join(pr), bs.lineno) if pr else r.ok(m, 'bitstruct', cons))
    # ---- mk_bitstruct
    mk = m.get_func('mk_bitstruct')
    cons = "mk_bitstruct: annotations = the given fields in order; class handed to bitstruct"
    pr = []
    annos = [n for n in walk_no_nested(mk) if isinstance(n, ast.Assign) and len(n.targets) == 1
             and isinstance(n.targets[0], ast.Subscript) and isinstance(n.targets[0].slice, ast.Constant)
             and n.targets[0].slice.value == '__annotations__']
    if len(annos) != 1 or not isinstance(annos[0].value, ast.Name):
        pr.append("the class namespace does not receive `__annotations__`")
    else:
        table = annos[0].value.id
        nsname = norm(annos[0].targets[0].value)
        p2, loop, src = _loop_fill_problems(mk, table, 'field')
        pr += p2
        fparam = mk.args.args[1].arg if len(mk.args.args) > 1 else None
        if src is not None and norm(src) != fparam:
            pr.append(f"annotations are built from `{norm(src)}`, not from the `{fparam}` argument")
        rets = [n for n in walk_no_nested(mk) if isinstance(n, ast.Return)]
        if len(rets) != 1 or not (isinstance(rets[0].value, ast.Call) and norm(rets[0].value.func) == 'bitstruct'
                                  and rets[0].value.args and isinstance(rets[0].value.args[0], ast.Name)):
            pr.append("does not return bitstruct(<new class>, ...)")
        else:
            cs = name_source(mk, rets[0].value.args[0].id, rets[0])
            if cs is None or cs[1] is not None or nsname not in {n.id for n in ast.walk(cs[0]) if isinstance(n, ast.Name)}:
                pr.append("the class passed to bitstruct is not created from the namespace holding the annotations")
    (r.bad(m, 'mk_bitstruct', cons, '; '.join(pr), mk.lineno) if pr else r.ok(m, 'mk_bitstruct', cons))
    r.evaluations = A.steps()
    floor(r, 15)
    return r


def _ancestors(n, stop):
    out = []
    p = parent(n)
    while p is not None and p is not stop:
        out.append(p)
        p = parent(p)
    return out


# ---------------------------------------------------------------------------
# R-C06-admit: the admission guard establishes what the generators assume about list fields
def _spec_levels(leaves, depth, maxlen):
    import itertools
    cur = list(leaves)
    for _ in range(depth):
        nxt = list(leaves)
        seen = set()
        for n in range(0 if _ == 0 else 1, maxlen + 1):
            for c in itertools.product(cur, repeat=n):
                nxt.append(list(c))
        cur = []
        for x in nxt:
            k = repr(x)
            if k not in seen:
                seen.add(k)
                cur.append(x)
    return cur


def _spec_shape(s):
    """('leaf', tag) / ('list', n, element shape) when every element has the shape of element 0, else a reason string"""
    if isinstance(s, U.Leaf):
        return ('leaf', s.tag) if s.kind != 'nontype' else 'invalid leaf'
    if not s:
        return 'empty list'
    shapes = [_spec_shape(e) for e in s]
    for sh in shapes:
        if isinstance(sh, str):
            return sh
    for sh in shapes[1:]:
        if sh != shapes[0]:
            a, b = shapes[0], sh
            while a[0] == b[0] == 'list' and a[1] == b[1]:
                a, b = a[2], b[2]
            if a[0] != b[0]:
                return 'nesting differs from element 0'
            if a[0] == 'list':
                return 'length differs from element 0'
            return 'leaf type differs from element 0'
    return ('list', len(s), shapes[0])


def _spec_size(s):
    return 1 if isinstance(s, U.Leaf) else 1 + sum(_spec_size(e) for e in s)


def admission_domain(thorough=False):
    A_, B_, P_, X_ = U.Leaf('A', 'bits'), U.Leaf('B', 'bits'), U.Leaf('P', 'struct'), U.Leaf('X', 'nontype')
    import itertools
    specs = _spec_levels([A_, B_, P_, X_], 2, 2)                      # every spec of depth <= 2, lists of length 0..2
    specs += [list(c) for c in itertools.product(_spec_levels([A_, B_], 1, 2), repeat=3)]   # three elements
    rows = [[A_], [B_], [A_, A_], [A_, B_], A_]
    specs += [[[x, y], [z, w]] for x in rows for y in rows for z in rows for w in rows]      # three dimensions
    if thorough:
        specs += _spec_levels([A_, B_], 3, 2)                           # every spec of depth <= 3
    out, seen = [], set()
    for sp in specs:
        k = repr(sp)
        if k not in seen:
            seen.add(k)
            out.append(sp)
    return out


def _rule_admit(repo, thorough):
    r = RuleResult('R-C06-admit',
                   "a list-typed field is admitted only if, at every nesting level, every element has the shape and leaf type "
                   "of element 0 -- the generators derive every element's width, default, slice and copy from type_[0] "
                   "(R-C06-traversal / R-C06-width); anything else is rejected with TypeError before the field table is built")
    m = repo.mod(BS)
    guard = m.get_func('_check_field_annotation')
    if len(guard.args.args) != 3:
        raise AnalysisError("_check_field_annotation signature changed")
    cats = {}
    quick = {repr(x) for x in admission_domain(False)} if thorough else set()
    for sp in admission_domain(thorough):
        if repr(sp) in quick:
            continue
        ti = U.TinyInterp(m)
        try:
            ti.call('_check_field_annotation', [U.Opaque(), 'f', sp])
            got = 'accepted'
        except U.TinyExc as ex:
            got = ex.cls
        r.evaluations += 1
        sh = _spec_shape(sp)
        cat = sh if isinstance(sh, str) else 'homogeneous'
        want = 'TypeError' if isinstance(sh, str) else 'accepted'
        c = cats.setdefault(cat, dict(n=0, bad=[]))
        c['n'] += 1
        if got != want:
            c['bad'].append((_spec_size(sp), repr(sp), got))
    for cat in ('homogeneous', 'leaf type differs from element 0', 'length differs from element 0',
                'nesting differs from element 0', 'invalid leaf', 'empty list'):
        c = cats.get(cat)
        if c is None:
            if thorough:
                continue
            raise AnalysisError(f"R-C06-admit: no spec of category {cat!r} was generated")
        want = 'accepted' if cat == 'homogeneous' else 'rejected with TypeError'
        cons = f"list specs [{cat}] are {want}"
        if c['bad']:
            size, text, got = sorted(c['bad'])[0]
            if cat == 'homogeneous':
                msg = f"the well-formed field type {text} is {got} ({len(c['bad'])} of {c['n']} such specs)"
            else:
                msg = (f"the field type {text} ({cat}) is {got} instead of rejected with TypeError ({len(c['bad'])} of "
                       f"{c['n']} such specs): the generated nbits / to_bits / from_bits / clone / @= / default value are all "
                       f"derived from element 0 and do not describe the other elements (nbits != sum of the declared leaf "
                       f"widths, from_bits(to_bits(v)) != v)")
            r.bad(m, '_recursive_check_array_types', cons + f": {text}", msg, m.get_func('_recursive_check_array_types').lineno)
        else:
            r.ok(m, '_recursive_check_array_types', cons, note=f"{c['n']} specs")
    # the guard runs for every annotation before the field enters the field table
    pc = m.get_func('_process_class')
    cons = "every annotation passes _check_field_annotation before it enters the field table"
    calls = [n for n in walk_no_nested(pc) if isinstance(n, ast.Call) and norm(n.func) == '_check_field_annotation']
    tables = {norm(n.args[0]) for n in walk_no_nested(pc) if isinstance(n, ast.Call) and isinstance(n.func, ast.Name)
              and n.func.id in GEN_SPEC and n.args}
    pr = []
    if len(calls) != 1 or len(tables) != 1:
        pr.append(f"{len(calls)} guard calls / field tables {sorted(tables)} in _process_class")
    else:
        call = calls[0]
        cst = stmt_of(call)
        p2, floop, src = _loop_fill_problems(pc, next(iter(tables)), 'field')      # judged by R-C06-wiring
        gloop = parent(cst)
        while gloop is not None and not isinstance(gloop, (ast.For, ast.FunctionDef)):
            gloop = parent(gloop)
        il = _items_loop(gloop) if isinstance(gloop, ast.For) else None
        if src is None:
            pr.append("cannot relate the guard to the construction of the field table (see R-C06-wiring)")
        elif il is None or norm(il[0]) != norm(src):
            pr.append("the guard is not called for every entry of the mapping the field table is built from")
        else:
            if len(call.args) != 3 or not same_value(pc, call.args[2], il[2], cst):
                pr.append(f"the guard checks `{norm(call.args[-1])}`, not the type of the current field")
            if guard_atom_set(cst, stop=gloop) or \
                    any(isinstance(n, (ast.Continue, ast.Break)) for x in gloop.body for n in walk_no_nested(x)):
                pr.append("the guard call is conditional / the loop can skip fields")
            # it must run before the field enters the table
            fill = None
            if floop is gloop and floop is not None:
                fill = [n for n in walk_no_nested(floop) if isinstance(n, ast.Assign) and len(n.targets) == 1
                        and isinstance(n.targets[0], ast.Subscript) and norm(n.targets[0].value) == next(iter(tables))]
                fill = fill[0] if fill else None
                before = fill is not None and any(x is cst for x in preceding_stmts(fill))
            else:
                later = [n for n in walk_no_nested(pc) if isinstance(n, ast.Call) and isinstance(n.func, ast.Name)
                         and n.func.id in GEN_SPEC]
                before = bool(later) and all(any(x is gloop for x in preceding_stmts(n)) for n in later)
            if not before:
                pr.append("the guard does not run before the field is stored / before the methods are generated")
    (r.bad(m, '_process_class', cons, '; '.join(pr), pc.lineno) if pr else r.ok(m, '_process_class', cons))
    floor(r, 6 if thorough else 7)
    return r


def rule_admit(repo):
    return _rule_admit(repo, False)


def rule_admit_deep(repo):
    """thorough tier: additionally every nested list spec of depth <= 3 over two leaf types (only the specs the
    quick domain does not contain, so a defect already reported there is not reported twice)"""
    r = _rule_admit(repo, True)
    r.rule = 'R-C06-admit-deep'
    for f in r.findings:
        f.rule = r.rule
    return r


# ---------------------------------------------------------------------------
# R-C06-grid: the generators unfolded for a grid of concrete field shapes; the EMITTED source is parsed and the
# actions it performs are enumerated (loops that the emitted code itself contains are iterated), then compared
# with the specification of the property for that shape.  Complements the induction rules: it also judges
# generators that emit run-time loops instead of unrolling, and end-to-end layout (absolute bit positions).
def grid_shapes():
    B = lambda w: U.Shape('bits', width=w)
    L = lambda e, n: U.Shape('list', n=n, elem=e)
    P = U.Shape('struct', name='P', fields=[('a', B(2)), ('b', L(B(5), 2))])
    Q = U.Shape('struct', name='Q', fields=[('p', P), ('l', L(L(B(2), 2), 3))])
    return [B(4), P, L(B(4), 1), L(B(4), 2), L(B(4), 3), L(L(B(4), 2), 2), L(L(B(4), 3), 2), L(L(B(4), 2), 3),
            L(L(L(B(4), 2), 3), 2), L(P, 2), L(L(P, 2), 2), Q, L(Q, 2)]


def _leaves_delegate(shape, path):
    if shape.kind == 'list':
        return [p for i in range(shape.n) for p in _leaves_delegate(shape.elem, f"{path}[{i}]")]
    return [path]


def _leaves_packed(shape, path):
    """(path, width) of every Bits leaf in packing order, most significant first"""
    if shape.kind == 'bits':
        return [(path, shape.width)]
    if shape.kind == 'struct':
        return [x for n, f in shape.fields for x in _leaves_packed(f, f"{path}.{n}")]
    return [x for i in range(shape.n - 1, -1, -1) for x in _leaves_packed(shape.elem, f"{path}[{i}]")]


def _expected_clone(shape, path):
    if shape.kind == 'list':
        return ('list', tuple(_expected_clone(shape.elem, f"{path}[{i}]") for i in range(shape.n)))
    return ('call', path + '.clone', ())


def _expected_unpack(shape, pos, src):
    """normal form of the from_bits argument for `shape` whose most significant bit is just below pos[0]"""
    if shape.kind == 'bits':
        hi = pos[0]
        pos[0] -= shape.width
        return ('slice', src, pos[0], hi, False)
    if shape.kind == 'struct':
        return ('call', '*', tuple(_expected_unpack(f, pos, src) for _, f in shape.fields))
    elems = [_expected_unpack(shape.elem, pos, src) for _ in range(shape.n)]      # element n-1 is most significant
    return ('list', tuple(reversed(elems)))


def _anon_calls(x, keep):
    if isinstance(x, tuple) and x and x[0] == 'call':
        return ('call', x[1] if x[1] in keep else '*', tuple(_anon_calls(a, keep) for a in x[2]))
    if isinstance(x, tuple) and x and x[0] == 'list':
        return ('list', tuple(_anon_calls(a, keep) for a in x[1]))
    return x


def _first_diff(a, b, where='result'):
    if type(a) != type(b) or not isinstance(a, tuple):
        return None if a == b else f"{where}: generated {a!r}, specified {b!r}"
    if a[:1] != b[:1] or (a[0] in ('call',) and a[1] != b[1]):
        return f"{where}: generated {_short(a)}, specified {_short(b)}"
    if a[0] in ('call', 'list'):
        xs, ys = a[-1], b[-1]
        if len(xs) != len(ys):
            return f"{where}: {len(xs)} elements/arguments generated, {len(ys)} specified"
        for i, (x, y) in enumerate(zip(xs, ys)):
            d = _first_diff(x, y, f"{where}[{i}]")
            if d:
                return d
        return None
    return None if a == b else f"{where}: generated {_short(a)}, specified {_short(b)}"


def _short(x):
    if isinstance(x, tuple) and x:
        if x[0] == 'slice':
            return f"{x[1]}[{x[2]}:{x[3]}]"
        if x[0] == 'path':
            return x[1]
        if x[0] == 'call':
            return f"{x[1]}(...{len(x[2])} args)"
        if x[0] == 'list':
            return f"[...{len(x[1])} elements]"
    return repr(x)[:60]


def rule_grid(repo):
    r = RuleResult('R-C06-grid',
                   "for every shape of a grid (Bits, nested struct, 1/2/3-dimensional lists, lists of structs, struct with "
                   "lists) the emitted @=/<<=/_flip touch every leaf exactly once leaf-wise, clone copies element k to position "
                   "k, to_bits lists the leaves first-field-most-significant / element 0 least significant with nbits = sum of "
                   "widths, and from_bits cuts every leaf from exactly the bits to_bits put it in")
    from collections import Counter, OrderedDict
    A = analysis(repo)
    m = A.m
    for shape in grid_shapes():
        fields = OrderedDict([('x', U.Shape('bits', width=3)), ('f', shape), ('z', U.Shape('bits', width=1))])
        total_spec = sum(f.nbits for f in fields.values())
        delegate = [p for n, f in fields.items() for p in _leaves_delegate(f, n)]
        packed = [x for n, f in fields.items() for x in _leaves_packed(f, n)]
        total_gen = None
        for gname in ('_mk_imatmul_fn', '_mk_ff_fn', '_mk_clone_fn', '_mk_deepcopy_fn', '_mk_nbits_to_bits_fn',
                      '_mk_from_bits_fns'):
            try:
                items = grid_run(m, gname, fields, total_gen if total_gen is not None else total_spec)
                r.evaluations += 1
            except AnalysisError as ex1:
                # fallback: unfold the symbolic result of the induction analysis for this shape
                try:
                    g = A.gen(gname)
                    fs = g.fields_sym()
                    if fs is None:
                        raise AnalysisError(f"{gname} does not iterate its field table")
                    extra = []
                    for val in g.ev.final_env.vars.values():
                        if isinstance(val, U.V):
                            extra += [x for x in U.walk_values(val) if isinstance(x, Fold) and x not in extra]
                    conc = U.Concretiser({h.name: h for h in g.helpers.values()}, folds=extra)
                    conc.module = m
                    env = {fs: fields}
                    if gname == '_mk_from_bits_fns':
                        others = [p_ for p_ in g.params if Sym(p_) != fs]
                        env[Sym(others[0])] = total_gen if total_gen is not None else total_spec
                    res = conc.with_folds(g.top, env)
                    r.evaluations += conc.steps
                    items = res if isinstance(res, tuple) else (res,)
                except AnalysisError as ex:
                    # the induction rules judge this generator; the grid only has to decide when they deferred to it
                    deferred = isinstance(ex, Deferred)
                    if not deferred:
                        try:
                            deferred = generator_defers_to_grid(A.gen(gname))
                        except AnalysisError:
                            deferred = True
                    if deferred:
                        raise AnalysisError(f"R-C06-grid cannot evaluate {gname} for f: {shape!r}: {ex1}")
                    r.ok(m, gname, f"{gname} for f: {shape!r}", nontrivial=False, note=f"not decided on the grid: {ex1}")
                    if str(ex1) not in ' '.join(r.observations):
                        r.observations.append(f"{gname}: not evaluated on the grid ({ex1}); judged by the induction rules only")
                    continue
            for it in items:
                if not isinstance(it, dict):
                    if gname == '_mk_nbits_to_bits_fn':
                        total_gen = it
                        cons = f"nbits for f: {shape!r}"
                        if it == total_spec:
                            r.ok(m, gname, cons)
                        else:
                            r.bad(m, gname, cons, f"for fields (x: Bits3, f: {shape!r}, z: Bits1) the generated nbits is {it}, "
                                  f"the sum of the leaf widths is {total_spec}", m.get_func(gname).lineno)
                    continue
                fname = it['name']
                src = f"def {fname}({', '.join(it['args'])}):\n" + '\n'.join('  ' + b for b in it['body'])
                cons = f"{fname} for f: {shape!r}"
                try:
                    fd = ast.parse(src).body[0]
                except SyntaxError as ex:
                    r.bad(m, gname, cons, f"the generated source does not compile: {ex.msg}: {src[:200]!r}", m.get_func(gname).lineno)
                    continue
                acts = U.emitted_actions(fd)
                msg = _judge_emitted(fname, acts, delegate, packed, fields, total_spec, Counter)
                if msg:
                    r.bad(m, gname, cons, f"for fields (x: Bits3, f: {shape!r}, z: Bits1): " + msg, m.get_func(gname).lineno)
                else:
                    r.ok(m, gname, cons)
    floor(r, 104)
    return r


def _leaf_ranges(delegate, packed, total):
    """bit range [lo, hi) of every delegate-level leaf (a list element / nested struct as a whole) in the packed value"""
    pos, rng = total, {}
    for path, w in packed:
        rng[path] = (pos - w, pos)
        pos -= w
    out = {}
    for p in delegate:
        sub = [r_ for q, r_ in rng.items() if q == p or q.startswith(p + '.') or q.startswith(p + '[')]
        out[p] = (min(a for a, _ in sub), max(b for _, b in sub))
    return out


def _judge_conversion(fname, cond, delegate, packed, total):
    """the block the emitted @= / <<= runs for a right-hand side of another class: either the conversion
    other = self.__class__.from_bits(other.to_bits()), or a direct leaf-wise unpacking of the packed value that must
    cut every leaf from the bits from_bits / to_bits assign to it"""
    std = ('call', (('call', 'other.to_bits', ()),))
    if len(cond) == 1 and cond[0][0] == 'assign' and cond[0][1] == ('other',) and cond[0][2][0] == 'call' \
            and cond[0][2][1] in ('self.__class__.from_bits', 'type(self).from_bits') and cond[0][2][2] == std[1]:
        return None
    op = 'MatMult' if fname == '__imatmul__' else 'LShift'
    rng = _leaf_ranges(delegate, packed, total)
    src = None
    seen = {}
    for a in cond:
        if a[0] == 'assign' and len(a[1]) == 1 and a[2] == ('call', f"{a[1][0]}.to_bits", ()):
            src = a[1][0]
        elif a[0] == 'aug' and a[1] == op and isinstance(a[3], tuple) and a[3][0] == 'slice' and a[2].startswith('self.'):
            if a[2][5:] in seen:
                return f"on the foreign right-hand-side path {a[2]} is written twice"
            seen[a[2][5:]] = a[3]
        elif a[0] == 'return' and a[1] == ('path', 'self'):
            continue
        else:
            return (f"a right-hand side of another class is neither converted with self.__class__.from_bits(other.to_bits()) "
                    f"nor unpacked leaf by leaf (unexpected action {a!r:.90})")
    if not cond or cond[-1] != ('return', ('path', 'self')):
        return "the foreign right-hand-side path neither converts `other` nor returns self after unpacking it"
    for p in delegate:
        if p not in seen:
            return f"on the foreign right-hand-side path the leaf {p} is never written"
        got = seen[p]
        lo, hi = rng[p]
        if (got[2], got[3]) != (lo, hi) or got[4] or (src is not None and got[1] != src):
            return (f"a packed right-hand side is unpacked differently from from_bits/to_bits: self.{p} receives "
                    f"{got[1]}[{got[2]}:{got[3]}], its bits in the packed layout are [{lo}:{hi}] (so `s <<= b` and "
                    f"`s @= b` / from_bits(b) disagree)")
    extra = sorted(set(seen) - set(delegate))
    if extra:
        return f"on the foreign right-hand-side path unexpected leaves are written: {extra[:4]}"
    return None


def _judge_emitted(fname, acts, delegate, packed, fields, total, Counter):
    cond = [a[1] for a in acts if a[0] == 'cond']
    acts = [a for a in acts if a[0] != 'cond']
    if fname in ('__imatmul__', '__ilshift__') and cond:
        msg = _judge_conversion(fname, cond, delegate, packed, total)
        if msg:
            return msg
    elif cond:
        return f"the generated {fname} contains a conditional block"
    rets = [a for a in acts if a[0] == 'return']
    if fname in ('__imatmul__', '__ilshift__', '_flip'):
        if fname == '_flip':
            got = Counter(a[1] for a in acts if a[0] == 'call')
            want = Counter(f"self.{p}._flip" for p in delegate)
            other = [a for a in acts if a[0] not in ('call', 'return')]
            label = lambda k: k[5:-6]
        else:
            op = 'MatMult' if fname == '__imatmul__' else 'LShift'
            got = Counter((a[1], a[2], a[3]) for a in acts if a[0] == 'aug')
            want = Counter((op, f"self.{p}", f"other.{p}") for p in delegate)
            other = [a for a in acts if a[0] not in ('aug', 'return', 'if')]
            label = lambda k: k[1][5:] if k[0] == op and k[1][5:] == k[2][6:] else f"{k[1]} {k[0]} {k[2]}"
            if not rets or rets[-1] != ('return', ('path', 'self')) or acts[-1][0] != 'return':
                return "the generated function does not end with `return self`"
        missing = sorted(label(k) for k in (want - got))
        extra = sorted(label(k) for k in (got - want))
        if missing or extra or other:
            parts = []
            if missing:
                parts.append(f"leaves never {'flipped' if fname == '_flip' else 'copied'}: {', '.join(missing[:6])}"
                             + (f" (+{len(missing) - 6} more)" if len(missing) > 6 else ''))
            if extra:
                parts.append(f"unexpected / repeated actions: {', '.join(extra[:4])}")
            if other:
                parts.append(f"unexpected statement {other[0]!r}")
            return f"the generated {fname} does not treat every leaf exactly once -- " + '; '.join(parts)
        return None
    if len(rets) != 1 or acts[-1][0] != 'return' or any(a[0] in ('aug', 'call') for a in acts):
        return f"the generated {fname} is not a single return of the built value"
    got = rets[0][1]
    if fname in ('clone', '__deepcopy__'):
        want = ('call', 'self.__class__', tuple(_expected_clone(f, f"self.{n}") for n, f in fields.items()))
        return _first_diff(got, want, fname + '()')
    if fname == 'to_bits':
        want = ('call', 'concat', tuple(('path', f"self.{p}") for p, w in packed))
        return _first_diff(got, want, 'concat')
    if fname == 'from_bits':
        assigns = [a for a in acts if a[0] == 'assign']
        src = assigns[-1][1][0] if assigns else 'other'
        pos = [total]
        want = ('call', 'cls', tuple(_expected_unpack(f, pos, src) for f in fields.values()))
        return _first_diff(_anon_calls(got, ('cls',)), want, 'cls')
    raise AnalysisError(f"no grid specification for generated function {fname}")


# ---------------------------------------------------------------------------
# R-C06-fresh: every leaf object stored by the generated from_bits / __init__ / clone is freshly constructed
def classify_emitted(e):
    """how an emitted expression obtains its object"""
    if isinstance(e, ast.Call):
        if isinstance(e.func, ast.Attribute) and e.func.attr in ('clone', '__deepcopy__'):
            return 'copy-call'
        return 'constructor-call'
    if isinstance(e, ast.List):
        return 'list-literal'
    if isinstance(e, ast.Subscript) and isinstance(e.slice, ast.Slice):
        return 'slice'
    if isinstance(e, (ast.IfExp, ast.BoolOp)):
        return 'pass-through'
    if isinstance(e, (ast.Name, ast.Attribute, ast.Subscript)):
        return 'reference'
    return 'other'


def rule_fresh(repo):
    r = RuleResult('R-C06-fresh',
                   "every leaf stored by the generated from_bits / clone / __init__ is a freshly constructed object: a "
                   "constructor call of the field type, a .clone() call, or a slice x[lo:hi] of the packed value (fresh by "
                   "R-C05-value, evaluated here as well) -- never a reference to, or a conditional pass-through of, an operand")
    A = analysis(repo)
    m = A.m
    # --- from_bits
    if gen_or_defer(r, A, '_mk_from_bits_fns') is not None:
        g, h, ci, si = from_bits_parts(A)
        fb_variants = h.variants()
    else:
        fb_variants = []
    for hv in fb_variants:
        for kind, allowed, what in (('bits', ('slice', 'constructor-call'), 'Bits leaf'),
                                    ('struct', ('constructor-call',), 'nested struct'),
                                    ('list', ('list-literal',), 'list')):
            if hv.label and not hv.label.startswith(f" [{kind} "):
                continue
            t = one_item(hv.comps(kind)[si])
            cons = f"from_bits {what}"
            if t is None:
                r.bad(m, hv.where, cons, f"the {kind} case emits {show(hv.comps(kind)[si])[:80]}: not one expression", h.fdef.lineno)
                continue
            hl = U.Holes()
            e, src, err = U.parse_text(t, hl, 'eval')
            cls_ = 'other' if err else classify_emitted(e)
            if cls_ in allowed:
                r.ok(m, hv.where, f"{cons}: {cls_}", note=show(t)[:80])
            else:
                r.bad(m, hv.where, f"{cons}: {show(t)[:80]}", f"from_bits obtains a {what} by `{src}` ({cls_}): the value stored "
                      f"in the new struct may be the very object it was read from (aliasing in both directions)", h.fdef.lineno)
    # --- clone / deepcopy
    gc = gen_or_defer(r, A, '_mk_clone_fn')
    hc = the_helper(gc) if gc is not None else None
    for hv in (hc.variants(('bits', 'struct')) if hc is not None else []):
        for kind in ('bits', 'struct'):
            if hv.label and not hv.label.startswith(f" [{kind} "):
                continue
            t = hv.cases[kind][0]
            cons = f"clone {kind} leaf"
            hl = U.Holes()
            e, src, err = U.parse_text(t, hl, 'eval') if stringish(t) else (None, show(t), 'x')
            cls_ = 'other' if err else classify_emitted(e)
            if cls_ in ('copy-call', 'constructor-call'):
                r.ok(m, hv.where, f"{cons}: {cls_}", nontrivial=(kind == 'bits'))
            else:
                r.bad(m, hv.where, f"{cons}: {show(t)[:80]}", f"clone obtains a leaf by `{src}` ({cls_}): the copy shares the object "
                      f"with the original", hc.fdef.lineno)
    # --- __init__: what is stored per field
    gi = A.gen('_mk_init_fn', KINDS)
    for kind in KINDS:
        fn, ev = gi.tops[kind]
        cons = f"__init__ stores a {kind} field"
        hl = U.Holes()
        fd, src, err = U.parse_fn(fn, hl) if isinstance(fn, Fn) else (None, '', 'not a function')
        sts = [st for st in (fd.body if fd is not None else []) if isinstance(st, ast.Assign)]
        if fd is None or len(sts) != 1:
            r.bad(m, gi.name, cons, f"cannot find the per-field assignment in the generated __init__ ({err})", gi.fdef.lineno)
            continue
        v = sts[0].value
        cls_ = classify_emitted(v)
        params = [a.arg for a in fd.args.args][1:]
        if kind == 'bits':
            ok = cls_ == 'constructor-call'
            why = "a Bits field must be stored as <field type>(<argument>): storing the argument itself (also conditionally, e.g. "                   "when it already has the field's type) makes the struct alias the caller's object"
        else:
            # <argument> or <fresh default>: the argument passes through by design; every generated caller (from_bits, clone)
            # passes a freshly built object (clauses above), the default must be a constructor call / list literal
            ok = isinstance(v, ast.BoolOp) and isinstance(v.op, ast.Or) and len(v.values) == 2 \
                and isinstance(v.values[0], ast.Name) and isinstance(hl.value(v.values[0].id), LoopVar) \
                and hl.value(v.values[0].id).role == 'key' and len(params) == 1 \
                and isinstance(hl.value(params[0]), LoopVar) and hl.value(params[0]).role == 'key' \
                and isinstance(hl.value(getattr(v.values[1], 'id', '')), Rec)
            why = f"a {kind} field must be stored as `<argument> or <freshly built default>`"
            if ok:
                d = a_default = fd.args.defaults[0] if fd.args.defaults else None
                if not (isinstance(d, ast.Constant) and d.value is None):
                    ok = False
                    why = (f"the signature default of a {kind} field is `{norm(d)}`: a default expression is evaluated once, so every "
                           f"instance built without that argument shares one object (the sentinel must be None)")
        if ok:
            r.ok(m, gi.name, f"{cons}: {cls_}")
        else:
            r.bad(m, gi.name, f"{cons}: {norm(v)[:80]}", why, gi.fdef.lineno)
    out = [r]
    # --- the primitives the clauses above rely on (Bits slicing / clone / concat build new objects): C05's rule
    try:
        from rules import c05
        prim = getattr(c05, 'rule_value_semantics', None)
    except Exception:
        prim = None
    if prim is not None:
        res = prim(repo)
        out += res if isinstance(res, list) else [res]
    else:
        r.observations.append("rules.c05.rule_value_semantics not available: freshness of x[lo:hi] / clone() is assumed")
    r.evaluations = A.steps()
    floor(r, 8)
    return out


# ---------------------------------------------------------------------------
# R-C06-concat
def rule_concat(repo):
    r = RuleResult('R-C06-concat', "concat(a, b, ...) places its first operand most significant, each operand shifted by the "
                                   "widths of the later ones, and the result width is the sum of the operand widths")
    m = repo.mod(HELPERS)
    f = m.functions.get('concat')
    if f is None:
        raise AnalysisError("anchor vanished: concat in helpers.py")
    if f.args.vararg is None or f.args.args:
        raise AnalysisError("concat no longer takes *args")
    v, ev = U.eval_generator(m, f, None)
    r.evaluations = ev.steps
    # every return path must build a fresh Bits(width, value); the accumulating path is analysed below
    arms = U.alternatives(v)
    good = [(c, a) for c, a in arms if isinstance(a, CallV) and len(a.args) == 2 and not a.kwargs
            and any(isinstance(x, Fold) for x in a.args)]
    for c, a in arms:
        if (c, a) in good[:1]:
            continue
        if isinstance(a, CallV) and a.fn == 'Bits' and len(a.args) == 2:
            continue            # another freshly built Bits (judged only for freshness)
        r.bad(m, 'concat', f"return path [{U.show_conds(c)}]: {show(a)}",
              f"on the path `{U.show_conds(c)}` concat returns {show(a)}: the result is not a freshly built Bits(<sum of "
              f"widths>, <value>) on every path -- e.g. to_bits() of a struct with a single leaf would return the field "
              f"object itself (aliasing: a later @= on the field changes the 'packed copy'), or a value of another type/width",
              f.lineno)
    if not good:
        if not r.findings:
            r.bad(m, 'concat', 'result', f"returns {show(v)}, not Bits(<total width>, <value>)", f.lineno)
        return r
    v = good[0][1]
    cons = f"result constructor {v.fn}(width, value)"
    if v.fn not in ('Bits',):
        r.bad(m, 'concat', cons, f"result is built with {v.fn}", f.lineno)
    else:
        r.ok(m, 'concat', cons, nontrivial=False, note="Bits(nbits, ..) rejects nbits >= 1024: the total width limit")
    w, val = v.args
    args = Sym(f.args.vararg.arg)

    def loop_ok(fold, what):
        if not isinstance(fold, Fold):
            return [f"the {what} is {show(fold)}, not accumulated over the operands"], None
        pr = flags_problem(ev, fold.loop, 'operands')
        sp = fold.loop.space
        if not (isinstance(sp, KeysSp) and sp.d == args):
            pr.append(f"iterates {show(sp)}, not the operands in the order given")
        if fold.init != Lin(0):
            pr.append(f"the {what} starts at {show(fold.init)}")
        return pr, LoopVar(fold.loop, 'key')
    cons = "width = sum of operand widths"
    summed = False
    if isinstance(w, CallV) and w.fn == 'sum' and len(w.args) == 1 and isinstance(w.args[0], SeqV):
        # closed form: sum(x.nbits for x in args)
        ents = list(U.flatten(w.args[0].segs))
        if len(ents) == 1 and isinstance(ents[0][0], Item) and len(ents[0][1]) == 1 and not ents[0][2]:
            Ls = ents[0][1][0].loop
            if isinstance(Ls.space, KeysSp) and Ls.space.d == args and not ev.loop_flags.get(Ls.id) \
                    and U.unlin(ents[0][0].v) == Attr(LoopVar(Ls, 'key'), 'nbits'):
                summed = True
    pr, x = ([], None) if summed else loop_ok(w, 'width')
    if x is not None and not pr:
        want = U.lin(Carried(w.loop, w.name)).add(U.lin(Attr(x, 'nbits')))
        if U.lin(w.step) != want:
            pr.append(f"each operand changes the width to {show(w.step)}, must add the operand's nbits")
    (r.bad(m, 'concat', cons, '; '.join(pr), f.lineno) if pr else r.ok(m, 'concat', cons))
    cons = "value = (value << width of this operand) | operand: first operand ends most significant"
    pr, x = loop_ok(val, 'value')
    if x is not None and not pr:
        st = val.step
        ok = False
        if isinstance(st, Bin) and st.op in ('BitOr', 'Add', 'BitXor'):
            for a, b in ((st.l, st.r), (st.r, st.l)):
                if isinstance(a, Bin) and a.op == 'LShift' and a.l == Carried(val.loop, val.name) \
                        and U.unlin(a.r) == Attr(x, 'nbits') \
                        and b in (CallV('.uint', (x,), ()), x, CallV('.__int__', (x,), ()), Attr(x, '_uint')):
                    ok = True
        if not ok:
            pr.append(f"each operand updates the value to {show(st)}: not `(value << operand.nbits) | operand.uint()`; "
                      f"operands would overlap or end up in another order")
        if w.loop != val.loop if isinstance(w, Fold) else False:
            pr.append("width and value are accumulated in different loops")
    (r.bad(m, 'concat', cons, '; '.join(pr), f.lineno) if pr else r.ok(m, 'concat', cons))
    floor(r, 3)
    return r


def rule_cache(repo):
    """The class cache may only merge declarations whose generated methods are identical."""
    r = RuleResult('R-C06-cache', "two struct declarations share a cached class only if name, ORDERED (field, type) list and options "
                                  "are equal -- field order determines the packed layout")
    m = repo.mod(BS)
    f = m.get_func('_process_class')
    hs = [s for s in ast.walk(f) if isinstance(s, ast.Assign) and isinstance(s.value, ast.Call) and norm(s.value.func) == 'hash'
          and any(norm(t).endswith('_hash') for t in s.targets)]
    if len(hs) != 1 or not isinstance(hs[0].value.args[0], ast.Tuple):
        raise AnalysisError("anchor vanished: bitstruct class-cache key in _process_class")
    key = hs[0].value.args[0]
    elts = [norm(e) for e in key.elts]
    cons = 'cache key = hash((' + ', '.join(elts) + '))'
    # which dict holds the (name -> hashable type) items, filled in declaration order
    ordered = None
    for e in key.elts:
        inner = e.value if isinstance(e, ast.Starred) else e
        txt = norm(inner)
        if '.items()' in txt:
            wrappers = []
            cur = inner
            while isinstance(cur, ast.Call) and not norm(cur).endswith('.items()'):
                wrappers.append(norm(cur.func))
                cur = cur.args[0] if cur.args else cur
            if any(w in ('frozenset', 'set', 'dict', 'sorted') for w in wrappers):
                ordered = False
            else:
                ordered = norm(cur)[:-len('.items()')]
    flags = {'add_init', 'add_str', 'add_repr', 'add_hash'}
    if ordered is None or ordered is False:
        r.bad(m, '_process_class', cons, "the cache key does not contain the ordered (field, type) sequence: a second declaration with the "
              "same name and the same fields in another order gets the first declaration's class (its layout and positional constructor)", hs[0].lineno)
    elif 'cls.__name__' not in elts:
        r.bad(m, '_process_class', cons, "the class name is not part of the cache key", hs[0].lineno)
    elif not flags <= set(elts):
        r.bad(m, '_process_class', cons, f"options {sorted(flags - set(elts))} are not part of the cache key", hs[0].lineno)
    else:
        # the hashed dict is filled for every annotation, in the annotation loop, with the list-to-tuple converted type
        fill = [s for s in ast.walk(f) if isinstance(s, ast.Assign) and isinstance(s.targets[0], ast.Subscript)
                and norm(s.targets[0].value) == ordered]
        ok = len(fill) == 1
        if ok:
            lp = fill[0]
            while lp is not None and not isinstance(lp, ast.For):
                lp = getattr(lp, '_parent', None)
            il = _items_loop(lp) if lp is not None else None      # items() / keys() / plain iteration over the annotations
            ok = il is not None and not any(isinstance(x, (ast.Continue, ast.Break)) for x in ast.walk(lp)) and not lp.orelse \
                and same_value(f, fill[0].targets[0].slice, il[1], fill[0]) \
                and any(same_value(f, sub, il[2], fill[0]) for sub in ast.walk(fill[0].value) if isinstance(sub, (ast.Name, ast.Subscript))) \
                and not guard_atom_set(fill[0], stop=lp)
        (r.ok if ok else r.bad)(m, '_process_class', cons, *([] if ok else ["the hashed field table is not filled for every annotated field", hs[0].lineno]))
    # hit path returns the cached class; miss path stores before generating
    hit = [s for s in ast.walk(f) if isinstance(s, ast.If) and '_bitstruct_hash_cache' in norm(s.test) and ' in ' in norm(s.test)]
    ok = len(hit) == 1 and any(isinstance(x, ast.Return) and '_bitstruct_hash_cache[' in norm(x.value) for x in hit[0].body)
    (r.ok if ok else r.bad)(m, '_process_class', 'cache hit returns the cached class', *([] if ok else ["cache lookup shape changed", f.lineno]))
    r.require_floor(2)
    return r


def rule_leaf_values(repo):
    """to_bits concatenates the leaves' stored values: every leaf value (also one written with <<= and flipped) must lie in
    [0, 2^n) or the packed value is corrupted above that field (shared with C04: R-C04-range over every writer of _uint/_next)"""
    from rules.c04 import rule_range
    return rule_range(repo)


def rule_leaf_width_tables(repo):
    """a struct whose leaves sum to any width the Bits constructor accepts must pack: the leaf type's mask tables cover that whole
    range.  Shared with C04 (R-C04-tables)."""
    from rules.c04 import rule_tables
    return rule_tables(repo)


def rule_leaf_effects(repo):
    """the struct's staged (<<=) and visible (@=) values are kept apart leaf by leaf only if the leaf type keeps them apart: a
    blocking write must not touch the pending value and vice versa.  Shared with C07 (R-C07-effects)."""
    from rules.c07 import rule_effects
    return rule_effects(repo)


RULES = [rule_traversal, rule_leaf, rule_width, rule_mirror, rule_eqhash, rule_init, rule_wiring, rule_admit, rule_grid, rule_fresh, rule_concat, rule_cache, rule_leaf_values,
         rule_leaf_effects, rule_leaf_width_tables]
THOROUGH_RULES = [rule_admit_deep]


# ---------------------------------------------------------------------------
# self-test of the checker (thorough tier)
def _m(name, old, new, rule=None, file=BS, count=1):
    return dict(name=name, file=file, old=old, new=new, rule=rule, count=count)


MUTANTS = [
    _m('cache-key-unordered', "hash( (cls.__name__, *tuple(hashable_fields.items()),", "hash( (cls.__name__, frozenset(hashable_fields.items()),", 'R-C06-cache'),
    _m('cache-key-no-flags', "                             add_init, add_str, add_repr, add_hash) )", "                             add_init) )", 'R-C06-cache'),
    # --- layout direction / mirror
    _m('to-bits-list-ascending', "for i in reversed(range(len(type_))):", "for i in range(len(type_)):", 'R-C06-traversal'),
    _m('from-bits-list-not-reversed', """[ f"[{','.join(reversed(from_strs))}]" ]""", """[ f"[{','.join(from_strs)}]" ]""",
       'R-C06-mirror'),
    _m('from-bits-struct-args-reversed', """[ f"{type_name}({','.join(from_strs)})" ]""",
       """[ f"{type_name}({','.join(reversed(from_strs))})" ]""", 'R-C06-leaf'),
    _m('to-bits-nested-fields-reversed', """      for name, typ in getattr(type_, _FIELDS).items():
        start_bit, tos""", """      for name, typ in reversed(getattr(type_, _FIELDS).items()):
        start_bit, tos""", 'R-C06-traversal'),
    _m('from-bits-top-args-reversed', """f"return cls({','.join(from_bits_strs)})" ]""",
       """f"return cls({','.join(reversed(from_bits_strs))})" ]""", 'R-C06-leaf'),
    _m('to-bits-operands-reversed', """[ f"return concat({', '.join(to_bits_strs)})" ]""",
       """[ f"return concat({', '.join(to_bits_strs[::-1])})" ]""", 'R-C06-leaf'),
    _m('from-bits-fields-sorted', """  for _, type_ in fields.items():
    end_bit, fs""", """  for _, type_ in sorted(fields.items(), key=str):
    end_bit, fs""", 'R-C06'),
    # --- width bookkeeping
    _m('to-bits-leaf-width-off', "end_bit = start_bit + type_.nbits", "end_bit = start_bit + type_.nbits + 1", 'R-C06-width'),
    _m('to-bits-total-starts-at-one', "  total_nbits  = 0", "  total_nbits  = 1", 'R-C06-width'),
    _m('to-bits-list-counter-not-threaded', """        start_bit, tos = _gen_to_bits_strs( type_[0], f"{prefix}[{i}]", start_bit )""",
       """        _, tos = _gen_to_bits_strs( type_[0], f"{prefix}[{i}]", start_bit )""", 'R-C06-width'),
    _m('from-bits-leaf-width-off', "start_bit = end_bit - type_.nbits", "start_bit = end_bit - type_.nbits + 1", 'R-C06-width'),
    _m('from-bits-leaf-returns-end', """      return start_bit, [ f"other[{start_bit}:{end_bit}]" ]""",
       """      return end_bit, [ f"other[{start_bit}:{end_bit}]" ]""", 'R-C06-width'),
    _m('from-bits-slice-bounds-swapped', """f"other[{start_bit}:{end_bit}]\"""", """f"other[{end_bit}:{start_bit}]\"""", 'R-C06-width'),
    _m('from-bits-slice-upper-off', """f"other[{start_bit}:{end_bit}]\"""", """f"other[{start_bit}:{end_bit-1}]\"""", 'R-C06-width'),
    _m('from-bits-final-assert-dropped', "  assert end_bit == 0\n", "  pass\n", 'R-C06-width'),
    _m('from-bits-struct-counter-not-threaded', """        end_bit, fs = _gen_from_bits_strs( typ, end_bit )""",
       """        _, fs = _gen_from_bits_strs( typ, end_bit )""", 'R-C06-width'),
    _m('from-bits-list-two-strings', """      return end_bit, [ f"[{','.join(reversed(from_strs))}]" ]""",
       """      return end_bit, list(reversed(from_strs))""", 'R-C06'),
    # --- traversal completeness / paths
    _m('imatmul-skips-element-0', """      for i in range(len(type_)):
        ret.extend""", """      for i in range(1, len(type_)):
        ret.extend""", 'R-C06-traversal'),
    _m('ff-skips-last-element', """      for i in range(len(type_)):
        ils, fls""", """      for i in range(len(type_)-1):
        ils, fls""", 'R-C06-traversal'),
    _m('ff-flip-gets-ilshift-strings', "        flip_strs.extend( fls )\n      return", "        flip_strs.extend( ils )\n      return",
       'R-C06-traversal'),
    _m('to-bits-list-index-constant', """_gen_to_bits_strs( type_[0], f"{prefix}[{i}]", start_bit )""",
       """_gen_to_bits_strs( type_[0], f"{prefix}[0]", start_bit )""", 'R-C06-traversal'),
    _m('to-bits-nested-name-dropped', """_gen_to_bits_strs( typ, f"{prefix}.{name}", start_bit )""",
       """_gen_to_bits_strs( typ, f"{prefix}", start_bit )""", 'R-C06-traversal'),
    _m('clone-list-reversed', """for i in range(len(type_)) ] ) + "]\"""", """for i in reversed(range(len(type_))) ] ) + "]\"""",
       'R-C06-traversal'),
    _m('imatmul-skips-private-fields', """  for name, type_ in fields.items():
    imatmul_strs.extend( _gen_list_imatmul_strs( type_, name ) )""", """  for name, type_ in fields.items():
    if name.startswith('_'): continue
    imatmul_strs.extend( _gen_list_imatmul_strs( type_, name ) )""", 'R-C06-traversal'),
    _m('clone-first-field-only', """  for name, type_ in fields.items():
    clone_strs.append( "  " + _gen_list_clone_strs( type_, f'self.{name}' ) + "," )

  return _create_fn(
    'clone',""", """  for name, type_ in list(fields.items())[:1]:
    clone_strs.append( "  " + _gen_list_clone_strs( type_, f'self.{name}' ) + "," )

  return _create_fn(
    'clone',""", 'R-C06-traversal'),
    # --- leaf actions / aliasing
    _m('imatmul-leaf-aliases', """[ f"self.{prefix} @= other.{prefix}" ]""", """[ f"self.{prefix} = other.{prefix}" ]""", 'R-C06-leaf'),
    _m('ilshift-leaf-blocking', """[ f"self.{prefix} <<= other.{prefix}" ]""", """[ f"self.{prefix} @= other.{prefix}" ]""", 'R-C06-leaf'),
    _m('ff-results-swapped', """return [ f"self.{prefix} <<= other.{prefix}" ], [f"self.{prefix}._flip()"]""",
       """return [f"self.{prefix}._flip()"], [ f"self.{prefix} <<= other.{prefix}" ]""", 'R-C06-leaf'),
    _m('clone-leaf-aliases', """    return f"{prefix}.clone()\"""", """    return f"{prefix}\"""", 'R-C06-leaf'),
    _m('imatmul-copies-self', """[ f"self.{prefix} @= other.{prefix}" ]""", """[ f"self.{prefix} @= self.{prefix}" ]""", 'R-C06-leaf'),
    _m('imatmul-no-return-self', """    imatmul_strs + [ "return self" ],""", """    imatmul_strs,""", 'R-C06-leaf'),
    _m('deepcopy-no-memo', "[ 'self', 'memo' ]", "[ 'self' ]", 'R-C06-leaf'),
    _m('ilshift-prologue-inverted', "ilshift_strs = [ 'if self.__class__ is not other.__class__:',",
       "ilshift_strs = [ 'if self.__class__ is other.__class__:',", 'R-C06-leaf'),
    _m('from-bits-name-not-registered', "        type_name_mapping[ type_ ] = type_name\n", "        pass\n", 'R-C06-leaf'),
    _m('from-bits-no-width-assert', '''"assert cls.nbits == other.nbits, f'LHS bitstruct {cls.nbits}-bit <> RHS other {other.nbits}-bit'",''',
       '''"pass",''', 'R-C06-leaf'),
    # --- eq / hash
    _m('eq-class-guard-evaluated-last', "[ f'return (other.__class__ is self.__class__) and {self_tuple} == {other_tuple}' ]",
       "[ f'return {self_tuple} == {other_tuple} and (other.__class__ is self.__class__)' ]", 'R-C06-eqhash'),
    _m('eq-early-return-inverted', "[ f'return (other.__class__ is self.__class__) and {self_tuple} == {other_tuple}' ]",
       "[ 'if other.__class__ is self.__class__:', '  return False', f'return {self_tuple} == {other_tuple}' ]", 'R-C06-eqhash'),
    _m('eq-no-class-identity', "[ f'return (other.__class__ is self.__class__) and {self_tuple} == {other_tuple}' ]",
       "[ f'return {self_tuple} == {other_tuple}' ]", 'R-C06-eqhash'),
    _m('eq-compares-self-with-self', "other_tuple = _mk_tuple_str( 'other', fields )", "other_tuple = _mk_tuple_str( 'self', fields )",
       'R-C06-eqhash'),
    _m('hash-first-field-only', """def _mk_hash_fn( fields ):
  self_tuple = _mk_tuple_str( 'self', fields )""", """def _mk_hash_fn( fields ):
  self_tuple = _mk_tuple_str( 'self', list(fields)[:1] )""", 'R-C06-eqhash'),
    _m('tuple-skips-a-field', """for name in fields])},)'""", """for name in list(fields)[1:]])},)'""", 'R-C06-eqhash'),
    # --- constructor contract
    _m('init-list-default-aliased', """return f"[{', '.join( [ _recursive_generate_init(x[0]) ] * len(x) )}]\"""",
       """return f"[{_recursive_generate_init(x[0])}] * {len(x)}\"""", 'R-C06-init'),
    _m('init-params-reversed', "[ self_name ] + [ _mk_init_arg( *field ) for field in fields.items() ],",
       "[ self_name ] + [ _mk_init_arg( *field ) for field in reversed(fields.items()) ],", 'R-C06-init'),
    _m('init-bits-not-converted', "return f'{self_name}.{name} = _type_{name}({name})'", "return f'{self_name}.{name} = {name}'",
       'R-C06-init'),
    _m('init-list-type-not-innermost', """      _globals[ f"_type_{name}" ] = x\n""", """      _globals[ f"_type_{name}" ] = type_[0]\n""",
       'R-C06-init'),
    # --- wiring
    _m('wiring-ff-swapped', "cls.__ilshift__, cls._flip = _mk_ff_fn( fields )", "cls._flip, cls.__ilshift__ = _mk_ff_fn( fields )",
       'R-C06-wiring'),
    _m('wiring-nbits-to-bits-swapped', "cls.nbits, cls.to_bits = _mk_nbits_to_bits_fn( fields )",
       "cls.to_bits, cls.nbits = _mk_nbits_to_bits_fn( fields )", 'R-C06'),
    _m('wiring-clone-is-deepcopy', "cls.clone = _mk_clone_fn( fields )", "cls.clone = _mk_deepcopy_fn( fields )", 'R-C06-wiring'),
    _m('wiring-from-bits-static', "cls.from_bits = classmethod(from_bits)", "cls.from_bits = staticmethod(from_bits)", 'R-C06-wiring'),
    _m('wiring-eq-under-hash-test', "  if not '__eq__' in cls.__dict__:\n    cls.__eq__", "  if not '__hash__' in cls.__dict__:\n    cls.__eq__",
       'R-C06-wiring'),
    _m('fields-sorted-by-name', "  for a_name, a_type in cls_annotations.items():", "  for a_name, a_type in sorted(cls_annotations.items(), key=str):",
       'R-C06-wiring'),
    _m('mk-bitstruct-drops-private', "    annos[ name ] = f\n", "    if not name.startswith('_'): annos[ name ] = f\n", 'R-C06-wiring'),
    _m('from-bits-total-from-elsewhere', "from_bits = _mk_from_bits_fns( fields, cls.nbits )",
       "from_bits = _mk_from_bits_fns( fields, sum( getattr(t, 'nbits', 0) for t in fields.values() ) )", 'R-C06-mirror'),
    _m('from-bits-starts-below-total', "  end_bit = total_nbits\n", "  end_bit = total_nbits - 1\n", 'R-C06-width'),
    _m('to-bits-list-recurses-on-element-1', '_gen_to_bits_strs( type_[0], f"{prefix}[{i}]", start_bit )',
       '_gen_to_bits_strs( type_[1], f"{prefix}[{i}]", start_bit )', 'R-C06-traversal'),
    _m('from-bits-nested-struct-as-leaf', "    elif is_bitstruct_class( type_ ):\n      if type_ in type_name_mapping:",
       "    elif False:\n      if type_ in type_name_mapping:", 'R-C06-traversal'),
    _m('eq-becomes-ne', "{self_tuple} == {other_tuple}'", "{self_tuple} != {other_tuple}'", 'R-C06-eqhash'),
    _m('wiring-deepcopy-from-clone-generator', "cls.__deepcopy__ = _mk_deepcopy_fn( fields )", "cls.__deepcopy__ = _mk_clone_fn( fields )",
       'R-C06-wiring'),
    _m('wiring-ff-conditional', "  cls.__ilshift__, cls._flip = _mk_ff_fn( fields )", "  if add_init: cls.__ilshift__, cls._flip = _mk_ff_fn( fields )",
       'R-C06-wiring'),
    _m('wiring-imatmul-other-table', "cls.__imatmul__ = _mk_imatmul_fn( fields )", "cls.__imatmul__ = _mk_imatmul_fn( hashable_fields )",
       'R-C06-wiring'),
    _m('init-struct-default-is-the-class', """    return f'{self_name}.{name} = {name} or {_recursive_generate_init(type_)}'""",
       """    return f'{self_name}.{name} = {name} or _type_{name}'""", 'R-C06-init'),
    _m('to-bits-leaf-emitted-twice', 'return end_bit, [ f"self.{prefix}" ]', 'return end_bit, [ f"self.{prefix}", f"self.{prefix}" ]',
       'R-C06'),
    # --- extra return paths / run-time replication (second seeding round)
    _m('init-outer-dimension-replicated', """    if isinstance( x, list ):
      return f"[{', '.join( [ _recursive_generate_init(x[0]) ] * len(x) )}]\"""", """    if isinstance( x, list ):
      if isinstance( x[0], list ):
        return f"[{_recursive_generate_init(x[0])}] * {len(x)}"
      return f"[{', '.join( [ _recursive_generate_init(x[0]) ] * len(x) )}]\"""", 'R-C06-init'),
    _m('concat-single-operand-returned-as-is', "    value = nbits = 0\n", "    if len(args) == 1: return args[0]\n\n    value = nbits = 0\n",
       'R-C06-concat', file=HELPERS),
    _m('imatmul-single-element-shortcut', '''    if isinstance( type_, list ):
      ret = []
      for i in range(len(type_)):
        ret.extend( _gen_list_imatmul_strs''', '''    if isinstance( type_, list ):
      if len(type_) == 1: return [ f"self.{prefix} @= other.{prefix}" ]
      ret = []
      for i in range(len(type_)):
        ret.extend( _gen_list_imatmul_strs''', 'R-C06-traversal'),
    _m('to-bits-one-bit-leaf-forgets-width', "      end_bit = start_bit + type_.nbits\n",
       "      if type_.nbits == 1: return start_bit, [ f\"self.{prefix}\" ]\n      end_bit = start_bit + type_.nbits\n", 'R-C06-width'),
    _m('clone-list-replicated-at-run-time', '''    return "[" + ",".join( [ _gen_list_clone_strs( type_[0], f"{prefix}[{i}]" )
                        for i in range(len(type_)) ] ) + "]"''',
       '''    return "[" + _gen_list_clone_strs( type_[0], f"{prefix}[0]" ) + "] * " + str(len(type_))''', 'R-C06'),
    _m('ff-loop-returns-early', "        ils, fls = _gen_list_ilshift_strs( type_[0], f\"{prefix}[{i}]\" )\n",
       "        if i > 7: return ilshift_strs, flip_strs\n        ils, fls = _gen_list_ilshift_strs( type_[0], f\"{prefix}[{i}]\" )\n",
       'R-C06-traversal'),
    _m('to-bits-list-operands-replicated', "        to_strs.extend( tos )\n      return start_bit, to_strs\n\n    elif",
       "        to_strs.extend( tos )\n      return start_bit, to_strs[:1] * len(type_)\n\n    elif", 'R-C06-traversal'),
    _m('imatmul-generator-early-none', "  imatmul_strs = [ 'if self.__class__ is not other.__class__:',",
       "  if not fields: return None\n  imatmul_strs = [ 'if self.__class__ is not other.__class__:',", 'R-C06-traversal'),
    _m('eq-single-field-shortcut', "  self_tuple  = _mk_tuple_str( 'self', fields )\n  other_tuple",
       "  if len(fields) == 1: return _create_fn('__eq__', ['self','other'], ['return True'])\n  self_tuple  = _mk_tuple_str( 'self', fields )\n  other_tuple",
       'R-C06-eqhash'),
    _m('wiring-hash-under-repr-option', "  if add_hash:\n    if not '__hash__'", "  if add_repr:\n    if not '__hash__'", 'R-C06-wiring'),
    _m('wiring-init-when-user-defined', "    if not '__init__' in cls.__dict__:\n      cls.__init__", "    if '__init__' in cls.__dict__:\n      cls.__init__",
       'R-C06-wiring'),
    _m('admit-guard-after-store', "    _check_field_annotation( cls, a_name, a_type )\n    fields[ a_name ] = a_type",
       "    fields[ a_name ] = a_type\n    _check_field_annotation( cls, a_name, a_type )", 'R-C06-admit'),
    # --- freshness of stored leaves (fourth seeding round)
    _m('bits-full-width-slice-returns-self', "      nbits = stop - start\n      return _new_valid_bits(",
       "      nbits = stop - start\n      if nbits == self._nbits:\n        return self\n      return _new_valid_bits(", 'R-C05-value',
       file='pymtl3/datatypes/PythonBits.py'),
    _m('from-bits-whole-value-leaf-passed-through', '''      return start_bit, [ f"other[{start_bit}:{end_bit}]" ]''',
       '''      return start_bit, [ "other" if start_bit == 0 and end_bit == total_nbits else f"other[{start_bit}:{end_bit}]" ]''',
       'R-C06-fresh'),
    _m('init-bits-kept-when-same-class', "return f'{self_name}.{name} = _type_{name}({name})'",
       "return f'{self_name}.{name} = {name} if {name}.__class__ is _type_{name} else _type_{name}({name})'", 'R-C06'),
    _m('init-struct-default-in-signature', "    return f'{name} = None'\n  return f'{name} = 0'",
       "    return f'{name} = None' if isinstance( type_, list ) else f'{name} = _type_{name}()'\n  return f'{name} = 0'", 'R-C06'),
    # --- eighth seeding round: iterative generator, accumulator reset inside the loop over the rows
    _m('imatmul-iterative-last-row-only', '    if isinstance( type_, list ):\n      ret = []\n      for i in range(len(type_)):\n        ret.extend( _gen_list_imatmul_strs( type_[0], f"{prefix}[{i}]" ) )\n      return ret\n    else:\n      return [ f"self.{prefix} @= other.{prefix}" ]\n', '    prefixes = [ prefix ]\n    while isinstance( type_, list ):\n      for p in prefixes:\n        expanded = []\n        expanded.extend( f"{p}[{i}]" for i in range(len(type_)) )\n      prefixes, type_ = expanded, type_[0]\n    return [ f"self.{p} @= other.{p}" for p in prefixes ]\n', 'R-C06-grid'),
    # --- tenth seeding round: == and != of a foreign operand
    dict(name='ne-negates-notimplemented', rule='R-C06-eqhash', edits=[{'file': 'pymtl3/datatypes/bitstructs.py', 'old': "    [ f'return (other.__class__ is self.__class__) and {self_tuple} == {other_tuple}' ]\n  )\n", 'new': "    [ 'if other.__class__ is not self.__class__:',\n      '  return NotImplemented',\n      f'return {self_tuple} == {other_tuple}' ]\n  )\n\ndef _mk_ne_fn():\n  return _create_fn(\n    '__ne__',\n    [ 'self', 'other' ],\n    [ 'return not self.__eq__( other )' ]\n  )\n", 'count': 1}, {'file': 'pymtl3/datatypes/bitstructs.py', 'old': '    cls.__eq__ = _mk_eq_fn( fields )\n', 'new': "    cls.__eq__ = _mk_eq_fn( fields )\n    if not '__ne__' in cls.__dict__:\n      cls.__ne__ = _mk_ne_fn()\n", 'count': 1}]),
    dict(name='ne-not-negated', rule='R-C06-eqhash', edits=[{'file': 'pymtl3/datatypes/bitstructs.py', 'old': "    [ f'return (other.__class__ is self.__class__) and {self_tuple} == {other_tuple}' ]\n  )\n", 'new': "    [ f'return (other.__class__ is self.__class__) and {self_tuple} == {other_tuple}' ]\n  )\n\ndef _mk_ne_fn():\n  return _create_fn(\n    '__ne__',\n    [ 'self', 'other' ],\n    [ 'return self.__eq__( other )' ]\n  )\n", 'count': 1}, {'file': 'pymtl3/datatypes/bitstructs.py', 'old': '    cls.__eq__ = _mk_eq_fn( fields )\n', 'new': "    cls.__eq__ = _mk_eq_fn( fields )\n    if not '__ne__' in cls.__dict__:\n      cls.__ne__ = _mk_ne_fn()\n", 'count': 1}]),
    # --- fifth seeding round
    _m('from-bits-rows-not-reversed', '''        from_strs.extend( fs )
      return end_bit, [ f"[{','.join(reversed(from_strs))}]" ]''', '''        from_strs.extend( fs )
      if isinstance( type_[0], list ):
        return end_bit, [ f"[{','.join(from_strs)}]" ]
      return end_bit, [ f"[{','.join(reversed(from_strs))}]" ]''', 'R-C06'),
    dict(name='ilshift-direct-unpack-column-major', rule='R-C06-grid', edits=[
        dict(file=BS, old='import functools\nimport keyword', new='import functools\nimport itertools\nimport keyword', count=1),
        dict(file=BS, old="  ilshift_strs = [ 'if self.__class__ is not other.__class__:',\n                   '  other = self.__class__.from_bits( other.to_bits() )']\n  flip_strs = []\n", new='  bits_strs, nbits = [], 0\n  for name, type_ in reversed( fields.items() ):\n    leaf, dims = _recursive_check_array_types( type_ ) if isinstance( type_, list ) else ( type_, [] )\n    for idx in itertools.product( *map( range, dims ) ):\n      pos, stride = 0, 1\n      for i, d in zip( idx, dims ):\n        pos, stride = pos + i*stride, stride*d\n      lo = nbits + pos*leaf.nbits\n      bits_strs.append( f"  self.{name}{\'\'.join( f\'[{i}]\' for i in idx )} <<= other[{lo}:{lo+leaf.nbits}]" )\n    nbits += leaf.nbits * functools.reduce( operator.mul, dims, 1 )\n\n  ilshift_strs = [ \'if self.__class__ is not other.__class__:\',\n                   \'  other = other.to_bits()\',\n                  f\'  assert other.nbits == {nbits}, "bitwidth mismatch between LHS bitstruct and RHS"\',\n                   *bits_strs, \'  return self\' ]\n  flip_strs = []\n', count=1)]),
    # --- emitted run-time loops (fourth seeding round): nested dimensions share one loop variable
    _m('ff-emitted-loops-share-variable', '''  def _gen_list_ilshift_strs( type_, prefix='' ):
    if isinstance( type_, list ):
      ilshift_strs, flip_strs = [], []
      for i in range(len(type_)):
        ils, fls = _gen_list_ilshift_strs( type_[0], f"{prefix}[{i}]" )
        ilshift_strs.extend( ils )
        flip_strs.extend( fls )
      return ilshift_strs, flip_strs
    else:
      return [ f"self.{prefix} <<= other.{prefix}" ], [f"self.{prefix}._flip()"]
''', '''  def _gen_list_ilshift_strs( type_, prefix='', indent='' ):
    if isinstance( type_, list ):
      loop = f"{indent}for i in range({len(type_)}):"
      ils, fls = _gen_list_ilshift_strs( type_[0], f"{prefix}[i]", indent + '  ' )
      return [ loop ] + ils, [ loop ] + fls
    else:
      return [ f"{indent}self.{prefix} <<= other.{prefix}" ], [f"{indent}self.{prefix}._flip()"]
''', 'R-C06-grid'),
    _m('ff-emitted-loops-one-short', '''  def _gen_list_ilshift_strs( type_, prefix='' ):
    if isinstance( type_, list ):
      ilshift_strs, flip_strs = [], []
      for i in range(len(type_)):
        ils, fls = _gen_list_ilshift_strs( type_[0], f"{prefix}[{i}]" )
        ilshift_strs.extend( ils )
        flip_strs.extend( fls )
      return ilshift_strs, flip_strs
    else:
      return [ f"self.{prefix} <<= other.{prefix}" ], [f"self.{prefix}._flip()"]
''', '''  def _gen_list_ilshift_strs( type_, prefix='', indent='' ):
    if isinstance( type_, list ):
      v = f"i{len(indent)//2}"
      loop = f"{indent}for {v} in range({len(type_)-1}):"
      ils, fls = _gen_list_ilshift_strs( type_[0], f"{prefix}[{v}]", indent + '  ' )
      return [ loop ] + ils, [ loop ] + fls
    else:
      return [ f"{indent}self.{prefix} <<= other.{prefix}" ], [f"{indent}self.{prefix}._flip()"]
''', 'R-C06-grid'),
    # --- admission guard of list fields (third seeding round)
    _m('admit-rows-leaf-type-not-compared', "      assert y_type is x_type and y_dims == x_dims", "      assert y_dims == x_dims",
       'R-C06-admit'),
    _m('admit-row-shape-not-compared', "      assert y_type is x_type and y_dims == x_dims", "      assert y_type is x_type",
       'R-C06-admit'),
    _m('admit-outer-length-not-recorded', "    return x_type, [ len(current) ] + x_dims", "    return x_type, x_dims", 'R-C06-admit'),
    _m('admit-only-second-leaf-compared', "  for y in current[1:]:\n    assert y is x", "  for y in current[1:2]:\n    assert y is x",
       'R-C06-admit'),
    _m('admit-leaf-kind-not-checked', "  assert issubclass( x, Bits ) or is_bitstruct_class( x )\n  for y in current[1:]:",
       "  for y in current[1:]:", 'R-C06-admit'),
    _m('admit-failure-not-reported', "    print(e)\n    return None", "    print(e)\n    return arr", 'R-C06-admit'),
    _m('admit-guard-not-called', "    _check_field_annotation( cls, a_name, a_type )\n", "    pass\n", 'R-C06-admit'),
    # --- concat
    _m('concat-result-args-swapped', "return Bits( nbits, value )", "return Bits( value, nbits )", 'R-C06-concat', file=HELPERS),
    _m('concat-shift-by-total', "value = (value << xnb) | x.uint()", "value = (value << nbits) | x.uint()", 'R-C06-concat', file=HELPERS),
    _m('concat-lsb-first', "    for x in args:\n      xnb = x.nbits\n      nbits += xnb", "    for x in reversed(args):\n      xnb = x.nbits\n      nbits += xnb",
       'R-C06-concat', file=HELPERS),
    _m('concat-width-off', "      nbits += xnb\n", "      nbits += xnb + 1\n", 'R-C06-concat', file=HELPERS),
]

EQUIV = [
    _m('cache-fill-keys-loop', "  for a_name, a_type in cls_annotations.items():\n", "  for a_name in cls_annotations:\n    a_type = cls_annotations[ a_name ]\n"),
    _m('to-bits-range-descending', "for i in reversed(range(len(type_))):", "for i in range(len(type_)-1, -1, -1):"),
    _m('imatmul-augmented-extend', """        ret.extend( _gen_list_imatmul_strs( type_[0], f"{prefix}[{i}]" ) )""",
       """        ret += _gen_list_imatmul_strs( type_[0], f"{prefix}[{i}]" )"""),
    _m('from-bits-iterate-elements', """      for i in range(len(type_)):
        end_bit, fs = _gen_from_bits_strs( type_[0], end_bit )""", """      for elem_type in type_:
        end_bit, fs = _gen_from_bits_strs( elem_type, end_bit )"""),
    _m('fields-attribute-instead-of-getattr', """      for name, typ in getattr(type_, _FIELDS).items():
        start_bit, tos""", """      for name, typ in type_.__bitstruct_fields__.items():
        start_bit, tos"""),
    _m('to-bits-leaf-inline', """      end_bit = start_bit + type_.nbits
      return end_bit, [ f"self.{prefix}" ]""", """      return type_.nbits + start_bit, [ f"self.{prefix}" ]"""),
    _m('eq-conjuncts-reordered', "[ f'return (other.__class__ is self.__class__) and {self_tuple} == {other_tuple}' ]",
       "[ f'return self.__class__ is other.__class__ and {other_tuple} == {self_tuple}' ]"),
    _m('eq-guard-as-early-return', "[ f'return (other.__class__ is self.__class__) and {self_tuple} == {other_tuple}' ]",
       "[ 'if other.__class__ is not self.__class__:', '  return False', f'return {self_tuple} == {other_tuple}' ]"),
    _m('eq-guard-by-type-call', "[ f'return (other.__class__ is self.__class__) and {self_tuple} == {other_tuple}' ]",
       "[ f'return type(other) is type(self) and {self_tuple} == {other_tuple}' ]"),
    _m('eq-guarded-if-else', "[ f'return (other.__class__ is self.__class__) and {self_tuple} == {other_tuple}' ]",
       "[ 'if type(other) is type(self):', f'  return {self_tuple} == {other_tuple}', 'return NotImplemented' ]"),
    _m('imatmul-loop-over-keys', """  for name, type_ in fields.items():
    imatmul_strs.extend( _gen_list_imatmul_strs( type_, name ) )""", """  for fname in fields:
    imatmul_strs.extend( _gen_list_imatmul_strs( fields[fname], fname ) )"""),
    _m('from-bits-classmethod-inline', """  from_bits = _mk_from_bits_fns( fields, cls.nbits )
  cls.from_bits = classmethod(from_bits)""", """  cls.from_bits = classmethod( _mk_from_bits_fns( fields, cls.nbits ) )"""),
    _m('from-bits-leaf-reordered', "start_bit = end_bit - type_.nbits", "start_bit = -type_.nbits + end_bit"),
    _m('nbits-to-bits-via-locals', "cls.nbits, cls.to_bits = _mk_nbits_to_bits_fn( fields )",
       "total, packer = _mk_nbits_to_bits_fn( fields )\n  cls.to_bits = packer\n  cls.nbits = total"),
    _m('concat-operands-commuted', "value = (value << xnb) | x.uint()", "value = x.uint() | (value << x.nbits)", file=HELPERS),
    _m('clone-range-explicit-start', """for i in range(len(type_)) ] ) + "]\"""", """for i in range(0, len(type_)) ] ) + "]\""""),
    _m('ff-enumerate', """      for i in range(len(type_)):
        ils, fls = _gen_list_ilshift_strs( type_[0], f"{prefix}[{i}]" )""", """      for i, et in enumerate(type_):
        ils, fls = _gen_list_ilshift_strs( et, f"{prefix}[{i}]" )"""),
    _m('to-bits-locals-renamed', """  to_bits_strs = []
  total_nbits  = 0
  for name, type_ in fields.items():
    total_nbits, tos = _gen_to_bits_strs( type_, name, total_nbits )
    to_bits_strs.extend( tos )

  return total_nbits, _create_fn""", """  operands = []
  width  = 0
  for fname, ftype in fields.items():
    res = _gen_to_bits_strs( ftype, fname, width )
    width = res[0]
    operands += res[1]
  to_bits_strs = operands

  return width, _create_fn"""),
    _m('helper-renamed', '_gen_to_bits_strs', '_walk', count=4),
    _m('leaf-built-with-format', '[ f"self.{prefix} @= other.{prefix}" ]', '[ "self.{0} @= other.{0}".format(prefix) ]'),
    _m('from-bits-reverse-by-slice', "','.join(reversed(from_strs))", "','.join(from_strs[::-1])"),
    _m('clone-list-explicit-loop', '''    return "[" + ",".join( [ _gen_list_clone_strs( type_[0], f"{prefix}[{i}]" )
                        for i in range(len(type_)) ] ) + "]"''', '''    parts = []
    for i in range(len(type_)):
      parts.append( _gen_list_clone_strs( type_[0], f"{prefix}[{i}]" ) )
    return "[" + ",".join( parts ) + "]"'''),
    _m('imatmul-cases-swapped', '''    if isinstance( type_, list ):
      ret = []
      for i in range(len(type_)):
        ret.extend( _gen_list_imatmul_strs( type_[0], f"{prefix}[{i}]" ) )
      return ret
    else:
      return [ f"self.{prefix} @= other.{prefix}" ]''', '''    if not isinstance( type_, list ):
      return [ f"self.{prefix} @= other.{prefix}" ]
    ret = []
    for i in range(len(type_)):
      ret.extend( _gen_list_imatmul_strs( type_[0], f"{prefix}[{i}]" ) )
    return ret'''),
    _m('admit-identity-operands-swapped', "      assert y_type is x_type and y_dims == x_dims", "      assert x_dims == y_dims and x_type is y_type"),
    _m('admit-assert-split', "      assert y_type is x_type and y_dims == x_dims",
       "      assert y_type is x_type\n      assert y_dims == x_dims"),
    dict(name='process-class-merged-option-tests', rule=None, edits=[
        dict(file=BS, old="  if add_init:\n    if not '__init__' in cls.__dict__:\n      cls.__init__ = _mk_init_fn( _get_self_name(fields), fields )",
             new="  if add_init and '__init__' not in cls.__dict__:\n    cls.__init__ = _mk_init_fn( _get_self_name(fields), fields )", count=1),
        dict(file=BS, old="  if add_hash:\n    if not '__hash__' in cls.__dict__:\n      cls.__hash__ = _mk_hash_fn( fields )",
             new="  if '__hash__' not in cls.__dict__ and add_hash:\n    cls.__hash__ = _mk_hash_fn( fields )", count=1)]),
    _m('process-class-hash-guard-flipped', "  if add_hash:\n    if not '__hash__' in cls.__dict__:\n      cls.__hash__ = _mk_hash_fn( fields )",
       "  if not add_hash or '__hash__' in cls.__dict__:\n    pass\n  else:\n    cls.__hash__ = _mk_hash_fn( fields )"),
    _m('final-assert-as-if-raise', "  assert end_bit == 0\n", "  if end_bit != 0:\n    raise AssertionError( 'width mismatch' )\n"),
    _m('reserved-names-not-in-form', "    assert a_name not in reserved_fields, f", "    assert not (a_name in reserved_fields), f"),
    _m('bitstruct-conditional-expression', "  # Called as @bitstruct(...)\n  if _cls is None:\n    return wrap\n\n  # Called as @bitstruct without parens.\n  return wrap( _cls )",
       "  return wrap if _cls is None else wrap( _cls )"),
    _m('guard-argument-hoisted', "    _check_field_annotation( cls, a_name, a_type )\n    fields[ a_name ] = a_type",
       "    ftype = a_type\n    _check_field_annotation( cls, a_name, ftype )\n    fields[ a_name ] = ftype"),
    _m('concat-width-closed-form', "    value = nbits = 0\n\n    for x in args:\n      xnb = x.nbits\n      nbits += xnb\n      value = (value << xnb) | x.uint()",
       "    value = 0\n    nbits = sum( x.nbits for x in args )\n\n    for x in args:\n      value = (value << x.nbits) | x.uint()", file=HELPERS),
    _m('ff-emitted-loops-distinct-variables', '''  def _gen_list_ilshift_strs( type_, prefix='' ):
    if isinstance( type_, list ):
      ilshift_strs, flip_strs = [], []
      for i in range(len(type_)):
        ils, fls = _gen_list_ilshift_strs( type_[0], f"{prefix}[{i}]" )
        ilshift_strs.extend( ils )
        flip_strs.extend( fls )
      return ilshift_strs, flip_strs
    else:
      return [ f"self.{prefix} <<= other.{prefix}" ], [f"self.{prefix}._flip()"]
''', '''  def _gen_list_ilshift_strs( type_, prefix='', indent='' ):
    if isinstance( type_, list ):
      v = f"i{len(indent)//2}"
      loop = f"{indent}for {v} in range({len(type_)}):"
      ils, fls = _gen_list_ilshift_strs( type_[0], f"{prefix}[{v}]", indent + '  ' )
      return [ loop ] + ils, [ loop ] + fls
    else:
      return [ f"{indent}self.{prefix} <<= other.{prefix}" ], [f"{indent}self.{prefix}._flip()"]
'''),
    dict(name='ilshift-direct-unpack-row-major', rule=None, edits=[
        dict(file=BS, old='import functools\nimport keyword', new='import functools\nimport itertools\nimport keyword', count=1),
        dict(file=BS, old="  ilshift_strs = [ 'if self.__class__ is not other.__class__:',\n                   '  other = self.__class__.from_bits( other.to_bits() )']\n  flip_strs = []\n", new='  bits_strs, nbits = [], 0\n  for name, type_ in reversed( fields.items() ):\n    leaf, dims = _recursive_check_array_types( type_ ) if isinstance( type_, list ) else ( type_, [] )\n    for idx in itertools.product( *map( range, dims ) ):\n      pos, stride = 0, 1\n      for i, d in zip( reversed( idx ), reversed( dims ) ):\n        pos, stride = pos + i*stride, stride*d\n      lo = nbits + pos*leaf.nbits\n      bits_strs.append( f"  self.{name}{\'\'.join( f\'[{i}]\' for i in idx )} <<= other[{lo}:{lo+leaf.nbits}]" )\n    nbits += leaf.nbits * functools.reduce( operator.mul, dims, 1 )\n\n  ilshift_strs = [ \'if self.__class__ is not other.__class__:\',\n                   \'  other = other.to_bits()\',\n                  f\'  assert other.nbits == {nbits}, "bitwidth mismatch between LHS bitstruct and RHS"\',\n                   *bits_strs, \'  return self\' ]\n  flip_strs = []\n', count=1)]),
    _m('imatmul-iterative-over-dimensions', '    if isinstance( type_, list ):\n      ret = []\n      for i in range(len(type_)):\n        ret.extend( _gen_list_imatmul_strs( type_[0], f"{prefix}[{i}]" ) )\n      return ret\n    else:\n      return [ f"self.{prefix} @= other.{prefix}" ]\n', '    prefixes = [ prefix ]\n    while isinstance( type_, list ):\n      expanded = []\n      for p in prefixes:\n        expanded.extend( f"{p}[{i}]" for i in range(len(type_)) )\n      prefixes, type_ = expanded, type_[0]\n    return [ f"self.{p} @= other.{p}" for p in prefixes ]\n'),
    dict(name='explicit-ne-with-boolean-eq', rule=None, edits=[{'file': 'pymtl3/datatypes/bitstructs.py', 'old': "    [ f'return (other.__class__ is self.__class__) and {self_tuple} == {other_tuple}' ]\n  )\n", 'new': "    [ f'return (other.__class__ is self.__class__) and {self_tuple} == {other_tuple}' ]\n  )\n\ndef _mk_ne_fn():\n  return _create_fn(\n    '__ne__',\n    [ 'self', 'other' ],\n    [ 'return not self.__eq__( other )' ]\n  )\n", 'count': 1}, {'file': 'pymtl3/datatypes/bitstructs.py', 'old': '    cls.__eq__ = _mk_eq_fn( fields )\n', 'new': "    cls.__eq__ = _mk_eq_fn( fields )\n    if not '__ne__' in cls.__dict__:\n      cls.__ne__ = _mk_ne_fn()\n", 'count': 1}]),
    dict(name='explicit-ne-via-operator-with-notimplemented-eq', rule=None, edits=[{'file': 'pymtl3/datatypes/bitstructs.py', 'old': "    [ f'return (other.__class__ is self.__class__) and {self_tuple} == {other_tuple}' ]\n  )\n", 'new': "    [ 'if other.__class__ is not self.__class__:',\n      '  return NotImplemented',\n      f'return {self_tuple} == {other_tuple}' ]\n  )\n\ndef _mk_ne_fn():\n  return _create_fn(\n    '__ne__',\n    [ 'self', 'other' ],\n    [ 'return not (self == other)' ]\n  )\n", 'count': 1}, {'file': 'pymtl3/datatypes/bitstructs.py', 'old': '    cls.__eq__ = _mk_eq_fn( fields )\n', 'new': "    cls.__eq__ = _mk_eq_fn( fields )\n    if not '__ne__' in cls.__dict__:\n      cls.__ne__ = _mk_ne_fn()\n", 'count': 1}]),
    dict(name='explicit-ne-passes-notimplemented-on', rule=None,
         edits=[{'file': 'pymtl3/datatypes/bitstructs.py', 'old': "    [ f'return (other.__class__ is self.__class__) and {self_tuple} == {other_tuple}' ]\n  )\n", 'new': "    [ 'if other.__class__ is not self.__class__:',\n      '  return NotImplemented',\n      f'return {self_tuple} == {other_tuple}' ]\n  )\n\ndef _mk_ne_fn():\n  return _create_fn(\n    '__ne__',\n    [ 'self', 'other' ],\n    [ 'r = self.__eq__( other )', 'return r if r is NotImplemented else not r' ]\n  )\n", 'count': 1}, {'file': 'pymtl3/datatypes/bitstructs.py', 'old': '    cls.__eq__ = _mk_eq_fn( fields )\n', 'new': "    cls.__eq__ = _mk_eq_fn( fields )\n    if not '__ne__' in cls.__dict__:\n      cls.__ne__ = _mk_ne_fn()\n", 'count': 1}]),
    _m('from-bits-list-reverse-in-place', """      return end_bit, [ f"[{','.join(reversed(from_strs))}]" ]""",
       """      from_strs.reverse()
      return end_bit, [ f"[{','.join(from_strs)}]" ]"""),
]

LEVEL_TEXT = ("Static analysis of the bitstruct method generators themselves: each source-text generator is evaluated symbolically "
              "in a template/sequence domain and checked as an induction step over the shape of a field type (list / nested "
              "struct / Bits leaf), the emitted statement templates are parsed and inspected. It decides, for every struct "
              "shape at once, traversal completeness and order, layout direction, bit-position bookkeeping, the to_bits/"
              "from_bits mirror, leaf-wise non-aliasing copy actions, eq/hash field coverage, the positional constructor "
              "contract and the wiring of generated functions to method names; it does not execute generated code.")
LEVEL_NOTE = ("Trusted: Python semantics of the emitted statements, the Bits primitives (slice, @=, <<=, _flip, clone; C04/C05), "
              "_create_fn/exec, rectangular list annotations. Not decided: user overrides of __init__/__eq__/__hash__, the "
              "class-hash cache collision case, the Yosys layout half (C12).")
TECHNIQUE = ("symbolic evaluation of string-building generators (template domain with holes, sequence domain with loop segments, "
             "linear bit-position forms), structural induction per type kind, ast.parse of emitted templates, def-use wiring tables")
