"""C06 -- Bitstruct packing is a lossless, order-preserving bijection.  (DESIGN.md section 4, C06)

The per-type methods of a bitstruct are produced by source-text generators in
pymtl3/datatypes/bitstructs.py.  The generators (not any concrete struct) are what the property
quantifies over, so they are evaluated symbolically (sa/c06_util.py: template / sequence domain) and the
rules argue by structural induction over the shape of a field type (list / nested struct / Bits leaf).
"""
import ast

from sa.astutil import norm, guards_of, walk_no_nested, parent, preceding_stmts, qualname, stmt_of
from sa.errors import AnalysisError
from sa.minieval import Evaluator
from sa.report import RuleResult
from sa import c06_util as U
from sa.c06_util import (Sym, Const, Lin, Tmpl, Join, SeqV, DictV, Item, Splice, LoopSeg, CondSeg, Rev, Tup, Attr,
                         Sub, Len, Innermost, FieldsOf, RangeSp, ItemsSp, KeysSp, ValuesSp, EnumSp, Wrapped,
                         LoopVar, Carried, Fold, Phi, Rec, Proj, CallV, Bin, Cmp, Fn, show)

PID = 'C06'
BS = 'pymtl3/datatypes/bitstructs.py'
HELPERS = 'pymtl3/datatypes/helpers.py'
KINDS = ('list', 'struct', 'bits')

# the layout / traversal specification of the property, per generator
GEN_SPEC = {
    '_mk_imatmul_fn':       dict(list_dir=None,   struct='delegate'),
    '_mk_ff_fn':            dict(list_dir=None,   struct='delegate'),
    '_mk_clone_fn':         dict(list_dir='asc',  struct='delegate'),
    '_mk_deepcopy_fn':      dict(list_dir='asc',  struct='delegate'),
    '_mk_nbits_to_bits_fn': dict(list_dir='desc', struct='recurse'),   # element 0 least significant
    '_mk_from_bits_fns':    dict(list_dir=None,   struct='recurse'),
}

EXPLANATION = (
    "Static analysis of the source-text generators in pymtl3/datatypes/bitstructs.py and of concat in helpers.py (ast; "
    "nothing is imported or run, no concrete struct type is built). Each generator is evaluated symbolically in a "
    "template/sequence domain: strings become templates with holes, statement lists become sequences with loop segments, "
    "a for loop is executed once with symbolic loop variables, a recursive helper is analysed case by case (list / nested "
    "struct / Bits leaf) with its recursive calls kept symbolic, so every rule is an induction step over the shape of a "
    "field type. The emitted statement templates are parsed (holes replaced by placeholder identifiers) and their shape is "
    "inspected. R-C06-traversal: every generated method visits every leaf of every field (field loops complete and in "
    "declaration order, every list index, to_bits descending = element 0 least significant, clone ascending, nested "
    "structs field by field, index / field name appended to the access path, result components not crossed). "
    "R-C06-leaf: emitted leaf statements and function frames (self.p @= other.p, self.p <<= other.p, self.p._flip(), "
    "p.clone(), concat(...), cls(...), other[lo:hi], return self, Bits->struct conversion prologue): no leaf is aliased. "
    "R-C06-width: the bit counter starts at 0 / at the total, is threaded through every recursive call, changes by exactly "
    "type_.nbits per leaf, the slice is [end-nbits:end], from_bits asserts that it ends at 0, and every element contributes "
    "exactly one constructor argument. R-C06-mirror: to_bits and from_bits use the same field order, the same nested field "
    "order, opposite list handling (descending emission <-> reversed list literal), the same width source, and the total "
    "handed to from_bits is the one to_bits computed. R-C06-eqhash: __eq__ and __hash__ range over the same complete field "
    "tuple, __eq__ requires class identity. R-C06-init: the generated constructor takes the fields positionally in "
    "declaration order (from_bits / clone rely on it), converts Bits fields, builds distinct default elements. "
    "R-C06-wiring: _process_class / bitstruct / mk_bitstruct attach each generated function under its name from the same "
    "ordered field table. R-C06-concat: concat puts its first operand most significant and sums the widths. "
    "NOT decided: user supplied __init__/__eq__/__hash__ overrides, the _bitstruct_hash_cache collision case, the "
    "Bits primitives (slicing, @=, <<=, clone: C04/C05), the Yosys half of R-layout-agree (C12), _create_fn/exec itself.")
ASSUMPTIONS = [
    "Python semantics of the emitted code (augmented assignment calls __imatmul__/__ilshift__ of the left operand, list "
    "and tuple equality are element-wise, dict iteration is insertion ordered)",
    "Bits primitives: x[a:b] returns a fresh Bits of width b-a holding bits a..b-1, @= / <<= / _flip / clone of Bits copy "
    "values (C04, C05); Bits(nbits, v) rejects nbits >= 1024 (C04 R-C04-tables) which is the only total width limit",
    "_create_fn joins the argument list with ', ', the body list with newlines at one indentation level and returns the "
    "function it exec'ed; field annotations admitted by _check_field_annotation are Bits classes, bitstruct classes or "
    "rectangular lists of one of them (so every list element has the shape of element 0)",
    "structural induction over the nesting depth of a field type: a nested struct's own generated methods satisfy the "
    "same rules (they come from the same generators)",
    "the user does not override __init__/__eq__/__hash__ and the class-hash cache returns an identical class",
]


# ---------------------------------------------------------------------------
# analysis cache: symbolic evaluation of every generator and of every recursive helper (per kind)
def stringish(c):
    return isinstance(c, (SeqV, Tmpl, Join)) or (isinstance(c, Const) and isinstance(c.value, str))


class Helper:
    def __init__(self, m, fobj):
        self.fdef = fobj.fdef
        self.name = self.fdef.name
        self.qual = qualname(self.fdef)
        self.params = [a.arg for a in self.fdef.args.args]
        self.tpname = U.find_type_param(self.fdef)
        self.T = Sym(self.tpname)
        self.cases = {}
        self.steps = 0
        for k in KINDS:
            v, ev, _ = U.eval_case(m, fobj, k, self.tpname)
            self.cases[k] = (v, ev)
            self.steps += ev.steps
        leaf = self.comps('bits')
        self.is_tuple = isinstance(self.cases['bits'][0], Tup)
        self.str_idx = [i for i, c in enumerate(leaf) if stringish(c)]
        self.cnt_idx = [i for i, c in enumerate(leaf) if not stringish(c)]
        self.prefix = self.counter = None
        for p in self.params:
            if p == self.tpname:
                continue
            in_cnt = any(Sym(p) in set(U.walk_values(leaf[i])) for i in self.cnt_idx)
            in_str = any(Sym(p) in set(U.walk_values(leaf[i])) for i in self.str_idx)
            if in_cnt:
                if self.counter is not None:
                    raise AnalysisError(f"{self.qual}: two counter-like parameters")
                self.counter = p
            elif in_str:
                if self.prefix is not None:
                    raise AnalysisError(f"{self.qual}: two prefix-like parameters")
                self.prefix = p

    def comps(self, kind):
        v = self.cases[kind][0]
        return list(v.items) if isinstance(v, Tup) else [v]

    def pos(self, pname):
        return self.params.index(pname)


class Gen:
    def __init__(self, A, name, kinds=(None,)):
        m = A.m
        self.name = name
        self.fdef = m.get_func(name)
        self.params = [a.arg for a in self.fdef.args.args]
        self.tops = {}
        self.steps = 0
        for k in kinds:
            v, ev = U.eval_generator(m, self.fdef, k)
            self.tops[k] = (v, ev)
            self.steps += ev.steps
        self.top, self.ev = self.tops[kinds[0]]
        self.helpers = {}
        for k, (v, ev) in self.tops.items():
            for hn, fobj in ev.rec_defs.items():
                if hn not in self.helpers:
                    self.helpers[hn] = A.helper(fobj)

    def fns(self, kind=None):
        v = self.tops[kind if kind in self.tops else next(iter(self.tops))][0]
        if isinstance(v, Fn):
            return [(None, v)]
        if isinstance(v, Tup):
            return [(i, x) for i, x in enumerate(v.items) if isinstance(x, Fn)]
        return []

    def fields_sym(self):
        for k, (v, ev) in self.tops.items():
            for L in U.loops_in(v):
                sp = L.space
                while isinstance(sp, Wrapped):
                    sp = sp.space
                d = getattr(sp, 'd', None)
                if isinstance(d, Sym) and d.name in self.params:
                    return d
        return None


class Analysis:
    def __init__(self, repo):
        self.repo = repo
        self.m = repo.mod(BS)
        self._gens = {}
        self._helpers = {}

    def gen(self, name, kinds=(None,)):
        g = self._gens.get(name)
        if g is None:
            g = self._gens[name] = Gen(self, name, kinds)
        return g

    def helper(self, fobj):
        h = self._helpers.get(id(fobj.fdef))
        if h is None:
            h = self._helpers[id(fobj.fdef)] = Helper(self.m, fobj)
        return h

    def steps(self):
        return sum(g.steps for g in self._gens.values()) + sum(h.steps for h in self._helpers.values())


def analysis(repo):
    a = getattr(repo, '_c06_analysis', None)
    if a is None:
        a = repo._c06_analysis = Analysis(repo)
    return a


def the_helper(g):
    if len(g.helpers) != 1:
        raise AnalysisError(f"{g.name}: expected exactly one recursive traversal helper, found {sorted(g.helpers)}")
    return next(iter(g.helpers.values()))


# ---------------------------------------------------------------------------
# shared predicates
def flags_problem(ev, loop, what):
    fl = ev.loop_flags.get(loop.id, ())
    if fl:
        return [f"the loop body contains {'/'.join(sorted(fl))}: some {what} are skipped"]
    return []


def field_space_problems(ev, loop, container, what='fields'):
    out = flags_problem(ev, loop, what)
    sp = loop.space
    if isinstance(sp, Wrapped):
        out.append(f"iterates {show(sp)}: the {what} are not visited completely in declaration order")
    elif not (isinstance(sp, (ItemsSp, KeysSp, ValuesSp)) and sp.d == container):
        out.append(f"iterates {show(sp)} instead of the {what} of {show(container)}")
    return out


def field_type_value(loop):
    sp = loop.space
    if isinstance(sp, (ItemsSp, ValuesSp)):
        return LoopVar(loop, 'val')
    if isinstance(sp, KeysSp):
        return Sub(sp.d, LoopVar(loop, 'key'))
    return None


def field_key_value(loop):
    if isinstance(loop.space, (ItemsSp, KeysSp)):
        return LoopVar(loop, 'key')
    return None


def list_space(ev, loop, T, want_dir):
    """(direction or None, problems)"""
    out = flags_problem(ev, loop, 'list elements')
    sp = loop.space
    d = None
    if isinstance(sp, RangeSp):
        if sp.n != Len(T):
            out.append(f"iterates {sp.desc}: not one index per element of {show(T)}")
        elif not sp.complete or sp.dir not in ('asc', 'desc'):
            out.append(f"iterates {sp.desc}: does not cover every index 0 .. len({show(T)})-1 "
                       f"(breaks e.g. for a 1- or 2-element list)")
        else:
            d = sp.dir
    elif isinstance(sp, EnumSp) and sp.v == T:
        d = 'asc'
    elif isinstance(sp, KeysSp) and sp.d == T:
        d = 'asc'
    elif isinstance(sp, Wrapped) and sp.fn == 'reversed' and \
            ((isinstance(sp.space, EnumSp) and sp.space.v == T) or (isinstance(sp.space, KeysSp) and sp.space.d == T)):
        d = 'desc'
    else:
        out.append(f"iterates {show(sp)}: not a complete pass over the elements of {show(T)}")
    if want_dir and d and d != want_dir:
        out.append(f"list elements are visited in {d}ending index order, the layout requires {want_dir}ending order")
    return d, out


def elem_type_values(loop, T):
    ok = {Sub(T, Lin(0)), Sub(T, Lin(-1)), Sub(T, LoopVar(loop, 'idx'))}
    if isinstance(loop.space, EnumSp):
        ok.add(LoopVar(loop, 'elem'))
    if isinstance(loop.space, KeysSp):
        ok.add(LoopVar(loop, 'key'))
    return ok


def prefix_shape(v):
    """classify an access-path argument: ('name', x) | ('index', base, idx) | ('attr', base, attr) | ('other', text)"""
    if not isinstance(v, Tmpl):
        return ('name', U.unlin(v))
    h = U.Holes()
    e, src, err = U.parse_text(v, h, 'eval')
    if err:
        return ('other', src)

    def hv(x):
        val = h.value(x)
        return x if val is None else val
    if isinstance(e, ast.Name):
        return ('name', hv(e.id))
    if isinstance(e, ast.Subscript) and isinstance(e.value, ast.Name) and isinstance(e.slice, ast.Name):
        return ('index', hv(e.value.id), hv(e.slice.id))
    if isinstance(e, ast.Attribute) and isinstance(e.value, ast.Name):
        return ('attr', hv(e.value.id), hv(e.attr))
    return ('other', src)


def chain(node):
    """(root name, steps) of an attribute/subscript chain; steps are ('attr', name) / ('idx', text)"""
    steps = []
    while True:
        if isinstance(node, ast.Attribute):
            steps.append(('attr', node.attr))
            node = node.value
        elif isinstance(node, ast.Subscript):
            steps.append(('idx', norm(node.slice)))
            node = node.value
        elif isinstance(node, ast.Name):
            return node.id, steps[::-1]
        else:
            return None, None


def single_rec(sites, what):
    recs = {}
    for s in sites:
        recs[s.rec.site] = s.rec
    if len(recs) != 1:
        raise AnalysisError(f"{what}: {len(recs)} distinct recursive call sites (the rule understands one per case)")
    return next(iter(recs.values()))


# ---------------------------------------------------------------------------
def rule_traversal(repo):
    r = RuleResult('R-C06-traversal',
                   "every generated method visits every leaf of every field: field loops complete and in declaration order, "
                   "every list index (to_bits descending = element 0 least significant, clone ascending), nested structs "
                   "field by field, index / field name appended to the access path, result components not crossed")
    A = analysis(repo)
    m = A.m
    seen_helpers = set()
    for gname, spec in GEN_SPEC.items():
        g = A.gen(gname)
        h = the_helper(g)
        fields = g.fields_sym()
        sites = U.rec_sites(g.top)
        if fields is None or not sites:
            r.bad(m, gname, 'field loop', "the generator never traverses its field table: no field is visited", g.fdef.lineno)
            continue
        # --- field loops
        loops = []
        for s in sites:
            for L in s.loops:
                if L not in loops:
                    loops.append(L)
        for L in loops:
            pr = field_space_problems(g.ev, L, fields)
            cons = f"field loop: for {show(L.space)}"
            if pr:
                r.bad(m, gname, cons, '; '.join(pr) + " -- a field is dropped or the packing order differs from the "
                      "declaration order", g.fdef.lineno)
            else:
                r.ok(m, gname, cons)
        # --- field visit (arguments of the helper call)
        rec = single_rec(sites, gname)
        pr = []
        if any(len(s.loops) != 1 for s in sites) or len({s.loops for s in sites}) != 1:
            pr.append("the helper call is not inside exactly one loop over the fields")
        if any(s.conds for s in sites):
            pr.append("the helper call is guarded by a condition: some fields are skipped")
        L = sites[0].loops[0] if sites[0].loops else None
        if L is not None and not pr:
            if rec.fn != h.name:
                pr.append(f"calls {rec.fn}, not the traversal helper")
            if rec.args[h.pos(h.tpname)] != field_type_value(L):
                pr.append(f"type argument is {show(rec.args[h.pos(h.tpname)])}, not the type of the current field")
            if h.prefix is not None:
                sh = prefix_shape(rec.args[h.pos(h.prefix)])
                key = field_key_value(L)
                if not (key is not None and (sh == ('name', key) or sh == ('attr', 'self', key))):
                    pr.append(f"access path argument is {show(rec.args[h.pos(h.prefix)])}, not the name of the current field")
        cons = f"field visit: {show(rec)}"
        if pr:
            r.bad(m, gname, cons, '; '.join(pr), g.fdef.lineno)
        else:
            r.ok(m, gname, cons)
        # --- every generated function contains the traversal
        for idx, fn in g.fns():
            cons = f"generated {show(fn.name)} contains the field traversal"
            if U.rec_sites(fn.body):
                r.ok(m, gname, cons, nontrivial=False)
            else:
                r.bad(m, gname, cons, f"the body of the generated {show(fn.name)} does not contain the per-field statements",
                      g.fdef.lineno)
        # --- the recursive helper, case by case
        if id(h) in seen_helpers:
            continue
        seen_helpers.add(id(h))
        _check_list_case(r, m, h, spec)
        _check_struct_case(r, m, h, spec)
    r.evaluations = A.steps()
    r.require_floor(32)
    return r


def _proj_problems(h, kind):
    pr = []
    if h.is_tuple:
        for i, c in enumerate(h.comps(kind)):
            for s in U.rec_sites(c):
                if s.proj != i:
                    pr.append(f"result component {i} is built from component {s.proj} of the recursive results (crossed)")
    return pr


def _check_list_case(r, m, h, spec):
    v, ev = h.cases['list']
    sites = U.rec_sites(v)
    fn = h.qual
    if not sites:
        r.bad(m, fn, 'list case: element loop', "the list case does not recurse into the elements: list fields are not "
              "traversed", h.fdef.lineno)
        return
    rec = single_rec(sites, fn + '[list]')
    if any(len(s.loops) != 1 for s in sites) or len({s.loops for s in sites}) != 1:
        r.bad(m, fn, 'list case: element loop', "the recursion is not inside exactly one loop over the list elements",
              h.fdef.lineno)
        return
    L = sites[0].loops[0]
    d, pr = list_space(ev, L, h.T, spec['list_dir'])
    if any(s.conds for s in sites):
        pr.append("the recursion is guarded by a condition: some elements are skipped")
    cons = f"list case: for {show(L.space)}"
    if pr:
        r.bad(m, fn, cons, '; '.join(pr), h.fdef.lineno)
    else:
        r.ok(m, fn, cons, note=f"direction {d}")
    pr = []
    if rec.fn != h.name:
        pr.append(f"recurses through {rec.fn}")
    ta = rec.args[h.pos(h.tpname)]
    if ta not in elem_type_values(L, h.T):
        pr.append(f"recurses on {show(ta)} instead of the element type {show(h.T)}[0]")
    if h.prefix is not None:
        sh = prefix_shape(rec.args[h.pos(h.prefix)])
        if sh != ('index', Sym(h.prefix), LoopVar(L, 'idx')):
            pr.append(f"access path of an element is {show(rec.args[h.pos(h.prefix)])}, must be <prefix>[<index of this "
                      f"element>] -- every element would read/write the same object")
    pr += _proj_problems(h, 'list')
    cons = f"list case: recursion {show(rec)}"
    if pr:
        r.bad(m, fn, cons, '; '.join(pr), h.fdef.lineno)
    else:
        r.ok(m, fn, cons)


def _check_struct_case(r, m, h, spec):
    v, ev = h.cases['struct']
    sites = U.rec_sites(v)
    fn = h.qual
    if not sites:
        if spec['struct'] == 'delegate' and v == h.cases['bits'][0]:
            r.ok(m, fn, 'struct case: treated as one leaf', nontrivial=False,
                 note="a nested struct is handled by its own generated method (induction over the nesting depth)")
        else:
            r.bad(m, fn, 'struct case: nested field loop', "a nested struct field is not traversed field by field",
                  h.fdef.lineno)
        return
    rec = single_rec(sites, fn + '[struct]')
    if any(len(s.loops) != 1 for s in sites) or len({s.loops for s in sites}) != 1:
        r.bad(m, fn, 'struct case: nested field loop', "the recursion is not inside exactly one loop over the nested fields",
              h.fdef.lineno)
        return
    L = sites[0].loops[0]
    pr = field_space_problems(ev, L, FieldsOf(h.T), 'nested fields')
    if any(s.conds for s in sites):
        pr.append("the recursion is guarded by a condition: some nested fields are skipped")
    cons = f"struct case: for {show(L.space)}"
    if pr:
        r.bad(m, fn, cons, '; '.join(pr), h.fdef.lineno)
    else:
        r.ok(m, fn, cons)
    pr = []
    if rec.fn != h.name:
        pr.append(f"recurses through {rec.fn}")
    if rec.args[h.pos(h.tpname)] != field_type_value(L):
        pr.append(f"recurses on {show(rec.args[h.pos(h.tpname)])} instead of the type of the nested field")
    if h.prefix is not None:
        sh = prefix_shape(rec.args[h.pos(h.prefix)])
        if sh != ('attr', Sym(h.prefix), field_key_value(L)):
            pr.append(f"access path of a nested field is {show(rec.args[h.pos(h.prefix)])}, must be <prefix>.<field name>")
    pr += _proj_problems(h, 'struct')
    cons = f"struct case: recursion {show(rec)}"
    if pr:
        r.bad(m, fn, cons, '; '.join(pr), h.fdef.lineno)
    else:
        r.ok(m, fn, cons)


# ---------------------------------------------------------------------------
# R-C06-leaf: emitted leaf statements and function frames
def one_item(comp):
    """template of a component holding exactly one emitted string (not inside a loop / condition), else None"""
    if isinstance(comp, SeqV):
        ents = list(U.flatten(comp.segs))
        if len(ents) == 1 and isinstance(ents[0][0], Item) and not ents[0][1] and not ents[0][2]:
            return ents[0][0].v
        return None
    if stringish(comp):
        return comp
    return None


def join_info(v):
    """(separator text, reversed?, SeqV) of a Join value"""
    if not isinstance(v, Join):
        return None
    sep = U.tmpl_text(v.sep)
    seq, rev = v.seq, False
    while True:
        if isinstance(seq, Rev):
            rev, seq = not rev, seq.v
        elif isinstance(seq, SeqV) and len(seq.segs) == 1 and isinstance(seq.segs[0], Splice) \
                and isinstance(seq.segs[0].v, (Rev, SeqV)):
            seq = seq.segs[0].v
        else:
            break
    if not isinstance(seq, SeqV) or sep is None:
        return None
    return sep, rev, seq


def top_visit(g, h):
    """(field loop, Rec of the field visit)"""
    sites = U.rec_sites(g.top)
    if not sites:
        raise AnalysisError(f"{g.name}: no field visit")
    rec = single_rec(sites, g.name)
    if not sites[0].loops:
        raise AnalysisError(f"{g.name}: field visit outside a loop")
    return sites[0].loops[0], rec


def compose(h, tmpl, rec):
    """the leaf template with the top-level access path substituted for the prefix parameter"""
    if h.prefix is None:
        return tmpl
    return U.subst_values(tmpl, {Sym(h.prefix): rec.args[h.pos(h.prefix)]})


def path_problem(node, root, hl, key, what):
    rt, steps = chain(node)
    kn = hl.by_value.get(key)
    if rt is None:
        return f"{what} is `{norm(node)}`, not an access path"
    if rt != root:
        return f"{what} is rooted at `{rt}`, must be `{root}`"
    if kn is None or steps != [('attr', kn)]:
        return f"{what} is `{norm(node)}`, must be {root}.<field>"
    return None


def leaf_problems(kind_of_fn, src_tmpl, key, other_name='other'):
    """parse the emitted leaf text and compare its shape with the required action"""
    hl = U.Holes()
    if kind_of_fn in ('__imatmul__', '__ilshift__', '_flip'):
        body, src, err = U.parse_text(src_tmpl, hl, 'exec')
        if err or len(body) != 1:
            return [f"emitted leaf `{src}` is not one statement ({err})"], src
        st = body[0]
        if kind_of_fn == '_flip':
            ok = isinstance(st, ast.Expr) and isinstance(st.value, ast.Call) and isinstance(st.value.func, ast.Attribute) \
                and st.value.func.attr == '_flip' and not st.value.args and not st.value.keywords
            if not ok:
                return [f"emitted leaf `{src}` is not `self.<field>._flip()`: the pending value of the leaf is not committed"], src
            p = path_problem(st.value.func.value, 'self', hl, key, 'flipped object')
            return ([p] if p else []), src
        opcls, sym = (ast.MatMult, '@=') if kind_of_fn == '__imatmul__' else (ast.LShift, '<<=')
        if isinstance(st, ast.Assign):
            return [f"emitted leaf `{src}` is a plain assignment: the field of the target is rebound to (aliases) the "
                    f"source's object instead of receiving its value"], src
        if not isinstance(st, ast.AugAssign):
            return [f"emitted leaf `{src}` is not `self.<field> {sym} other.<field>`"], src
        pr = []
        if not isinstance(st.op, opcls):
            pr.append(f"emitted leaf `{src}` applies {type(st.op).__name__}, {kind_of_fn} must apply `{sym}` "
                      f"({'blocking: visible immediately' if sym == '@=' else 'non-blocking: visible after _flip'})")
        for node, root, what in ((st.target, 'self', 'copy target'), (st.value, other_name, 'copy source')):
            p = path_problem(node, root, hl, key, what)
            if p:
                pr.append(p)
        return pr, src
    body, src, err = U.parse_text(src_tmpl, hl, 'eval')
    if err:
        return [f"emitted leaf `{src}` is not an expression ({err})"], src
    e = body
    if kind_of_fn in ('clone', '__deepcopy__'):
        ok = isinstance(e, ast.Call) and isinstance(e.func, ast.Attribute) and e.func.attr in ('clone', '__deepcopy__') \
            and not e.keywords and len(e.args) == (0 if e.func.attr == 'clone' else 1)
        if not ok:
            return [f"emitted leaf `{src}` is not `<field>.clone()`: the copy shares (aliases) the leaf object with the "
                    f"original, a later @= on one is seen by the other"], src
        p = path_problem(e.func.value, 'self', hl, key, 'cloned object')
        return ([p] if p else []), src
    if kind_of_fn == 'to_bits':
        p = path_problem(e, 'self', hl, key, 'concat operand')
        return ([p] if p else []), src
    raise AnalysisError(f"no leaf specification for generated function {kind_of_fn}")


def class_test_polarity(test, a0, a1):
    """True iff `test` holds exactly when the classes of a0 and a1 differ"""
    res = []
    for same in (True, False):
        def leaf(e, same=same):
            who = None
            if isinstance(e, ast.Attribute) and e.attr == '__class__' and isinstance(e.value, ast.Name):
                who = e.value.id
            elif isinstance(e, ast.Call) and norm(e.func) == 'type' and len(e.args) == 1 and isinstance(e.args[0], ast.Name):
                who = e.args[0].id
            if who == a0:
                return 'A'
            if who == a1:
                return 'A' if same else 'B'
            return NotImplemented
        try:
            res.append(bool(Evaluator({}, leaf=leaf).ev(test)))
        except AnalysisError:
            return None
    return res == [False, True]


def frame_copy(fd, hl, want_params=2):
    """problems of an emitted __imatmul__/__ilshift__ frame"""
    pr = []
    names = [a.arg for a in fd.args.args]
    if len(names) != want_params:
        return [f"takes parameters {names}, expected (self, other)"]
    a0, a1 = names
    body = fd.body
    ph = [i for i, st in enumerate(body) if isinstance(st, ast.Expr) and isinstance(st.value, ast.Name)
          and isinstance(hl.value(st.value.id), Splice)]
    nested = [n for n in ast.walk(fd) if isinstance(n, ast.Name) and isinstance(hl.value(n.id), Splice)]
    if not ph or len(nested) != len(ph):
        pr.append("the per-field copy statements are not at the top level of the function body")
    last = body[-1]
    if not (isinstance(last, ast.Return) and isinstance(last.value, ast.Name) and last.value.id == a0):
        pr.append(f"does not end with `return {a0}`: `x.f @= v` / `x.f <<= v` rebinds x.f to the method's result, so a "
                  f"nested struct field would be replaced by None")
    pro = [st for st in body[:ph[0]] if isinstance(st, ast.If)] if ph else []
    if not pro:
        pr.append("no conversion prologue: a Bits value or a different struct type on the right-hand side is not "
                  "converted with from_bits(to_bits())")
    for st in pro:
        pol = class_test_polarity(st.test, a0, a1)
        if pol is not True:
            pr.append(f"prologue condition `{norm(st.test)}` is not `classes differ`")
        good = len(st.body) == 1 and isinstance(st.body[0], ast.Assign) and len(st.body[0].targets) == 1 \
            and norm(st.body[0].targets[0]) == a1 and not st.orelse
        if good:
            v = st.body[0].value
            good = isinstance(v, ast.Call) and isinstance(v.func, ast.Attribute) and v.func.attr == 'from_bits' \
                and class_of(v.func.value) == a0 and len(v.args) == 1 and isinstance(v.args[0], ast.Call) \
                and norm(v.args[0].func) == f"{a1}.to_bits" and not v.args[0].args
        if not good:
            pr.append(f"prologue `{norm(st.body)[:80]}` does not rebind {a1} to {a0}.__class__.from_bits({a1}.to_bits())")
    return pr


def class_of(e):
    if isinstance(e, ast.Attribute) and e.attr == '__class__' and isinstance(e.value, ast.Name):
        return e.value.id
    if isinstance(e, ast.Call) and norm(e.func) == 'type' and len(e.args) == 1 and isinstance(e.args[0], ast.Name):
        return e.args[0].id
    return None


def name_bound_to_type(v, ev, T):
    """the emitted constructor name must be the name registered for T in the name->type table that becomes
    the generated function's globals.  Returns (table symbol or None, problems)"""
    v = U.unlin(v)

    def arm(x, conds):
        x = U.unlin(x)
        if isinstance(x, Sub) and x.idx == T and isinstance(x.v, Sym):
            return x.v, None
        for cont, key, val, sc in ev.stores:
            if key == T and val == x and all(c in conds for c in sc) and isinstance(cont, Sym):
                return cont, None
        return None, f"constructor name {show(x)} is not registered for {show(T)} in the name table: the generated " \
                     f"from_bits would look up an unbound / wrong class"
    if isinstance(v, Phi):
        ta, pa = arm(v.a, ((v.test, True),))
        tb, pb = arm(v.b, ((v.test, False),))
        pr = [p for p in (pa, pb) if p]
        if not pr and ta != tb:
            pr.append("the two branches use different name tables")
        return ta, pr
    t, p = arm(v, ())
    return t, ([p] if p else [])


def rule_leaf(repo):
    r = RuleResult('R-C06-leaf',
                   "emitted leaf actions and function frames: self.p @= other.p / self.p <<= other.p / self.p._flip() / "
                   "p.clone() / concat(self.p...) / cls(other[lo:hi]...), return self, conversion prologue; a leaf is "
                   "never emitted as a bare reference to the source object (no aliasing)")
    A = analysis(repo)
    m = A.m
    for gname in ('_mk_imatmul_fn', '_mk_ff_fn', '_mk_clone_fn', '_mk_deepcopy_fn', '_mk_nbits_to_bits_fn'):
        g = A.gen(gname)
        h = the_helper(g)
        L, rec = top_visit(g, h)
        key = field_key_value(L)
        for idx, fn in g.fns():
            fname = U.tmpl_text(fn.name)
            if fname is None:
                raise AnalysisError(f"{gname}: generated function with a computed name")
            projs = {s.proj for s in U.rec_sites(fn.body)}
            if len(projs) != 1:
                r.bad(m, gname, f"generated {fname}: body", "the generated body mixes different components of the "
                      "traversal results (or contains none)", g.fdef.lineno)
                continue
            k = next(iter(projs)) or 0
            # leaf actions (Bits leaf and nested-struct leaf)
            done = []
            for kind in ('bits', 'struct'):
                comps = h.comps(kind)
                if kind == 'struct' and U.rec_sites(h.cases['struct'][0]):
                    continue      # recursed field by field: no leaf here
                if k >= len(comps):
                    raise AnalysisError(f"{h.qual}: component {k} missing in the {kind} case")
                t = one_item(comps[k])
                cons0 = f"generated {fname}: {kind} leaf"
                if t is None:
                    r.bad(m, h.qual, cons0, f"the {kind} case emits {show(comps[k])}: not exactly one leaf action",
                          h.fdef.lineno)
                    continue
                if t in done:
                    r.ok(m, h.qual, cons0 + ' (same template as the Bits leaf)', nontrivial=False)
                    continue
                done.append(t)
                pr, src = leaf_problems(fname, compose(h, t, rec), key)
                cons = f"{cons0}: {show(t)}"
                if pr:
                    r.bad(m, h.qual, cons, '; '.join(pr), h.fdef.lineno)
                else:
                    r.ok(m, h.qual, cons)
            # list case wrapper of clone: a list literal of all element copies
            if fname in ('clone', '__deepcopy__') and gname == '_mk_clone_fn':
                _clone_list_wrapper(r, m, h)
            # frame
            hl = U.Holes()
            fd, src, err = U.parse_fn(fn, hl)
            cons = f"generated {fname}: frame"
            if fd is None:
                r.bad(m, gname, cons, f"the generated source does not parse: {err}: {src[:120]}", g.fdef.lineno)
                continue
            pr = []
            names = [a.arg for a in fd.args.args]
            if fname in ('__imatmul__', '__ilshift__'):
                pr = frame_copy(fd, hl)
            elif fname == '_flip':
                if len(names) != 1:
                    pr.append(f"takes parameters {names}, expected (self)")
                if not fd.body or not all(isinstance(st, ast.Expr) and isinstance(st.value, ast.Name)
                                          and isinstance(hl.value(st.value.id), Splice) for st in fd.body):
                    pr.append("body is not exactly the per-leaf flip statements")
            elif fname in ('clone', '__deepcopy__'):
                want = 1 if fname == 'clone' else 2
                if len(names) != want:
                    pr.append(f"takes parameters {names}, expected {want} "
                              f"({'copy.deepcopy passes the memo dict' if want == 2 else 'self'})")
                st = fd.body[0] if len(fd.body) == 1 else None
                ok = isinstance(st, ast.Return) and isinstance(st.value, ast.Call) and names \
                    and class_of(st.value.func) == names[0] and not st.value.keywords and len(st.value.args) == 1 \
                    and isinstance(st.value.args[0], ast.Name) and isinstance(hl.value(st.value.args[0].id), Rec)
                if not ok:
                    pr.append("body is not `return self.__class__(<one positional copy per field, in field order>)`")
            elif fname == 'to_bits':
                if len(names) != 1:
                    pr.append(f"takes parameters {names}, expected (self)")
                st = fd.body[0] if len(fd.body) == 1 else None
                ok = isinstance(st, ast.Return) and isinstance(st.value, ast.Call) and isinstance(st.value.func, ast.Name) \
                    and not st.value.keywords and len(st.value.args) == 1 and isinstance(st.value.args[0], ast.Name)
                ji = join_info(hl.value(st.value.args[0].id)) if ok else None
                if not ok or ji is None:
                    pr.append("body is not `return concat(<all leaf operands>)`")
                else:
                    sep, rev, seq = ji
                    if sep.strip() != ',':
                        pr.append(f"operands are joined with {sep!r}, not with a comma")
                    if rev:
                        pr.append("the operand list is reversed before it is passed to concat: the first field would be "
                                  "least significant")
                    ents = list(U.flatten(seq.segs))
                    if not (len(ents) == 1 and isinstance(ents[0][0], Splice) and len(ents[0][1]) == 1 and not ents[0][2]):
                        pr.append(f"operand list is {show(seq)}: not exactly the leaves of every field")
                    cn = st.value.func.id
                    gl = fn.globs
                    bound = [s.v.items[1] for s in gl.segs if isinstance(s, Item) and s.v.items[0] == Const(cn)] \
                        if isinstance(gl, DictV) else []
                    if bound != [Sym('concat')] or m.imports.get('concat', (None, None))[1] != 'concat' \
                            or not m.imports['concat'][0].endswith('helpers'):
                        pr.append(f"`{cn}` in the generated function is not bound to helpers.concat")
            if pr:
                r.bad(m, gname, cons, '; '.join(pr), g.fdef.lineno)
            else:
                r.ok(m, gname, cons)
    _from_bits_leaf(r, A)
    r.evaluations = A.steps()
    r.require_floor(20)
    return r


def _clone_list_wrapper(r, m, h):
    v = h.cases['list'][0]
    cons = "clone list case: list literal of the element copies"
    hl = U.Holes()
    e, src, err = U.parse_text(v, hl, 'eval') if stringish(v) else (None, show(v), 'not a string')
    ok = err is None and isinstance(e, ast.List) and len(e.elts) == 1 and isinstance(e.elts[0], ast.Name)
    ji = join_info(hl.value(e.elts[0].id)) if ok else None
    if ji is None:
        r.bad(m, h.qual, cons, f"the list case emits `{src}`, not `[<copy of element 0>, <copy of element 1>, ...]`",
              h.fdef.lineno)
        return
    sep, rev, seq = ji
    pr = []
    if sep.strip() != ',':
        pr.append(f"elements joined with {sep!r}")
    if rev:
        pr.append("the element copies are reversed: element k of the copy is element n-1-k of the original")
    ents = list(U.flatten(seq.segs))
    if not (len(ents) == 1 and isinstance(ents[0][0], Item) and isinstance(ents[0][0].v, Rec) and len(ents[0][1]) == 1
            and not ents[0][2]):
        pr.append(f"elements are {show(seq)}: not exactly one copy per element")
    if pr:
        r.bad(m, h.qual, cons, '; '.join(pr), h.fdef.lineno)
    else:
        r.ok(m, h.qual, cons)


def from_bits_parts(A):
    """shared by leaf / width / mirror: the analysed pieces of from_bits"""
    g = A.gen('_mk_from_bits_fns')
    h = the_helper(g)
    if not h.is_tuple or len(h.str_idx) != 1 or len(h.cnt_idx) != 1 or h.counter is None:
        raise AnalysisError(f"{h.qual}: expected a (counter, strings) result")
    return g, h, h.cnt_idx[0], h.str_idx[0]


def _from_bits_leaf(r, A):
    m = A.m
    g, h, ci, si = from_bits_parts(A)
    fns = g.fns()
    if len(fns) != 1:
        raise AnalysisError("_mk_from_bits_fns does not return one generated function")
    fn = fns[0][1]
    hl = U.Holes()
    fd, src, err = U.parse_fn(fn, hl)
    cons = "generated from_bits: frame"
    other = None
    if fd is None:
        r.bad(m, g.name, cons, f"the generated source does not parse: {err}", g.fdef.lineno)
    else:
        names = [a.arg for a in fd.args.args]
        pr = []
        if len(names) != 2:
            pr.append(f"takes parameters {names}, expected (cls, other)")
        else:
            c, other = names
            last = fd.body[-1]
            ok = isinstance(last, ast.Return) and isinstance(last.value, ast.Call) and norm(last.value.func) == c \
                and not last.value.keywords and len(last.value.args) == 1 and isinstance(last.value.args[0], ast.Name)
            ji = join_info(hl.value(last.value.args[0].id)) if ok else None
            if ji is None:
                pr.append(f"does not end with `return {c}(<one positional argument per field>)`")
            else:
                sep, rev, seq = ji
                if sep.strip() != ',':
                    pr.append(f"constructor arguments joined with {sep!r}")
                if rev:
                    pr.append("constructor arguments are reversed: the first field would receive the last field's bits")
                ents = list(U.flatten(seq.segs))
                if not (len(ents) == 1 and isinstance(ents[0][0], Splice) and len(ents[0][1]) == 1 and not ents[0][2]):
                    pr.append(f"constructor arguments are {show(seq)}: not exactly one per field")
            pre = fd.body[:-1]
            if not any(isinstance(st, ast.Assert) and isinstance(st.test, ast.Compare) and len(st.test.ops) == 1
                       and isinstance(st.test.ops[0], ast.Eq)
                       and {norm(st.test.left), norm(st.test.comparators[0])} == {f"{c}.nbits", f"{other}.nbits"}
                       for st in pre):
                pr.append(f"no `assert {c}.nbits == {other}.nbits`: a value of another width would be unpacked silently")
            if not any(isinstance(st, ast.Assign) and norm(st.targets[0]) == other and norm(st.value) == f"{other}.to_bits()"
                       for st in pre):
                pr.append(f"`{other}` is not normalised with {other}.to_bits() before it is sliced")
        if pr:
            r.bad(m, g.name, cons, '; '.join(pr), g.fdef.lineno)
        else:
            r.ok(m, g.name, cons)
    # name table -> globals (inverted, injective)
    table = None
    v, ev = h.cases['struct']
    t = one_item(h.comps('struct')[si])
    cons = "from_bits struct case: <class name>(<one argument per nested field>)"
    if t is None:
        r.bad(m, h.qual, cons, f"the struct case emits {show(h.comps('struct')[si])}, not one constructor call", h.fdef.lineno)
    else:
        hl2 = U.Holes()
        e, src2, err2 = U.parse_text(t, hl2, 'eval')
        ok = err2 is None and isinstance(e, ast.Call) and isinstance(e.func, ast.Name) and not e.keywords \
            and len(e.args) == 1 and isinstance(e.args[0], ast.Name) and hl2.value(e.func.id) is not None
        ji = join_info(hl2.value(e.args[0].id)) if ok else None
        if ji is None:
            r.bad(m, h.qual, cons, f"the struct case emits `{src2}`", h.fdef.lineno)
        else:
            sep, rev, seq = ji
            pr = []
            if sep.strip() != ',':
                pr.append(f"arguments joined with {sep!r}")
            if rev:
                pr.append("nested constructor arguments are reversed w.r.t. the nested field order")
            ents = list(U.flatten(seq.segs))
            if not (len(ents) == 1 and isinstance(ents[0][0], Splice) and len(ents[0][1]) == 1 and not ents[0][2]):
                pr.append(f"arguments are {show(seq)}: not exactly one per nested field")
            table, p2 = name_bound_to_type(hl2.value(e.func.id), ev, h.T)
            pr += p2
            if pr:
                r.bad(m, h.qual, cons, '; '.join(pr), h.fdef.lineno)
            else:
                r.ok(m, h.qual, cons)
    cons = "from_bits globals: inverted name table"
    gl = fn.globs
    pr = []
    ok = isinstance(gl, DictV) and len(gl.segs) == 1 and isinstance(gl.segs[0], LoopSeg) and len(gl.segs[0].segs) == 1 \
        and isinstance(gl.segs[0].segs[0], Item)
    if not ok:
        pr.append(f"globals of the generated from_bits are {show(gl)}, not the inverted name table")
    else:
        Lg = gl.segs[0].loop
        src_d = Lg.space.d if isinstance(Lg.space, ItemsSp) else None
        if not (isinstance(src_d, DictV) and table is not None and src_d.name == table.name):
            pr.append(f"globals are built from {show(Lg.space)}, not from the table the struct case registers its names in")
        if gl.segs[0].segs[0].v != Tup((LoopVar(Lg, 'val'), LoopVar(Lg, 'key'))):
            pr.append("globals do not map name -> type (the table type -> name is not inverted)")
        if table is not None and not any(
                isinstance(a[0], Cmp) and a[0].op == 'Eq' and {type(a[0].l), type(a[0].r)} == {Len} and not a[1] and not a[2]
                and {show(a[0].l), show(a[0].r)} >= {show(Len(gl))} for a in g.ev.asserts):
            pr.append("no assertion that the inversion is injective (two types registered under one name would "
                      "silently construct the wrong class)")
    if pr:
        r.bad(m, g.name, cons, '; '.join(pr), g.fdef.lineno)
    else:
        r.ok(m, g.name, cons)
    # list case: one list literal
    t = one_item(h.comps('list')[si])
    cons = "from_bits list case: [<one argument per element>]"
    hl3 = U.Holes()
    e, src3, err3 = U.parse_text(t, hl3, 'eval') if t is not None else (None, show(h.comps('list')[si]), 'x')
    ok = err3 is None and isinstance(e, ast.List) and len(e.elts) == 1 and isinstance(e.elts[0], ast.Name)
    ji = join_info(hl3.value(e.elts[0].id)) if ok else None
    if ji is None:
        r.bad(m, h.qual, cons, f"the list case emits `{src3}`, not one list literal", h.fdef.lineno)
    else:
        sep, rev, seq = ji
        ents = list(U.flatten(seq.segs))
        pr = []
        if sep.strip() != ',':
            pr.append(f"elements joined with {sep!r}")
        if not (len(ents) == 1 and isinstance(ents[0][0], Splice) and len(ents[0][1]) == 1 and not ents[0][2]):
            pr.append(f"elements are {show(seq)}: not exactly one per list element")
        if pr:
            r.bad(m, h.qual, cons, '; '.join(pr), h.fdef.lineno)
        else:
            r.ok(m, h.qual, cons, note='reversed' if rev else 'in consumption order')
    # bits leaf: a slice of the packed value
    t = one_item(h.comps('bits')[si])
    cons = "from_bits Bits leaf: other[lo:hi]"
    hl4 = U.Holes()
    e, src4, err4 = U.parse_text(t, hl4, 'eval') if t is not None else (None, show(h.comps('bits')[si]), 'x')
    ok = err4 is None and isinstance(e, ast.Subscript) and isinstance(e.value, ast.Name) and isinstance(e.slice, ast.Slice) \
        and e.slice.step is None and e.slice.lower is not None and e.slice.upper is not None
    if not ok:
        r.bad(m, h.qual, cons, f"the Bits leaf emits `{src4}`, not a slice of the packed value", h.fdef.lineno)
    elif other is not None and e.value.id != other:
        r.bad(m, h.qual, cons, f"the leaf slices `{e.value.id}`, the generated function's packed operand is `{other}`",
              h.fdef.lineno)
    else:
        r.ok(m, h.qual, cons + f": {show(t)}")


def from_list_reversed(A):
    g, h, ci, si = from_bits_parts(A)
    t = one_item(h.comps('list')[si])
    if t is None:
        return None
    hl = U.Holes()
    e, src, err = U.parse_text(t, hl, 'eval')
    if err or not (isinstance(e, ast.List) and len(e.elts) == 1 and isinstance(e.elts[0], ast.Name)):
        return None
    ji = join_info(hl.value(e.elts[0].id))
    return None if ji is None else ji[1]


# ---------------------------------------------------------------------------
# R-C06-width: bit-position bookkeeping
def to_bits_parts(A):
    g = A.gen('_mk_nbits_to_bits_fn')
    h = the_helper(g)
    if not h.is_tuple or len(h.str_idx) != 1 or len(h.cnt_idx) != 1 or h.counter is None:
        raise AnalysisError(f"{h.qual}: expected a (counter, strings) result")
    return g, h, h.cnt_idx[0], h.str_idx[0]


def threaded_problems(fold, h, ci, init, what):
    """`fold` must be: counter = init; for <every element>: counter = helper(..., counter)[ci]"""
    if not isinstance(fold, Fold):
        return [f"the {what} is {show(fold)}: it is not carried through the recursive calls (every leaf must move it)"], None
    pr = []
    if U.unlin(fold.init) != U.unlin(init) and fold.init != init:
        pr.append(f"the {what} starts at {show(fold.init)}, must start at {show(init)}")
    step = fold.step
    if not (isinstance(step, Proj) and isinstance(step.v, Rec) and step.k == ci):
        pr.append(f"the {what} is updated to {show(step)}, not to the position returned by the recursive call")
        return pr, None
    rec = step.v
    if rec.fn != h.name:
        pr.append(f"the {what} comes from {rec.fn}")
    arg = rec.args[h.pos(h.counter)]
    if arg != Carried(fold.loop, fold.name):
        pr.append(f"the recursive call receives {show(arg)} as position, not the running {what}: consecutive elements "
                  f"would overlap")
    return pr, rec


def rule_width(repo):
    r = RuleResult('R-C06-width',
                   "bit positions: to_bits counts from 0 and adds type_.nbits per leaf (nbits = sum of leaf widths); from_bits "
                   "counts down from the total by type_.nbits per leaf, slices [end-nbits:end], asserts it ends at 0; the "
                   "counter is threaded through every recursive call; every element yields exactly one constructor argument")
    A = analysis(repo)
    m = A.m
    # ---- to_bits
    g, h, ci, si = to_bits_parts(A)
    top = g.top
    cons = "to_bits: total width accumulated over the fields from 0"
    if not (isinstance(top, Tup) and len(top.items) == 2):
        raise AnalysisError("_mk_nbits_to_bits_fn does not return (total, function)")
    totals = [x for x in top.items if not isinstance(x, Fn)]
    if len(totals) != 1:
        raise AnalysisError("_mk_nbits_to_bits_fn: no total width component")
    pr, rec = threaded_problems(totals[0], h, ci, Lin(0), 'total width')
    if rec is not None:
        L, vrec = top_visit(g, h)
        if rec != vrec or totals[0].loop != L:
            pr.append("the width is accumulated over a different traversal than the one that emits the operands")
    (r.bad(m, g.name, cons, '; '.join(pr), g.fdef.lineno) if pr else r.ok(m, g.name, cons))
    for kind in ('list', 'struct'):
        comps = h.comps(kind)
        cons = f"to_bits {kind} case: position threaded through every element"
        pr, rec = threaded_problems(comps[ci], h, ci, Sym(h.counter), 'bit position')
        if rec is not None:
            ss = U.rec_sites(comps[si])
            if not ss or any(s.rec != rec or s.loops != (comps[ci].loop,) for s in ss):
                pr.append("operands and positions come from different recursive calls / loops")
        (r.bad(m, h.qual, cons, '; '.join(pr), h.fdef.lineno) if pr else r.ok(m, h.qual, cons))
    leaf = h.comps('bits')
    cons = f"to_bits Bits leaf: position {show(leaf[ci])}"
    want = U.lin(Sym(h.counter)).add(U.lin(Attr(h.T, 'nbits')))
    if U.lin(leaf[ci]) != want:
        r.bad(m, h.qual, cons, f"a leaf advances the position to {show(leaf[ci])}, must be {show(want)}: the reported nbits "
              f"differs from the sum of the leaf widths", h.fdef.lineno)
    else:
        r.ok(m, h.qual, cons)
    cons = "to_bits Bits leaf: exactly one concat operand"
    if one_item(leaf[si]) is None:
        r.bad(m, h.qual, cons, f"a leaf contributes {show(leaf[si])}", h.fdef.lineno)
    else:
        r.ok(m, h.qual, cons, nontrivial=False)
    # ---- from_bits
    g, h, ci, si = from_bits_parts(A)
    L, vrec = top_visit(g, h)
    carg = vrec.args[h.pos(h.counter)]
    cons = "from_bits: position counts down from the total over the fields"
    fold = None
    if not isinstance(carg, Carried):
        r.bad(m, g.name, cons, f"the field visit receives {show(carg)} as position, not a running counter", g.fdef.lineno)
    else:
        try:
            fold = U.freeze(g.ev.final_env.lookup(carg.name))
        except Exception:
            fold = None
        if len(g.params) < 2:
            raise AnalysisError("_mk_from_bits_fns lost its total-width parameter")
        total = [p for p in g.params if Sym(p) != g.fields_sym()]
        pr, rec = threaded_problems(fold, h, ci, Sym(total[0]), 'bit position')
        if rec is not None and (rec != vrec or fold.loop != L):
            pr.append("the position is threaded through a different traversal than the one that emits the arguments")
        (r.bad(m, g.name, cons, '; '.join(pr), g.fdef.lineno) if pr else r.ok(m, g.name, cons))
    cons = "from_bits: assert <final position> == 0"
    found = False
    for test, loops, conds, node in g.ev.asserts:
        if isinstance(test, Cmp) and test.op == 'Eq' and not loops and not conds and fold is not None:
            a, b = U.unlin(test.l), U.unlin(test.r)
            if (a == fold and b == Lin(0)) or (b == fold and a == Lin(0)):
                found = True
    if found:
        r.ok(m, g.name, cons)
    else:
        r.bad(m, g.name, cons, "the generator does not assert that unpacking consumed exactly the total width: a "
              "to_bits/from_bits width disagreement would go unnoticed and fields would be cut from shifted positions",
              g.fdef.lineno)
    for kind in ('list', 'struct'):
        comps = h.comps(kind)
        cons = f"from_bits {kind} case: position threaded through every element"
        pr, rec = threaded_problems(comps[ci], h, ci, Sym(h.counter), 'bit position')
        if rec is not None:
            ss = U.rec_sites(comps[si])
            if not ss or any(s.rec != rec or s.loops != (comps[ci].loop,) for s in ss):
                pr.append("arguments and positions come from different recursive calls / loops")
        (r.bad(m, h.qual, cons, '; '.join(pr), h.fdef.lineno) if pr else r.ok(m, h.qual, cons))
        cons = f"from_bits {kind} case: exactly one constructor argument"
        if one_item(comps[si]) is None:
            r.bad(m, h.qual, cons, f"the {kind} case returns {show(comps[si])}: the caller (reversal of list elements, "
                  f"positional constructor arguments) relies on one string per element", h.fdef.lineno)
        else:
            r.ok(m, h.qual, cons, nontrivial=False)
    leaf = h.comps('bits')
    want = U.lin(Sym(h.counter)).add(U.lin(Attr(h.T, 'nbits')), -1)
    cons = f"from_bits Bits leaf: returns position {show(leaf[ci])}"
    if U.lin(leaf[ci]) != want:
        r.bad(m, h.qual, cons, f"a leaf moves the position to {show(leaf[ci])}, must be {show(want)}", h.fdef.lineno)
    else:
        r.ok(m, h.qual, cons)
    t = one_item(leaf[si])
    cons = "from_bits Bits leaf: slice bounds"
    if t is None:
        r.bad(m, h.qual, cons, f"a leaf contributes {show(leaf[si])}, not one slice", h.fdef.lineno)
    else:
        hl = U.Holes()
        e, src, err = U.parse_text(t, hl, 'eval')
        if err or not (isinstance(e, ast.Subscript) and isinstance(e.slice, ast.Slice)):
            r.bad(m, h.qual, cons, f"the leaf emits `{src}`, not a slice", h.fdef.lineno)
        else:
            def bound(x):
                if x is None:
                    return None
                if isinstance(x, ast.Name) and hl.value(x.id) is not None:
                    return U.lin(hl.value(x.id))
                if isinstance(x, ast.Constant) and isinstance(x.value, int):
                    return Lin(x.value)
                return 'expr:' + norm(x)
            lo, hi = bound(e.slice.lower), bound(e.slice.upper)
            hi_want = U.lin(Sym(h.counter))
            if lo != want or hi != hi_want or e.slice.step is not None:
                r.bad(m, h.qual, cons + f": {show(t)}", f"the leaf is cut from [{show(lo) if isinstance(lo, Lin) else lo}:"
                      f"{show(hi) if isinstance(hi, Lin) else hi}], must be [{show(want)}:{show(hi_want)}] (the nbits bits "
                      f"below the running position)", h.fdef.lineno)
            else:
                r.ok(m, h.qual, cons + f": {show(t)}")
    r.evaluations = A.steps()
    r.require_floor(12)
    return r


# ---------------------------------------------------------------------------
# R-C06-mirror: to_bits and from_bits agree with each other
def rule_mirror(repo):
    r = RuleResult('R-C06-mirror',
                   "to_bits and from_bits are mirror images: same field order, same nested field order, descending emission of "
                   "list elements <-> reversed list literal, same width source, from_bits starts at the total to_bits computed")
    A = analysis(repo)
    m = A.m
    gt, ht, cti, sti = to_bits_parts(A)
    gf, hf, cfi, sfi = from_bits_parts(A)
    Lt, rect = top_visit(gt, ht)
    Lf, recf = top_visit(gf, hf)

    def order_of(space):
        """the container and whether the iteration is its plain order"""
        if isinstance(space, (ItemsSp, KeysSp, ValuesSp)):
            return ('plain', space.d)
        return ('other', show(space))
    cons = f"field order: to_bits {show(Lt.space)} / from_bits {show(Lf.space)}"
    a, b = order_of(Lt.space), order_of(Lf.space)
    fa, fb = gt.fields_sym(), gf.fields_sym()
    if a[0] == b[0] == 'plain' and a[1] == fa and b[1] == fb:
        r.ok(m, '_mk_from_bits_fns', cons)
    elif show(Lt.space).replace(fa.name if fa else '', '#') == show(Lf.space).replace(fb.name if fb else '', '#'):
        r.ok(m, '_mk_from_bits_fns', cons, note="same non-plain order on both sides (R-C06-traversal judges the order itself)")
    else:
        r.bad(m, '_mk_from_bits_fns', cons, "packing and unpacking walk the fields in different orders: "
              "from_bits(to_bits(v)) permutes the field values", gf.fdef.lineno)
    # nested struct
    st, sf = U.rec_sites(ht.cases['struct'][0]), U.rec_sites(hf.cases['struct'][0])
    cons = "nested struct field order"
    if not st or not sf or not st[0].loops or not sf[0].loops:
        r.bad(m, hf.qual, cons, "one of to_bits/from_bits does not walk the fields of a nested struct", hf.fdef.lineno)
    else:
        sa, sb = st[0].loops[0].space, sf[0].loops[0].space
        na = U.subst_values(sa, {ht.T: Sym('T')})
        nb = U.subst_values(sb, {hf.T: Sym('T')})
        if show(na) == show(nb):
            r.ok(m, hf.qual, cons + f": {show(na)}")
        else:
            r.bad(m, hf.qual, cons + f": {show(na)} / {show(nb)}", "packing and unpacking walk the fields of a nested "
                  "struct in different orders", hf.fdef.lineno)
    # lists
    lt = U.rec_sites(ht.cases['list'][0])
    cons = "list elements: emission order vs. list literal order"
    if not lt or not lt[0].loops:
        r.bad(m, ht.qual, cons, "to_bits does not walk list elements", ht.fdef.lineno)
    else:
        d, _ = list_space(ht.cases['list'][1], lt[0].loops[0], ht.T, None)
        rev = from_list_reversed(A)
        if d is None or rev is None:
            r.bad(m, hf.qual, cons, "cannot relate the list handling of to_bits and from_bits (see R-C06-traversal / "
                  "R-C06-leaf)", hf.fdef.lineno)
        elif (d == 'desc') == rev:
            r.ok(m, hf.qual, cons, note=f"to_bits emits {d}ending, from_bits {'reverses' if rev else 'keeps'} the consumed order")
        else:
            r.bad(m, hf.qual, cons, f"to_bits emits the elements in {d}ending index order (so from_bits consumes them in that "
                  f"order from the MSB side) but from_bits {'reverses' if rev else 'does not reverse'} the collected "
                  f"arguments: from_bits(to_bits(v)).f == reversed(v.f) for every list field with 2+ elements",
                  hf.fdef.lineno)
    # width source
    wt = U.lin(ht.comps('bits')[cti]).add(U.lin(Sym(ht.counter)), -1)
    wf = U.lin(Sym(hf.counter)).add(U.lin(hf.comps('bits')[cfi]), -1)
    wt = U.subst_values(wt, {ht.T: Sym('T')})
    wf = U.subst_values(wf, {hf.T: Sym('T')})
    cons = f"leaf width: to_bits +({show(wt)}) / from_bits -({show(wf)})"
    if U.lin(wt) == U.lin(wf):
        r.ok(m, hf.qual, cons)
    else:
        r.bad(m, hf.qual, cons, "a leaf occupies a different number of bits when packing and when unpacking", hf.fdef.lineno)
    # the total handed to from_bits is the one to_bits computed (wiring in _process_class)
    pc = m.get_func('_process_class')
    cons = "from_bits generator receives the total computed by the to_bits generator"
    tot_idx = [i for i, x in enumerate(gt.top.items) if not isinstance(x, Fn)][0]
    total_param = [p for p in gf.params if Sym(p) != gf.fields_sym()]
    calls = [n for n in walk_no_nested(pc) if isinstance(n, ast.Call) and norm(n.func) == gf.name]
    pr = []
    if len(calls) != 1 or not total_param:
        pr.append(f"expected exactly one call of {gf.name} in _process_class")
    else:
        call = calls[0]
        bound = bind_call(gf.fdef, call)
        targ = bound.get(total_param[0])
        if targ is None:
            pr.append("no total width argument")
        else:
            src = attr_source(pc, targ, call)
            if src is None or src[0] != gt.name or src[1] != tot_idx:
                pr.append(f"the total width argument `{norm(targ)}` is not the total returned by {gt.name}")
            elif norm(bound.get(gf.fields_sym().name)) != norm(src[2]):
                pr.append("to_bits and from_bits are generated from different field tables")
    (r.bad(m, '_process_class', cons, '; '.join(pr), pc.lineno) if pr else r.ok(m, '_process_class', cons))
    r.evaluations = A.steps()
    r.require_floor(5)
    return r


def bind_call(fdef, call):
    """parameter name -> argument expression of a plain call"""
    names = [a.arg for a in fdef.args.args] + [a.arg for a in fdef.args.kwonlyargs]
    out = {}
    for n, a in zip(names, call.args):
        if isinstance(a, ast.Starred):
            raise AnalysisError(f"starred argument in call of {fdef.name}")
        out[n] = a
    for k in call.keywords:
        if k.arg is None:
            raise AnalysisError(f"** in call of {fdef.name}")
        out[k.arg] = k.value
    return out


def name_source(func, name, at):
    """(call node, index or None) if `name` is bound, before `at`, by `name = f(...)` / `.., name, .. = f(...)`;
    (expr, None) for another simple value; None when unknown / ambiguous"""
    val = None
    for st in preceding_stmts(at):
        if isinstance(st, ast.Assign):
            for t in st.targets:
                if isinstance(t, ast.Name) and t.id == name:
                    val = (st.value, None)
                elif isinstance(t, (ast.Tuple, ast.List)):
                    for i, e in enumerate(t.elts):
                        if isinstance(e, ast.Name) and e.id == name:
                            if isinstance(st.value, (ast.Tuple, ast.List)) and len(st.value.elts) == len(t.elts):
                                val = (st.value.elts[i], None)
                            else:
                                val = (st.value, i)
        elif any(isinstance(n, ast.Name) and n.id == name and isinstance(n.ctx, ast.Store) for n in walk_no_nested(st)):
            val = None
    return val


def attr_stores(func, obj):
    """all stores `obj.attr = ...` / `obj.a, obj.b = ...` / setattr(obj, 'attr', v) in func:
    list of (attr, value expr, index or None, statement)"""
    out = []
    for n in walk_no_nested(func):
        if isinstance(n, ast.Assign):
            for t in n.targets:
                if isinstance(t, ast.Attribute) and isinstance(t.value, ast.Name) and t.value.id == obj:
                    out.append((t.attr, n.value, None, n))
                elif isinstance(t, (ast.Tuple, ast.List)):
                    for i, e in enumerate(t.elts):
                        if isinstance(e, ast.Attribute) and isinstance(e.value, ast.Name) and e.value.id == obj:
                            if isinstance(n.value, (ast.Tuple, ast.List)) and len(n.value.elts) == len(t.elts):
                                out.append((e.attr, n.value.elts[i], None, n))
                            else:
                                out.append((e.attr, n.value, i, n))
        elif isinstance(n, ast.Expr) and isinstance(n.value, ast.Call) and norm(n.value.func) == 'setattr' \
                and len(n.value.args) == 3 and norm(n.value.args[0]) == obj:
            k = n.value.args[1]
            key = k.value if isinstance(k, ast.Constant) else ('$' + norm(k))
            out.append((key, n.value.args[2], None, n))
    return out


def resolve_value(func, expr, idx, at, depth=0):
    """follow local names: returns (generator name, component index, fields argument, wrappers, call) or None"""
    wrappers = []
    while True:
        if depth > 6:
            return None
        depth += 1
        if isinstance(expr, ast.Name):
            src = name_source(func, expr.id, at)
            if src is None:
                return None
            expr, i2 = src
            if i2 is not None:
                if idx is not None:
                    return None
                idx = i2
            continue
        if isinstance(expr, ast.Call) and isinstance(expr.func, ast.Name) and expr.func.id in ('classmethod', 'staticmethod') \
                and len(expr.args) == 1:
            wrappers.append(expr.func.id)
            expr = expr.args[0]
            continue
        if isinstance(expr, ast.Subscript) and isinstance(expr.slice, ast.Constant) and isinstance(expr.slice.value, int) \
                and idx is None:
            idx = expr.slice.value
            expr = expr.value
            continue
        break
    if isinstance(expr, ast.Call) and isinstance(expr.func, ast.Name):
        return expr.func.id, idx, (expr.args[0] if expr.args else None), wrappers, expr
    return None


def attr_source(func, expr, at):
    """for an expression `cls.attr`: the generator call that produced the attribute -> (gen name, index, fields arg)"""
    if not (isinstance(expr, ast.Attribute) and isinstance(expr.value, ast.Name)):
        if isinstance(expr, ast.Name):
            rv = resolve_value(func, expr, None, at)
            return None if rv is None else (rv[0], rv[1], rv[4].args[0] if rv[4].args else None)
        return None
    prev = {id(s) for s in preceding_stmts(at)}
    cands = [(a, v, i, st) for a, v, i, st in attr_stores(func, expr.value.id) if a == expr.attr and id(st) in prev]
    if len(cands) != 1:
        return None
    a, v, i, st = cands[0]
    rv = resolve_value(func, v, i, st)
    if rv is None:
        return None
    return rv[0], rv[1], (rv[4].args[0] if rv[4].args else None)
