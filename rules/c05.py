"""C05 -- Slices, concat, extension and clog2 address exactly the named bits.  (DESIGN.md section 4, C05)"""
import ast

from sa.astutil import (inline_locals, norm, guards_of, reaching_value, walk_no_nested, always_exits, parent,
                        enclosing, stmt_of, Guard, preceding_stmts)
from sa.bitsdom import BitsDom, Cannot, width_term, mask_width, self_name
from sa.errors import AnalysisError
from sa.minieval import Evaluator, Obj
from sa.report import RuleResult
from rules.c04 import _eval_region, _bits, _field_writes

PID = 'C05'
BITS = 'pymtl3/datatypes/PythonBits.py'
HELPERS = 'pymtl3/datatypes/helpers.py'

EXPLANATION = (
    "Static analysis of Bits.__getitem__/__setitem__ and datatypes/helpers.py. R-C05-bounds evaluates the accepting "
    "region of the slice / index guards over all order types of {start, stop, 0, nbits} and requires exactly "
    "0<=start<stop<=nbits (0<=i<nbits); R-C05-nonefalsy abstractly evaluates how the slice bounds are defaulted "
    "(None -> default, an explicit 0 stays 0); R-C05-frame matches the read shape (old>>start)&mask(stop-start) and the "
    "write shape (old & ~M) | ((v & m) << start) with M provably the mask of bits start..stop-1; R-C05-fit decides the "
    "accepted RHS region of slice/bit assignment; R-C05-helpers checks concat/zext/sext/trunc/reduce_* against their "
    "bit-level definitions; R-intlog forbids float logarithms for bit counts (clog2 must be (N-1).bit_length()). "
    "R-C05-type-alias (sibling implementation: translated zext / trunc / sext / reductions) is a may-alias analysis of the RTLIR "
    "type-check visitors: a type object is re-sized only when it is a fresh copy on every path, so the operand keeps its width. "
    "By dependency: R-tr-slice for both back-ends, the visit_Reduce / visit_Concat clauses of R-tr-optable, the `int` clause of "
    "R-C04-optable (sext is built on Bits.int()). "
    "Decides the addressed bit positions and error regions for every width; trusts C04 for the arithmetic.")
ASSUMPTIONS = [
    "Python int/slice semantics; the C04 range invariant",
    "indices are ints or objects convertible by int()/__index__",
    "the external Mamba `concat` (imported when available) is out of scope",
]


def _slice_branch(f):
    """the `if isinstance(idx, slice):` statement of __getitem__/__setitem__"""
    idx = f.args.args[1].arg
    for st in f.body:
        if isinstance(st, ast.If) and isinstance(st.test, ast.Call) and norm(st.test.func) == 'isinstance' \
                and norm(st.test.args[0]) == idx and norm(st.test.args[1]) == 'slice':
            return st, idx
    raise AnalysisError(f"anchor vanished: slice branch of Bits.{f.name}")


def _bound_names(f, br):
    """names holding the slice's start and stop: the operands of the `stop - start` width"""
    for n in ast.walk(br):
        if isinstance(n, ast.BinOp) and isinstance(n.op, ast.Sub) and isinstance(n.left, ast.Name) and isinstance(n.right, ast.Name):
            return n.right.id, n.left.id
    raise AnalysisError(f"cannot identify start/stop in Bits.{f.name}")


def _all_conditions(f, site):
    """guards of site plus asserts of earlier sibling try-blocks whose handlers always exit"""
    return guards_of(site) + BitsDom(f)._try_asserts(site)


def _first_access(f, br, fields=('_uint',)):
    """first statement in the slice branch that reads or writes the stored value"""
    for st in br.body:
        for n in ast.walk(st):
            if isinstance(n, ast.Attribute) and n.attr in fields:
                return st
    raise AnalysisError(f"no access to the stored value in the slice branch of Bits.{f.name}")


def rule_bounds(repo):
    r = RuleResult('R-C05-bounds', "a slice is accepted iff 0<=start<stop<=nbits, an index iff 0<=i<nbits; stepped slices raise")
    m, cls, meths = _bits(repo)
    for fname in ('__getitem__', '__setitem__'):
        f = meths.get(fname)
        if f is None:
            raise AnalysisError(f"anchor vanished: Bits.{fname}")
        br, idx = _slice_branch(f)
        start, stop = _bound_names(f, br)
        # site: the statement computing the slice width / first use after the bound check
        site = None
        for st in br.body:
            if isinstance(st, ast.Try):
                continue
            if any(isinstance(n, ast.Name) and n.id in (start, stop) for n in ast.walk(st)):
                site = st
                break
        if site is None:
            raise AnalysisError(f"cannot find the use of the slice bounds in Bits.{fname}")
        conds = [g for g in _all_conditions(f, site)
                 if {start, stop} & {n.id for n in ast.walk(g.test) if isinstance(n, ast.Name)}]
        cons = f"slice bounds check before `{norm(site)[:50]}`"
        if not conds:
            r.bad(m, f"Bits.{fname}", cons, "slice bounds are not checked before the bits are accessed", site.lineno)
        else:
            wrong = None
            for N in (1, 2, 3, 4):
                def leaf(e, N=N):
                    if width_term(e, site, f) == 'N':
                        return N
                    return NotImplemented
                for a in range(-2, N + 3):
                    for b in range(-2, N + 3):
                        acc = True
                        for g in conds:
                            r.evaluations += 1
                            if bool(Evaluator({start: a, stop: b}, arith=True, leaf=leaf).ev(g.test)) != g.polarity:
                                acc = False
                                break
                        spec = 0 <= a < b <= N
                        if acc != spec and wrong is None:
                            wrong = (N, a, b, acc)
            if wrong:
                N, a, b, acc = wrong
                r.bad(m, f"Bits.{fname}", cons,
                      f"for a Bits{N} the slice [{a}:{b}] is {'accepted' if acc else 'rejected'}, but the rule "
                      f"0 <= start < stop <= nbits says {'reject' if acc else 'accept'}", conds[0].node.lineno)
            else:
                # the rejecting path must raise IndexError: handlers of the try that contains the assert
                ok = True
                for g in conds:
                    t = enclosing(g.node, (ast.Try,))
                    if g.kind == 'assert' and t is not None:
                        for h in t.handlers:
                            rs = [n for s in h.body for n in walk_no_nested(s) if isinstance(n, ast.Raise)]
                            if not rs or not all(isinstance(x.exc, ast.Call) and norm(x.exc.func) == 'IndexError' for x in rs):
                                ok = False
                    elif g.kind == 'assert':
                        ok = ok   # a bare assert raises AssertionError: tolerated only inside a converting try
                if ok:
                    r.ok(m, f"Bits.{fname}", cons)
                else:
                    r.bad(m, f"Bits.{fname}", cons, "an out-of-range slice does not raise IndexError", site.lineno)
        # step
        acc = _first_access(f, br) if fname == '__getitem__' else site
        stepg = [g for g in guards_of(site) if g.kind == 'exit' and '.step' in norm(g.test)]
        cons = "stepped slice rejected"
        if stepg and any(isinstance(n, ast.Raise) for s in stepg[0].exit_block for n in ast.walk(s)) \
                and stepg[0].polarity is False and norm(stepg[0].test) in (f'{idx}.step', f'{idx}.step is not None', f'{idx}.step != None'):
            r.ok(m, f"Bits.{fname}", cons, nontrivial=False)
        else:
            r.bad(m, f"Bits.{fname}", cons, "a slice with a step does not raise before the bits are selected", br.lineno)
        # index path: every statement after the slice branch that touches the value
        after = [s for s in f.body[f.body.index(br) + 1:]]
        sites = [s for s in after for n in [s] if any(isinstance(x, ast.Attribute) and x.attr == '_uint' and
                                                     not isinstance(x.ctx, ast.Store) or
                                                     (isinstance(x, ast.Call) and norm(x.func) == '_new_valid_bits')
                                                     for x in ast.walk(s))]
        iname = None
        for s in after:
            if isinstance(s, ast.Assign) and isinstance(s.targets[0], ast.Name) and isinstance(s.value, ast.Call) \
                    and norm(s.value.func) == 'int' and norm(s.value.args[0]) == idx:
                iname = s.targets[0].id
        if iname is None:
            iname = idx
        if not sites:
            raise AnalysisError(f"no index path in Bits.{fname}")
        site = sites[0]
        conds = [g for g in guards_of(site) if iname in {n.id for n in ast.walk(g.test) if isinstance(n, ast.Name)}]
        cons = f"index check before `{norm(site)[:50]}`"
        if not conds:
            r.bad(m, f"Bits.{fname}", cons, "bit index is not checked", site.lineno)
        else:
            wrong = None
            for N in (1, 2, 3):
                def leaf(e, N=N):
                    if width_term(e, site, f) == 'N':
                        return N
                    return NotImplemented
                for i in range(-3, N + 3):
                    acc = all(bool(Evaluator({iname: i}, arith=True, leaf=leaf).ev(g.test)) == g.polarity for g in conds)
                    r.evaluations += 1
                    if acc != (0 <= i < N) and wrong is None:
                        wrong = (N, i, acc)
            if wrong:
                N, i, acc = wrong
                r.bad(m, f"Bits.{fname}", cons, f"for a Bits{N} index {i} is {'accepted' if acc else 'rejected'}; "
                      f"the rule is 0 <= i < nbits", conds[0].node.lineno)
            else:
                rs = [n for g in conds for s in g.exit_block for n in walk_no_nested(s) if isinstance(n, ast.Raise)]
                if rs and all(isinstance(x.exc, ast.Call) and norm(x.exc.func) == 'IndexError' for x in rs):
                    r.ok(m, f"Bits.{fname}", cons)
                else:
                    r.bad(m, f"Bits.{fname}", cons, "an out-of-range index does not raise IndexError", site.lineno)
    r.require_floor(6)
    return r


def rule_nonefalsy(repo):
    r = RuleResult('R-C05-nonefalsy', "slice bounds are the user's bounds whenever given (an explicit 0 is not 'missing')")
    m, cls, meths = _bits(repo)
    for fname in ('__getitem__', '__setitem__'):
        f = meths[fname]
        br, idx = _slice_branch(f)
        start, stop = _bound_names(f, br)
        vals = {}
        for n in ast.walk(br):
            if isinstance(n, ast.Assign):
                for t in n.targets:
                    if isinstance(t, ast.Name) and t.id in (start, stop):
                        vals.setdefault(t.id, []).append(n.value)
                    elif isinstance(t, ast.Tuple) and isinstance(n.value, ast.Tuple):
                        for te, ve in zip(t.elts, n.value.elts):
                            if isinstance(te, ast.Name) and te.id in (start, stop):
                                vals.setdefault(te.id, []).append(ve)
        for which, attr, default in ((start, 'start', 0), (stop, 'stop', 'N')):
            exprs = vals.get(which, [])
            if len(exprs) != 1:
                raise AnalysisError(f"Bits.{fname}: expected one definition of {which}, found {len(exprs)}")
            e = exprs[0]
            bad = None
            N = 8
            for given in (None, 0, 3, 8):
                env = {idx: Obj('slice', start=given, stop=given, step=None)}

                def leaf(x):
                    if width_term(x, br, f) == 'N':
                        return N
                    return NotImplemented
                r.evaluations += 1
                try:
                    got = Evaluator(env, arith=True, leaf=leaf, funcs={'int': lambda v: int(v)}).ev(e)
                except TypeError:
                    got = 'TypeError'
                want = (N if default == 'N' else default) if given is None else given
                if got != want and bad is None:
                    bad = (given, got, want)
            cons = f"{which} = {norm(e)}"
            if bad:
                r.bad(m, f"Bits.{fname}", cons,
                      f"for idx.{attr} == {bad[0]!r} the bound becomes {bad[1]!r} instead of {bad[2]!r}: an explicit 0 is "
                      f"treated as missing, so x[k:0] selects bits k..nbits-1 instead of raising", e.lineno)
            else:
                r.ok(m, f"Bits.{fname}", cons)
    r.require_floor(4)
    return r


# ---------------------------------------------------------------------------
def _is_mask_of_range(e, start, stop, at, f):
    """e denotes the mask with exactly bits start..stop-1 set"""
    t = norm(e)
    S = f"S:{start}:{stop}"
    if t == f"(1 << {stop}) - (1 << {start})":
        return True
    if isinstance(e, ast.BinOp) and isinstance(e.op, ast.LShift) and norm(e.right) == start \
            and mask_width(e.left, at, f) == S:
        return True
    return False


def rule_frame(repo):
    r = RuleResult('R-C05-frame', "reads return exactly bits lo..hi-1 with width hi-lo; writes change those bits and no others")
    m, cls, meths = _bits(repo)
    # --- reads
    f = meths['__getitem__']
    me = self_name(f)
    br, idx = _slice_branch(f)
    start, stop = _bound_names(f, br)
    S = f"S:{start}:{stop}"
    calls = [n for n in ast.walk(br) if isinstance(n, ast.Call) and norm(n.func) == '_new_valid_bits']
    if len(calls) != 1:
        raise AnalysisError("Bits.__getitem__: expected exactly one slice result")
    c = calls[0]
    cons = norm(c)
    v = c.args[1]
    ok = width_term(c.args[0], c, f) == S and isinstance(v, ast.BinOp) and isinstance(v.op, ast.BitAnd)
    if ok:
        sh, mk = (v.left, v.right) if mask_width(v.right, c, f) == S else (v.right, v.left)
        ok = mask_width(mk, c, f) == S and isinstance(sh, ast.BinOp) and isinstance(sh.op, ast.RShift) \
            and norm(sh.left) in (f'{me}._uint', f'int({me}._uint)') and norm(sh.right) == start
    (r.ok if ok else r.bad)(m, 'Bits.__getitem__', cons,
                            *([] if ok else [f"slice read must be ({me}._uint >> {start}) & mask({stop}-{start}) with width {stop}-{start}", c.lineno]))
    bit = [n for s in f.body[f.body.index(br) + 1:] for n in ast.walk(s)
           if isinstance(n, ast.Call) and norm(n.func) == '_new_valid_bits']
    if len(bit) != 1:
        raise AnalysisError("Bits.__getitem__: expected exactly one single-bit result")
    c = bit[0]
    iname = [norm(s.targets[0]) for s in f.body if isinstance(s, ast.Assign) and isinstance(s.value, ast.Call)
             and norm(s.value.func) == 'int' and norm(s.value.args[0]) == idx]
    iname = iname[0] if iname else idx
    v = c.args[1]
    ok = norm(c.args[0]) == '1' and isinstance(v, ast.BinOp) and isinstance(v.op, ast.BitAnd)
    if ok:
        sh, mk = (v.left, v.right) if norm(v.right) == '1' else (v.right, v.left)
        ok = norm(mk) == '1' and isinstance(sh, ast.BinOp) and isinstance(sh.op, ast.RShift) and \
            norm(sh.left) in (f'{me}._uint', f'int({me}._uint)') and norm(sh.right) == iname
    (r.ok if ok else r.bad)(m, 'Bits.__getitem__', norm(c),
                            *([] if ok else [f"bit read must be ({me}._uint >> {iname}) & 1 with width 1", c.lineno]))
    # --- writes
    f = meths['__setitem__']
    me = self_name(f)
    br, idx = _slice_branch(f)
    start, stop = _bound_names(f, br)
    S = f"S:{start}:{stop}"
    vname = f.args.args[2].arg

    def old_value(e, at):
        if norm(e) in (f'{me}._uint', f'int({me}._uint)'):
            return True
        if isinstance(e, ast.Name):
            rv = reaching_value(e.id, at)
            return rv is not None and old_value(rv, at)
        return False

    def check_write(st, val, pos, S_or_1, where):
        cons = norm(st)
        if not (isinstance(val, ast.BinOp) and isinstance(val.op, ast.BitOr)):
            r.bad(m, 'Bits.__setitem__', cons, "write must have the shape (old & ~M) | (new << pos)", st.lineno)
            return
        def res(e):
            # a helper local (`clear_mask = ~(...)`, `ins = (v & m) << start`) reads as its expression; the old value keeps its name
            while isinstance(e, ast.Name) and not old_value(e, st):
                rv = reaching_value(e.id, st)
                if rv is None:
                    break
                e = rv
            return e
        keep = ins = None
        for a, b in ((res(val.left), res(val.right)), (res(val.right), res(val.left))):
            if isinstance(a, ast.BinOp) and isinstance(a.op, ast.BitAnd):
                for x, y in ((a.left, res(a.right)), (a.right, res(a.left))):
                    if old_value(x, st) and isinstance(y, ast.UnaryOp) and isinstance(y.op, ast.Invert):
                        keep, ins = res(y.operand), b
        if keep is None:
            r.bad(m, 'Bits.__setitem__', cons, "the untouched bits are not preserved as (old & ~M)", st.lineno)
            return
        if S_or_1 == '1':
            mask_ok = norm(keep) == f"1 << {pos}"
        else:
            mask_ok = _is_mask_of_range(keep, start, stop, st, f)
        if not mask_ok:
            r.bad(m, 'Bits.__setitem__', cons, f"cleared mask `{norm(keep)}` is not exactly the bits "
                  f"{'at ' + pos if S_or_1 == '1' else start + '..' + stop + '-1'}: other bits change or target bits survive", st.lineno)
            return
        if not (isinstance(ins, ast.BinOp) and isinstance(ins.op, ast.LShift) and norm(ins.right) == pos):
            r.bad(m, 'Bits.__setitem__', cons, f"new bits must be shifted to position {pos}", st.lineno)
            return
        try:
            BitsDom(f).in_range(ins.left, S_or_1, st)
        except Cannot as c:
            r.bad(m, 'Bits.__setitem__', cons, f"inserted value is not confined to the {where}: {c.why}", st.lineno)
            return
        # the inserted value must be the RHS
        if not any(isinstance(n, ast.Name) and n.id == vname for n in ast.walk(ins.left)):
            r.bad(m, 'Bits.__setitem__', cons, "inserted bits do not come from the assigned value", st.lineno)
            return
        r.ok(m, 'Bits.__setitem__', cons)

    n_slice = n_bit = 0
    for tgt, val, st in _field_writes(f):
        if tgt.attr != '_uint':
            continue
        if val is None:
            raise AnalysisError(f"Bits.__setitem__: augmented store `{norm(st)[:60]}` that is not the second half of a read-modify-write pair")
        val = _inline_or_operands(val, st)    # a hoisted `ins = (v & mask) << start` reads as the expression
        inside = any(x is st for x in ast.walk(br))
        if inside:
            n_slice += 1
            check_write(st, val, start, S, 'slice width')
        else:
            n_bit += 1
            iname = [norm(s.targets[0]) for s in f.body if isinstance(s, ast.Assign) and isinstance(s.value, ast.Call)
                     and norm(s.value.func) == 'int' and norm(s.value.args[0]) == idx]
            check_write(st, val, iname[0] if iname else idx, '1', 'single bit')
    if n_slice < 2 or n_bit < 2:
        raise AnalysisError("Bits.__setitem__: expected Bits and int stores on both the slice and the bit path")
    r.require_floor(6)
    return r


def _inline_or_operands(val, st):
    """`a | ins` where `ins` is a single-assignment local: read it as `a | <its expression>` (only the operands of the top-level
    `|` are inlined; the frame variables sv / i / start keep their names)"""
    if isinstance(val, ast.BinOp) and isinstance(val.op, ast.BitOr):
        parts = []
        for side in (val.left, val.right):
            if isinstance(side, ast.Name):
                v = reaching_value(side.id, st)
                parts.append(v if v is not None else side)
            else:
                parts.append(side)
        return ast.BinOp(left=parts[0], op=val.op, right=parts[1])
    return val


def rule_fit(repo):
    r = RuleResult('R-C05-fit', "a value that does not fit the target slice / bit raises instead of overwriting other bits")
    m, cls, meths = _bits(repo)
    f = meths['__setitem__']
    br, idx = _slice_branch(f)
    start, stop = _bound_names(f, br)
    S = f"S:{start}:{stop}"
    vname = f.args.args[2].arg
    nev = [0]
    for tgt, val, st in _field_writes(f):
        if tgt.attr != '_uint':
            continue
        if val is None:
            raise AnalysisError(f"Bits.__setitem__: augmented store `{norm(st)[:60]}` that is not the second half of a read-modify-write pair")
        val = _inline_or_operands(val, st)
        inside = any(x is st for x in ast.walk(br))
        reads_obj = any(isinstance(n, ast.Attribute) and n.attr == '_uint' and norm(n.value) == vname for n in ast.walk(val))
        cons = f"{'slice' if inside else 'bit'} store of {'Bits' if reads_obj else 'int'} value: {norm(st)[:70]}"
        if reads_obj:
            if inside:
                w = BitsDom(f).operand_width(vname, st)
                if w == S:
                    r.ok(m, 'Bits.__setitem__', cons)
                else:
                    r.bad(m, 'Bits.__setitem__', cons, f"no dominating check `{vname}.nbits != slice width -> raise`: a Bits "
                          f"value of another width is silently truncated/zero-extended into the slice", st.lineno)
            else:
                gs = [g for g in guards_of(st) if g.kind == 'exit' and vname in norm(g.test) and 'nbits' in norm(g.test)]
                okg = False
                for g in gs:
                    # accepted iff v.nbits <= 1  (v.nbits >= 1 always)
                    res = []
                    for nb in (1, 2, 3):
                        nev[0] += 1
                        ev = Evaluator({vname: Obj('Bits', nbits=nb, _nbits=nb)}, arith=False)
                        res.append(bool(ev.ev(g.test)) == g.polarity)
                    okg = okg or res == [True, False, False]
                if okg:
                    r.ok(m, 'Bits.__setitem__', cons)
                else:
                    r.bad(m, 'Bits.__setitem__', cons, "a Bits value wider than 1 bit is not rejected for a single-bit store", st.lineno)
        else:
            gs = [g for g in guards_of(st) if g.kind in ('exit', 'assert') and
                  any(isinstance(n, ast.Name) and n.id == vname for n in ast.walk(g.test))
                  and not any(isinstance(n, ast.Call) and norm(n.func) == 'isinstance' for n in ast.walk(g.test))]
            if not gs:
                r.bad(m, 'Bits.__setitem__', cons, "integer value is not range-checked against the target width", st.lineno)
                continue
            bad = None
            from rules.c04 import WrongWidth
            try:
                for U in ((1, 3, 7) if inside else (1,)):
                    _eval_region(f, gs, vname, st, U, nev, want_width=(S if inside else None))
            except WrongWidth as ww:
                r.bad(m, 'Bits.__setitem__', cons, f"the range check of the assigned integer uses {ww}, which is not the bound table entry for the "
                      f"width of the target slice: an integer too wide for the slice (but fitting that other width) is silently truncated", st.lineno)
                continue
            for U in ((1, 3, 7) if inside else (1,)):
                acc = _eval_region(f, gs, vname, st, U, nev)
                LO = -((U + 1) // 2)
                if acc != set(range(LO, U + 1)):
                    bad = (U, sorted(acc))
                    break
            if bad:
                r.bad(m, 'Bits.__setitem__', cons, f"accepted integers {bad[1]} for a {bad[0].bit_length()}-bit target; "
                      f"expected exactly -2^(w-1) .. 2^w-1", st.lineno)
            else:
                r.ok(m, 'Bits.__setitem__', cons)
    r.evaluations = nev[0]
    r.require_floor(4)
    return r


# ---------------------------------------------------------------------------
def _fn(m, name):
    """function `name` in helpers.py, also when defined inside a try/except fallback"""
    for n in ast.walk(m.tree):
        if isinstance(n, ast.FunctionDef) and n.name == name:
            return n
    raise AnalysisError(f"anchor vanished: helpers.{name}")


def _ext_branches(f):
    """(int-width branch statements, type branch statements) of zext/sext/trunc"""
    for st in f.body:
        if isinstance(st, ast.If):
            t, neg = st.test, False
            while isinstance(t, ast.UnaryOp) and isinstance(t.op, ast.Not):
                t, neg = t.operand, not neg
            if isinstance(t, ast.Call) and norm(t.func) == 'isinstance' and norm(t.args[1]) == 'int':
                body, orelse = st.body, st.orelse
                if not orelse and always_exits(body):
                    # guard-clause form: `if c: ...; return x` followed by the other case
                    orelse = f.body[f.body.index(st) + 1:]
                return (orelse, body) if neg else (body, orelse)
    raise AnalysisError(f"helpers.{f.name}: int/type case split not found")


def rule_helpers(repo):
    r = RuleResult('R-C05-helpers', "concat / zext / sext / trunc / reduce_* equal their bit-level definitions")
    m = repo.mod(HELPERS)
    # concat: MSB-first fold
    f = _fn(m, 'concat')
    loops = [s for s in f.body if isinstance(s, ast.For)]
    ok = False
    msg = "concat must fold value = (value << x.nbits) | x.uint() over the arguments in order and return Bits(sum of widths, value)"
    if len(loops) == 1 and f.args.vararg is not None and norm(loops[0].iter) == f.args.vararg.arg:
        lp = loops[0]
        x = norm(lp.target)
        acc_v = acc_w = None
        wnames = {f"{x}.nbits"}
        for s in lp.body:
            if isinstance(s, ast.Assign) and norm(s.value) == f"{x}.nbits":
                wnames.add(norm(s.targets[0]))
        for s in lp.body:
            if isinstance(s, ast.AugAssign) and isinstance(s.op, ast.Add) and norm(s.value) in wnames:
                acc_w = norm(s.target)
            if isinstance(s, ast.Assign) and isinstance(s.value, ast.BinOp) and isinstance(s.value.op, ast.Add) \
                    and {norm(s.value.left), norm(s.value.right)} & wnames and norm(s.targets[0]) in (norm(s.value.left), norm(s.value.right)):
                acc_w = norm(s.targets[0])
            if isinstance(s, ast.Assign) and isinstance(s.value, ast.BinOp) and isinstance(s.value.op, ast.BitOr):
                tv = norm(s.targets[0])
                for a, b in ((s.value.left, s.value.right), (s.value.right, s.value.left)):
                    if isinstance(a, ast.BinOp) and isinstance(a.op, ast.LShift) and norm(a.left) == tv and norm(a.right) in wnames \
                            and norm(b) in (f"{x}.uint()", f"int({x})", f"{x}._uint"):
                        acc_v = tv
        rets = [n for n in walk_no_nested(f) if isinstance(n, ast.Return)]
        if acc_v and acc_w and len(rets) == 1 and isinstance(rets[0].value, ast.Call) and norm(rets[0].value.func) == 'Bits' \
                and [norm(a) for a in rets[0].value.args] == [acc_w, acc_v]:
            # both accumulators start at 0
            init = {}
            for s in f.body:
                if isinstance(s, ast.Assign) and isinstance(s.value, ast.Constant):
                    for t in s.targets:
                        for nm in ([t] if isinstance(t, ast.Name) else []):
                            init[nm.id] = s.value.value
            ok = init.get(acc_v) == 0 and init.get(acc_w) == 0
    (r.ok if ok else r.bad)(m, 'concat', norm(loops[0].body) if loops else norm(f.body)[:100], *([] if ok else [msg, f.lineno]))

    spec = {'zext': ('uint', ast.GtE, False), 'sext': ('int', ast.GtE, False), 'trunc': ('uint', ast.LtE, True)}
    for name, (getter, cmpop, trunc) in spec.items():
        f = _fn(m, name)
        val, nw = f.args.args[0].arg, f.args.args[1].arg
        ib, tb = _ext_branches(f)
        for which, blk in (('int width', ib), ('Bits type', tb)):
            rets = [n for s in blk for n in walk_no_nested(s) if isinstance(n, ast.Return)]
            cons = f"{name} [{which}]: {norm(rets[0]) if rets else '?'}"
            if len(rets) != 1 or not isinstance(rets[0].value, ast.Call):
                r.bad(m, name, cons, "expected a single constructor call", f.lineno)
                continue
            c = rets[0].value
            args = [norm(a) for a in c.args]
            kws = {k.arg: norm(k.value) for k in c.keywords}
            if which == 'int width':
                good = norm(c.func) == 'Bits' and args[:2] == [nw, f"{val}.{getter}()"]
                if trunc:
                    good = good and (kws.get('trunc_int') == 'True' or args[2:] == ['True'])
                else:
                    good = good and 'trunc_int' not in kws and len(args) == 2
                asserts = [s for s in blk if isinstance(s, ast.Assert)]
                dir_ok = False
                for a in asserts:
                    t = a.test
                    if isinstance(t, ast.Compare) and len(t.ops) == 1:
                        l, rr, op = norm(t.left), norm(t.comparators[0]), type(t.ops[0])
                        flip = {ast.GtE: ast.LtE, ast.LtE: ast.GtE}
                        if (l, rr, op) == (nw, f"{val}.nbits", cmpop) or (l, rr, flip.get(op)) == (f"{val}.nbits", nw, cmpop):
                            dir_ok = True
                if not good:
                    r.bad(m, name, cons, f"{name} must build Bits(new_width, value.{getter}()"
                          f"{', trunc_int=True' if trunc else ''})", rets[0].lineno)
                elif not dir_ok:
                    r.bad(m, name, cons, f"{name} must assert new_width {'<=' if cmpop is ast.LtE else '>='} value.nbits", rets[0].lineno)
                else:
                    r.ok(m, name, cons)
            else:
                good = norm(c.func) == nw and args[:1] == [f"{val}.{getter}()"]
                if trunc:
                    good = good and kws.get('trunc_int') == 'True'
                else:
                    good = good and not kws and len(args) == 1
                (r.ok if good else r.bad)(m, name, cons, *([] if good else [
                    f"{name} must build new_width(value.{getter}(){', trunc_int=True' if trunc else ''})", rets[0].lineno]))
    # reduce_*
    f = _fn(m, 'reduce_and')
    v = f.args.args[0].arg
    rets = [n for n in ast.walk(f) if isinstance(n, ast.Return)]
    txt = norm(rets[0].value.args[0]) if rets and isinstance(rets[0].value, ast.Call) and rets[0].value.args else ''
    good = txt in (f"int({v}) == (1 << {v}.nbits) - 1", f"{v}.uint() == (1 << {v}.nbits) - 1", f"(1 << {v}.nbits) - 1 == int({v})")
    (r.ok if good else r.bad)(m, 'reduce_and', txt, *([] if good else ["reduce_and must compare the value with the all-ones value (1 << nbits) - 1", f.lineno]))
    f = _fn(m, 'reduce_or')
    v = f.args.args[0].arg
    rets = [n for n in ast.walk(f) if isinstance(n, ast.Return)]
    txt = norm(rets[0].value.args[0]) if rets and isinstance(rets[0].value, ast.Call) and rets[0].value.args else ''
    good = txt in (f"int({v}) != 0", f"{v}.uint() != 0", f"int({v}) > 0", f"bool({v})")
    (r.ok if good else r.bad)(m, 'reduce_or', txt, *([] if good else ["reduce_or must test the value against 0", f.lineno]))
    f = _fn(m, 'reduce_xor')
    v = f.args.args[0].arg
    whiles = [n for n in ast.walk(f) if isinstance(n, ast.While)]
    rets = [n for n in ast.walk(f) if isinstance(n, ast.Return)]
    good = False
    if len(whiles) == 1 and rets:
        w = whiles[0]
        body = [norm(s) for s in w.body]
        cnt = [s for s in w.body if isinstance(s, ast.AugAssign) and isinstance(s.op, ast.Add) and norm(s.value) == f"{v} & 1"]
        shr = [s for s in w.body if isinstance(s, ast.AugAssign) and isinstance(s.op, ast.RShift) and norm(s.target) == v and norm(s.value) == '1']
        good = norm(w.test) in (f"{v} != 0", f"{v} > 0", v) and len(cnt) == 1 and len(shr) == 1 and len(w.body) == 2 \
            and isinstance(rets[0].value, ast.Call) and norm(rets[0].value.args[0]) == f"{norm(cnt[0].target)} & 1"
        if good:
            # counter starts at 0
            good = any(isinstance(s, ast.Assign) and norm(s.targets[0]) == norm(cnt[0].target) and norm(s.value) == '0' for s in ast.walk(f))
    elif rets and isinstance(rets[0].value, ast.Call) and rets[0].value.args:
        good = norm(rets[0].value.args[0]) in (f"bin(int({v})).count('1') & 1", f"int({v}).bit_count() & 1")
    (r.ok if good else r.bad)(m, 'reduce_xor', norm(whiles[0])[:80] if whiles else '', *([] if good else ["reduce_xor must return the parity of the population count", f.lineno]))
    r.require_floor(10)
    return r


INTLOG_SITES = [   # (file, qualified function) that return a bit count computed from an integer
    (HELPERS, 'clog2'),
    ('pymtl3/passes/rtlir/rtype/RTLIRDataType.py', '_get_nbits_from_value'),
    ('pymtl3/passes/rtlir/behavioral/BehavioralRTLIRTypeCheckL1Pass.py', 'BehavioralRTLIRTypeCheckVisitorL1._get_nbits_from_value'),
]
FLOAT_LOGS = {'math.log', 'math.log2', 'math.log10', 'log', 'log2', 'log10', 'np.log2', 'numpy.log2'}


def rule_intlog(repo, only=None):
    r = RuleResult('R-intlog', "bit counts are computed with integer arithmetic (int.bit_length), never through a float logarithm")
    for rel, q in INTLOG_SITES:
        if only and (rel, q) not in only:
            continue
        m = repo.mod(rel)
        f = m.get_func(q)
        logs = [c for c in ast.walk(f) if isinstance(c, ast.Call) and norm(c.func) in FLOAT_LOGS]
        if logs:
            r.bad(m, q, norm(logs[0]), "float logarithm on an unbounded integer: the result is off by one for large "
                  "arguments (e.g. 2**29 / 2**49+); use int.bit_length()", logs[0].lineno)
        else:
            r.ok(m, q, "no float logarithm")
    if only is None or (HELPERS, 'clog2') in only:
        m = repo.mod(HELPERS)
        f = m.get_func('clog2')
        n = f.args.args[0].arg
        logs = [c for c in ast.walk(f) if isinstance(c, ast.Call) and norm(c.func) in FLOAT_LOGS]
        if not logs:
            # constant folding of the pure integer function over boundary values: must equal (N-1).bit_length()
            pts = sorted({v for k in range(0, 71) for v in ((1 << k) - 1, 1 << k, (1 << k) + 1) if v >= 1} | set(range(1, 40)))
            wrong = None
            for v in pts:
                ev = Evaluator({n: v}, arith=True, funcs={'int': int, 'len': len, 'bin': bin, 'abs': abs, 'max': max, 'min': min})
                kind, val = ev.run(f.body)
                r.evaluations += 1
                if kind != 'return' or val != (v - 1).bit_length():
                    wrong = (v, kind, val)
                    break
            asserts_ok = Evaluator({n: 0}, arith=True, funcs={'int': int}).run(f.body)[0] == 'raise'
            cons = f"clog2({n}) evaluated on {len(pts)} boundary values up to 2**70+1"
            if wrong:
                r.bad(m, 'clog2', cons, f"clog2({wrong[0]}) gives {wrong[2]!r}, must be {(wrong[0]-1).bit_length()} "
                      f"(least k with 2^k >= N)", f.lineno)
            elif not asserts_ok:
                r.bad(m, 'clog2', cons, "clog2(0) must be rejected", f.lineno)
            else:
                r.ok(m, 'clog2', cons)
    r.require_floor(2 if only else 4)
    return r


def rule_signal_slices(repo):
    """sibling implementation of slicing: a slice of a Signal (incl. a slice of a slice) must name exactly the absolute bits and
    reject bounds outside the (outer) slice -- shared with C09 (R-C09-slicekey)"""
    from rules.c09 import rule_slicekey
    return rule_slicekey(repo)


def rule_rtlir_slices(repo):
    """sibling implementation of slicing: the RTLIR type checker (whose result width and bound check decide the emitted
    part-select) -- shared with C10 (R-C10-widthtable covers visit_Slice / visit_Index bound checks and widths)"""
    from rules.c10 import rule_widthtable
    return rule_widthtable(repo)


VALUE_METHODS_EXEMPT = {
    'to_bits': "Bits.to_bits() is the identity by design (a Bits is its own packed form); it is not a slicing / arithmetic result",
}


def rule_value_semantics(repo):
    """x[a:b], x[i], arithmetic and the extension helpers produce VALUES: a result that is the operand object itself is changed by a
    later in-place write (@=, <<=, x[i] = ..) to the operand -- and vice versa."""
    r = RuleResult('R-C05-value', "slicing, indexing, arithmetic / logic operators, clone and the extension helpers return a fresh Bits "
                                  "object on every path (never the operand itself); only the in-place operators return self")
    m = repo.mod(BITS)
    meths = m.methods('Bits')
    # the two operators the DSL treats as assignments to a signal / register (R-C09-optable accepts exactly `@=` and `<<=` as
    # writes) update the object in place; every OTHER augmented operator (+=, -=, &=, |=, ...) is arithmetic on a value: if the
    # class defines it at all it must build a new Bits like its binary counterpart, or `b = a; b += 1` changes a as well
    ASSIGNMENT_OPS = ('__imatmul__', '__ilshift__')
    aug = {k for k in meths if k.startswith('__i') and k.endswith('__') and k not in ('__init__', '__int__', '__index__', '__invert__')}
    inplace = {k for k in aug if k in ASSIGNMENT_OPS}
    for name in sorted(aug - inplace):
        f = meths[name]
        me = f.args.args[0].arg
        rets = [n for n in walk_no_nested(f) if isinstance(n, ast.Return) and n.value is not None]
        stores = [n for n in walk_no_nested(f) if isinstance(n, (ast.Assign, ast.AugAssign)) and
                  any(isinstance(t, ast.Attribute) and norm(t.value) == me for t in (n.targets if isinstance(n, ast.Assign) else [n.target]))]
        bad = stores or [n for n in rets if norm(n.value) == me]
        cons = f"Bits.{name}: arithmetic augmented operator builds a new value"
        if bad:
            r.bad(m, f"Bits.{name}", cons, f"`x {name[3:-2]}= v` updates the object in place and returns it: every other reference to the same Bits object "
                  f"(b = a; [Bits8(0)] * 4; a saved snapshot of a pointer) changes too, although Bits arithmetic yields values; only @= and <<= "
                  f"are assignments", bad[0].lineno)
        else:
            r.ok(m, f"Bits.{name}", cons)
    value = {k for k in meths if (k.startswith('__') and k.endswith('__') and k not in inplace and
                                  k not in ('__init__', '__setitem__', '__hash__', '__bool__', '__int__', '__index__', '__repr__', '__str__', '__format__'))
             or k in ('clone', 'to_bits')}

    def aliases_of_params(f):
        params = {a.arg for a in f.args.args}
        al = set(params)
        changed = True
        while changed:
            changed = False
            for n in walk_no_nested(f):
                if isinstance(n, ast.Assign) and isinstance(n.value, ast.Name) and n.value.id in al:
                    for t in n.targets:
                        if isinstance(t, ast.Name) and t.id not in al:
                            al.add(t.id)
                            changed = True
        return al

    def returned_exprs(e):
        if isinstance(e, ast.IfExp):
            return returned_exprs(e.body) + returned_exprs(e.orelse)
        if isinstance(e, ast.BoolOp):
            return [x for v in e.values for x in returned_exprs(v)]
        return [e]
    for name in sorted(value):
        f = meths[name]
        if name in VALUE_METHODS_EXEMPT:
            r.ok(m, f"Bits.{name}", f"exempt: {VALUE_METHODS_EXEMPT[name]}")
            continue
        al = aliases_of_params(f)
        rets = [n for n in walk_no_nested(f) if isinstance(n, ast.Return) and n.value is not None]
        bad = [(n, x) for n in rets for x in returned_exprs(n.value) if isinstance(x, ast.Name) and x.id in al]
        cons = f"Bits.{name}: {len(rets)} return(s)"
        if bad:
            n, x = bad[0]
            r.bad(m, f"Bits.{name}", cons, f"returns the operand object `{x.id}` itself: the result aliases the operand, so a later in-place "
                  f"write to either one changes the other (a full-width slice / identity shortcut must still build a new Bits)", n.lineno)
        else:
            r.ok(m, f"Bits.{name}", cons)
    for name in sorted(inplace):
        f = meths[name]
        me = f.args.args[0].arg
        rets = [n for n in walk_no_nested(f) if isinstance(n, ast.Return)]
        ok = rets and all(n.value is not None and norm(n.value) == me for n in rets) and not _falls_through(f)
        (r.ok if ok else r.bad)(m, f"Bits.{name}", f"in-place operator returns {me}",
                                *([] if ok else [f"`x {name[3:-2]}= v` rebinds x to whatever {name} returns: it must return {me} on every path", f.lineno]))
    hm = repo.mod(HELPERS)
    for name in ('concat', 'zext', 'sext', 'trunc'):
        f = _fn(hm, name)
        al = aliases_of_params(f)
        rets = [n for n in walk_no_nested(f) if isinstance(n, ast.Return) and n.value is not None]
        bad = [(n, x) for n in rets for x in returned_exprs(n.value) if isinstance(x, ast.Name) and x.id in al]
        (r.bad if bad else r.ok)(hm, name, f"{name}: {len(rets)} return(s)",
                                 *([f"returns its argument `{bad[0][1].id}` itself (same-width shortcut): the result aliases the argument", bad[0][0].lineno] if bad else []))
    r.require_floor(30)
    return r


def _falls_through(f):
    return not always_exits(f.body)


def rule_rtlir_slice_step(repo):
    """sibling implementation of slicing: every branch of the RTLIR generator that builds a slice node from (lower, upper[, step])
    rejects a step, as Bits.__getitem__ does -- shared with C10 (R-C10-slicestep)"""
    from rules.c10 import rule_slice_step
    return rule_slice_step(repo)


def rule_alias(repo):
    """`x[0:n] = x`, `x @= x`, `x <<= x`: the assigned value may be the object itself.  Every read of the operand's stored value
    must therefore happen before the first store into self (a split clear-then-merge reads the already cleared value)."""
    r = RuleResult('R-C05-alias', "in every writer that takes another Bits, the operand's stored value is read before self is modified "
                                  "(the operand may be self: x[0:n] = x, x @= x)")
    m, cls, meths = _bits(repo)
    for name in ('__setitem__', '__imatmul__', '__ilshift__'):
        f = meths[name]
        me = f.args.args[0].arg
        params = [a.arg for a in f.args.args[1:]]
        stores = [st for tgt, val, st in _field_writes(f) if isinstance(tgt.value, ast.Name) and tgt.value.id == me]
        # also the first half of a merged read-modify-write pair
        stores += [n for n in walk_no_nested(f) if isinstance(n, ast.Assign) and any(isinstance(t, ast.Attribute) and norm(t.value) == me and t.attr in ('_uint', '_next') for t in n.targets)]
        bad = None
        for n in walk_no_nested(f):
            if isinstance(n, ast.Attribute) and isinstance(n.ctx, ast.Load) and isinstance(n.value, ast.Name) and n.value.id in params \
                    and n.attr in ('_uint', '_next'):
                st_n = stmt_of(n)
                for st in stores:
                    if st is st_n:
                        continue
                    if any(p is st for p in preceding_stmts(n)):
                        bad = (n, st)
            # calls that read the operand's value
            if isinstance(n, ast.Call) and isinstance(n.func, ast.Attribute) and isinstance(n.func.value, ast.Name) and n.func.value.id in params \
                    and n.func.attr in ('uint', 'int', 'to_bits', '__int__'):
                st_n = stmt_of(n)
                for st in stores:
                    if st is not st_n and any(p is st for p in preceding_stmts(n)):
                        bad = (n, st)
        cons = f"Bits.{name}: operand reads vs stores into {me}"
        if bad:
            r.bad(m, f"Bits.{name}", cons, f"`{norm(bad[0])}` is read after `{norm(bad[1])[:60]}`: when the assigned value is the object "
                  f"itself the read sees the already modified value (x[0:n] = x zeroes x)", bad[0].lineno)
        else:
            r.ok(m, f"Bits.{name}", cons)
    r.require_floor(3)
    return r


def rule_const_fit(repo):
    """`s.out[4:8] //= 0x1F`: a constant tied to a signal / slice is stored through the range-checked Bits constructor, so a value
    that does not fit the slice raises instead of being masked into it (the structural sibling of R-C05-fit)."""
    r = RuleResult('R-C05-const-fit', "an integer constant connected to a signal or slice is constructed with the range-checked "
                                      "constructor of the target type (no truncation flag, no masking): a constant too wide for the slice is rejected")
    L3 = 'pymtl3/dsl/ComponentLevel3.py'
    m = repo.mod(L3)
    f = m.get_func('ComponentLevel3._connect_signal_const')
    fq = 'ComponentLevel3._connect_signal_const'
    cparam = f.args.args[2].arg
    # the branch for python ints
    br = [n for n in f.body if isinstance(n, ast.If) and 'isinstance' in norm(n.test) and 'int' in norm(n.test) and cparam in norm(n.test)]
    if len(br) != 1:
        raise AnalysisError(f"{fq}: the branch for integer constants was not found")
    aliases = {cparam}
    bad = None
    uses = 0
    for n in ast.walk(ast.Module(body=br[0].body, type_ignores=[])):
        if isinstance(n, ast.Call) and any(isinstance(a, ast.Name) and a.id in aliases for a in n.args):
            if norm(n.func) in ('Const', 'isinstance', 'int', 'repr', 'str', 'type'):
                continue
            uses += 1
            kws = {k.arg: norm(k.value) for k in n.keywords}
            if kws.get('trunc_int', 'False') != 'False' or (len(n.args) >= 3 and norm(n.args[2]) not in ('False',)) and norm(n.func) == 'Bits':
                bad = (n, f"`{norm(n)}` truncates")
        if isinstance(n, ast.BinOp) and isinstance(n.op, (ast.BitAnd, ast.Mod)) and \
                any(isinstance(x, ast.Name) and x.id in aliases for x in (n.left, n.right)):
            bad = (n, f"`{norm(n)}` masks the constant")
    cons = "integer constant -> Type(value)"
    if bad:
        r.bad(m, fq, cons, f"{bad[1]}: a constant wider than the signal / slice it is tied to is silently reduced to the low bits "
              f"(`s.out[4:8] //= 0x1F` drives 0xF) instead of raising", bad[0].lineno)
    elif not uses:
        raise AnalysisError(f"{fq}: the construction of the constant's value was not found")
    else:
        r.ok(m, fq, cons)
    r.require_floor(1)
    return r


def rule_width_tables(repo):
    """slices, concat and the extension helpers build Bits of every width the constructor accepts: the mask / bound tables must
    cover exactly that range (a table one entry short breaks width 1023 only).  Shared with C04 (R-C04-tables, R-C04-operand-kind)."""
    from rules.c04 import rule_tables
    return rule_tables(repo)


def rule_operand_kinds(repo):
    from rules.c04 import rule_operand_kind
    return rule_operand_kind(repo)


def rule_slice_nodes(repo):
    """sibling implementation of slicing: the per-signal memo of slice objects (`_dsl.slices`) and the nodes the structural
    passes register for them must be keyed by the absolute bit range, so that a nested slice never aliases the node of a
    different range -- shared with C08 (R-C08-nodes)"""
    from rules.c08 import rule_nodes
    return rule_nodes(repo)


def rule_translated_slices(repo):
    """sibling implementation of slicing / sext / zext / trunc: the SystemVerilog text emitted for them ([upper-1:lower],
    [base +: size], msb replication, MSB-side zero padding, low-bit truncation) -- shared with C03 (R-tr-slice)"""
    from sa import tr_util
    return tr_util.rule_slice(repo, backend='sv')


def rule_translated_slices_yosys(repo):
    """the second back-end is a sibling implementation of the same selects: part- and bit-selects of the Yosys structural and
    behavioural emitters must address [stop-1:start] of the named element, with array indices and the select kept in their own
    slots -- shared with C12 (R-tr-slice, yosys)"""
    from sa import tr_util
    from rules.c12 import BACKEND
    return tr_util.rule_slice(repo, backend=BACKEND)


def rule_signed_reading(repo):
    """sext (both spellings in helpers.py) is built on Bits.int(): the signed reading must be uint - 2^n when the msb is set, for
    every width up to the largest one -- decided by C04's operator rule (R-C04-optable); only its `int` clause is C05's matter"""
    from rules.c04 import rule_optable
    res = rule_optable(repo)
    mine = lambda t: 'Bits.int' in t or t.endswith('.int') or ' int' in t
    res.findings = [f for f in res.findings if mine(f.func) or mine(f.construct)]
    res.instances = [i for i in res.instances if i['verdict'] != 'VIOLATED' or mine(i['construct']) or mine(i.get('function', ''))]
    return res


def rule_translated_reductions(repo):
    """sibling implementation of the reduce operators and of concat: the SystemVerilog text emitted for reduce_and / _or / _xor
    (a unary reduction of the WHOLE operand) and for concat -- decided by C03's operator rule (R-tr-optable); only its
    visit_Reduce / visit_Concat clauses are C05's matter, the rest of the operator table is dropped here"""
    from sa import tr_util
    res = tr_util.rule_optable(repo, backend='sv')
    mine = lambda fn: 'visit_Reduce' in fn or 'visit_Concat' in fn
    res.findings = [f for f in res.findings if mine(f.func) or mine(f.construct)]
    res.instances = [i for i in res.instances if i['verdict'] != 'VIOLATED' or mine(i['construct'])]
    return res


# ---------------------------------------------------------------------------------------------------------------
# R-C05-type-alias
_TC_FILES = [f"pymtl3/passes/rtlir/behavioral/BehavioralRTLIRTypeCheckL{k}Pass.py" for k in (1, 2, 3, 4, 5)]


def rule_type_objects(repo):
    """sibling implementation of zext / sext / trunc / reduce / index: the translators decide padding, size casts and selects
    from the *operand's* type next to the result's type.  The type checker computes the result type of these nodes by re-sizing
    a type object; if that object is (or may be) the operand's own type object, the operand silently takes the result width
    and `zext(s.a[4:8], 8)` is emitted as the bare 4-bit operand.  So: an attribute store into an RTLIR type object is only
    allowed on an object that is fresh on every path (copy.copy / copy.deepcopy / a constructor), also through helper methods."""
    r = RuleResult('R-C05-type-alias', "the RTLIR type checker re-sizes only fresh copies of a type object: a store into an attribute "
                                       "of a type (`T.dtype = ...`) never reaches the type object of a child node, a table entry or "
                                       "an argument, on any path, also through helper methods")

    FRESH, SHARED = 'fresh', 'shared'

    def fresh_call(c):
        fn = norm(c.func)
        return fn in ('copy.copy', 'copy.deepcopy', 'copy', 'deepcopy') or fn.split('.')[0] in ('rt', 'rdt')

    RTYPE = ['pymtl3/passes/rtlir/rtype/RTLIRType.py', 'pymtl3/passes/rtlir/rtype/RTLIRDataType.py']
    memo = {}

    def type_method(name, files=None):
        """a method of the RTLIR type classes: FRESH if every definition returns a new object on every path (copy / constructor),
        SHARED if some definition hands out an object it keeps, None if the type classes define no such method"""
        files = tuple(files or RTYPE)
        if (name, files) in memo:
            return memo[name, files]
        verdict = None
        for rel in files:
            if not repo.exists(rel):
                continue
            mm = repo.mod(rel)
            for c in mm.classes.values():
                for g in c.body:
                    if isinstance(g, ast.FunctionDef) and g.name == name:
                        local = {}
                        ok = True
                        for n in walk_no_nested(g):
                            if isinstance(n, ast.Assign) and len(n.targets) == 1 and isinstance(n.targets[0], ast.Name):
                                local.setdefault(n.targets[0].id, []).append(n.value)
                        rets_ = [n for n in walk_no_nested(g) if isinstance(n, ast.Return)]
                        for rt_ in rets_:
                            v = rt_.value
                            if isinstance(v, ast.Name) and v.id in local:
                                vs = local[v.id]
                            else:
                                vs = [v]
                            for x in vs:
                                if not (isinstance(x, ast.Call) and (fresh_call(x) or (isinstance(x.func, ast.Name) and x.func.id in mm.classes))):
                                    ok = False
                        if not rets_:
                            ok = False
                        verdict = FRESH if (ok and verdict in (None, FRESH)) else SHARED
        memo[name, files] = verdict
        return verdict

    def analyse(m, cls, f, bind, depth, site, out):
        """bind: parameter name -> origin set; returns the origins of the returned value"""
        me = f.args.args[0].arg if f.args.args else None
        node_param = f.args.args[1].arg if len(f.args.args) > 1 else None
        env = dict(bind)
        rets = set()

        def orig(e):
            if isinstance(e, ast.Name):
                return set(env.get(e.id, ()))
            if isinstance(e, ast.IfExp):
                return orig(e.body) | orig(e.orelse)
            if isinstance(e, ast.BoolOp):
                return set().union(*[orig(v) for v in e.values])
            if isinstance(e, ast.NamedExpr):
                return orig(e.value)
            if isinstance(e, ast.Attribute):
                if e.attr == 'Type':
                    key = norm(e)
                    if key in env:
                        return set(env[key])
                    return {SHARED + ':' + key}
                return set()
            if isinstance(e, ast.Subscript):
                return {SHARED + ':' + norm(e)} if orig_is_table(e) else set()
            if isinstance(e, ast.Call):
                if fresh_call(e):
                    return {FRESH}
                fn = e.func
                if isinstance(fn, ast.Attribute) and isinstance(fn.value, ast.Name) and fn.value.id == me and depth < 3:
                    g = repo.lookup_method(m, cls, fn.attr)
                    if g is not None:
                        gm, gcls, gf = g
                        params = [a.arg for a in gf.args.args[1:]]
                        b = {pn: orig(a) for pn, a in zip(params, e.args)}
                        for kw in e.keywords:
                            if kw.arg in params:
                                b[kw.arg] = orig(kw.value)
                        return analyse(gm, gcls, gf, b, depth + 1, site or (m, f, e), out)
                if isinstance(fn, ast.Attribute):
                    # receiver `<node>.Type` is an instance type (RTLIRType.py); anything else may also be a data type
                    k = type_method(fn.attr, RTYPE[:1] if isinstance(fn.value, ast.Attribute) and fn.value.attr == 'Type' else None)
                    if k == FRESH:
                        return {FRESH}
                    if k == SHARED or fn.attr in ('get_rtlir', 'get', 'pop', 'setdefault'):
                        return {SHARED + ':' + norm(e)}
                return set()
            return set()

        def orig_is_table(e):
            # s.tmpvars[...] and other tables of the visitor hold types shared by every reference
            b = e.value
            return isinstance(b, ast.Attribute) and isinstance(b.value, ast.Name) and b.value.id == me

        def store(t, val_orig):
            if isinstance(t, ast.Name):
                env[t.id] = val_orig
            elif isinstance(t, ast.Attribute) and t.attr == 'Type':
                env[norm(t)] = val_orig
            elif isinstance(t, (ast.Tuple, ast.List)):
                for x in t.elts:
                    store(x, set())

        def mutation(t, st):
            """t: Attribute store target `A.attr`; A a type object?"""
            if t.attr == 'Type':
                return
            o = orig(t.value)
            if not o:
                return
            cons = f"{norm(t)} = ...  [{norm(t.value)} <- {', '.join(sorted(o))}]"
            shared = sorted(x for x in o if x != FRESH)
            out.append((m, f, st, cons, shared, site))

        def run(body):
            for st in body:
                if isinstance(st, ast.Assign):
                    v = orig(st.value)
                    for t in st.targets:
                        if isinstance(t, ast.Attribute) and t.attr != 'Type':
                            mutation(t, st)
                        else:
                            store(t, v)
                elif isinstance(st, ast.AnnAssign) and st.value is not None:
                    store(st.target, orig(st.value))
                elif isinstance(st, ast.AugAssign):
                    if isinstance(st.target, ast.Attribute):
                        mutation(st.target, st)
                elif isinstance(st, ast.Expr) and isinstance(st.value, ast.Call) and norm(st.value.func) == 'setattr' and len(st.value.args) == 3:
                    fake = ast.Attribute(value=st.value.args[0], attr='<setattr>', ctx=ast.Store())
                    mutation(fake, st)
                elif isinstance(st, ast.Expr):
                    orig(st.value)       # helper calls made for their effect
                elif isinstance(st, ast.Return):
                    if st.value is not None:
                        rets.update(orig(st.value))
                elif isinstance(st, ast.If):
                    before = dict(env)
                    run(st.body)
                    a = dict(env)
                    env.clear(); env.update(before)
                    run(st.orelse)
                    for k in set(a) | set(env):
                        env[k] = set(a.get(k, before.get(k, ()))) | set(env.get(k, before.get(k, ())))
                elif isinstance(st, (ast.For, ast.While)):
                    for _ in range(2):
                        before = dict(env)
                        run(st.body)
                        for k in set(before) | set(env):
                            env[k] = set(before.get(k, ())) | set(env.get(k, ()))
                    run(st.orelse)
                elif isinstance(st, ast.With):
                    run(st.body)
                elif isinstance(st, ast.Try):
                    run(st.body)
                    for h in st.handlers:
                        run(h.body)
                    run(st.orelse); run(st.finalbody)
        run(f.body)
        return rets

    seen = set()
    # helper methods are judged at their call sites (with the origins of the actual arguments); a method nobody calls through
    # `self` is an entry point: its arguments may be anybody's type objects
    helpers = set()
    for rel in _TC_FILES:
        if repo.exists(rel):
            for n in ast.walk(repo.mod(rel).tree):
                if isinstance(n, ast.Call) and isinstance(n.func, ast.Attribute) and isinstance(n.func.value, ast.Name) \
                        and n.func.value.id in ('s', 'self') and not n.func.attr.startswith('visit'):
                    helpers.add(n.func.attr)
    if not any(repo.exists(rel) for rel in _TC_FILES):
        raise AnalysisError("anchor vanished: no BehavioralRTLIRTypeCheckL*Pass.py")
    for rel in _TC_FILES:
        if not repo.exists(rel):
            continue
        m = repo.mod(rel)
        for cname, cls in m.classes.items():
            for f in cls.body:
                if not isinstance(f, ast.FunctionDef) or f.name in helpers:
                    continue
                out = []
                # a method analysed on its own: its parameters may be anybody's type objects
                bind = {a.arg: {SHARED + ':argument ' + a.arg} for a in f.args.args[2:]}
                analyse(m, cls, f, bind, 0, None, out)
                for (mm, ff, st, cons, shared, site) in out:
                    fq = f"{cname}.{f.name}" if ff is f else f"{cname}.{f.name} -> {ff.name}"
                    key = (mm.rel, ff.name, st.lineno, fq)
                    if key in seen:
                        continue
                    seen.add(key)
                    if shared:
                        via = f" (called from {norm(site[2])} in {site[1].name})" if site and ff is not f else ""
                        r.bad(mm, fq, cons, f"the store re-sizes a type object that is not a fresh copy on every path: it is also "
                              f"{shared[0][len(SHARED) + 1:] or 'a shared object'}{via}; every other reference to that object (the operand of "
                              f"zext / trunc / a reduction, a temporary's table entry) silently takes the new width, so the translators "
                              f"see operand width == target width and emit the bare operand", st.lineno)
                    else:
                        r.ok(mm, fq, cons)
    r.require_floor(5)
    return r


RULES = [rule_type_objects, rule_translated_slices_yosys, rule_signed_reading, rule_translated_reductions, rule_bounds, rule_nonefalsy, rule_frame, rule_fit, rule_helpers, rule_intlog, rule_signal_slices, rule_rtlir_slices,
         rule_slice_nodes, rule_translated_slices, rule_value_semantics, rule_rtlir_slice_step, rule_alias, rule_const_fit, rule_width_tables, rule_operand_kinds]


def _m(name, old, new, rule=None, file=BITS, count=1):
    return dict(name=name, file=file, old=old, new=new, rule=rule, count=count)


_DEF_NEW = """        start = 0 if idx.start is None else int(idx.start)
        stop  = self._nbits if idx.stop is None else int(idx.stop)
"""
MUTANTS = [
    _m('reduce-resizes-operand-type', "    node.Type = copy.copy( child_type )\n    node.Type.dtype = rdt.Vector( 1 )", "    node.Type = child_type\n    node.Type.dtype = rdt.Vector( 1 )", 'R-C05-type-alias', file='pymtl3/passes/rtlir/behavioral/BehavioralRTLIRTypeCheckL1Pass.py'),
    _m('sizecast-resizes-before-copy', "    node.Type = copy.copy( Type )\n    node.Type.dtype = rdt.Vector( nbits )", "    Type.dtype = rdt.Vector( nbits )\n    node.Type = copy.copy( Type )", 'R-C05-type-alias', file='pymtl3/passes/rtlir/behavioral/BehavioralRTLIRTypeCheckL1Pass.py'),
    _m('reduce-copies-net-wires-only', "    node.Type = copy.copy( child_type )\n    node.Type.dtype = rdt.Vector( 1 )", "    node.Type = copy.copy( child_type ) if not isinstance( child_type, rt.NetWire ) else child_type\n    node.Type.dtype = rdt.Vector( 1 )", 'R-C05-type-alias', file='pymtl3/passes/rtlir/behavioral/BehavioralRTLIRTypeCheckL1Pass.py'),
    _m('iadd-in-place', "  def __invert__( self ):", "  def __iadd__( self, other ):\n    self._uint = self.__add__( other )._uint\n    return self\n\n  def __invert__( self ):", 'R-C05-value'),
    _m('const-connect-truncates', "      o2 = Const( Type, Type(o2), s )", "      value = Type( o2, trunc_int=True ) if issubclass( Type, Bits ) else Type(o2)\n      o2 = Const( Type, value, s )", 'R-C05-const-fit', file='pymtl3/dsl/ComponentLevel3.py'),
    _m('const-connect-masked', "      o2 = Const( Type, Type(o2), s )", "      o2 = Const( Type, Type(o2 & ((1 << Type.nbits) - 1)), s )", 'R-C05-const-fit', file='pymtl3/dsl/ComponentLevel3.py'),
    _m('setitem-clear-then-merge', "        self._uint = (sv & (~((1 << stop) - (1 << start)))) | \\\n                     ((v._uint & _upper[slice_nbits]) << start)", "        self._uint  = sv & ~((1 << stop) - (1 << start))\n        self._uint |= (v._uint & _upper[slice_nbits]) << start", 'R-C05-alias'),
    _m('getitem-full-width-returns-self', "      # Bypass check\n      nbits = stop - start\n", "      # Bypass check\n      nbits = stop - start\n      if nbits == self._nbits:\n        return self\n", 'R-C05-value'),
    _m('zext-same-width-returns-arg', "    assert new_width >= value.nbits\n    return Bits( new_width, value.uint() )", "    assert new_width >= value.nbits\n    if new_width == value.nbits:\n      return value\n    return Bits( new_width, value.uint() )", 'R-C05-value', file=HELPERS),
    _m('imatmul-returns-none-on-int-path', "      self._uint = v & up\n\n    return self\n\n  def to_bits", "      self._uint = v & up\n      return\n\n    return self\n\n  def to_bits", 'R-C05-value'),
    _m('slice-int-check-wrong-table-key', "        lo = _lower[slice_nbits]\n        up = _upper[slice_nbits]\n\n        if v < lo or v > up:\n          raise ValueError( f\"Cannot fit {v} into a Bits{slice_nbits} slice", "        lo = _lower[stop]\n        up = _upper[stop]\n\n        if v < lo or v > up:\n          raise ValueError( f\"Cannot fit {v} into a Bits{slice_nbits} slice", 'R-C05-fit'),
    _m('D1-reintroduced', _DEF_NEW, "        start, stop = int(idx.start or 0), int(idx.stop or self._nbits)\n", 'R-C05-nonefalsy', count='first'),
    _m('stop-default-truthy', "        stop  = self._nbits if idx.stop is None else int(idx.stop)\n",
       "        stop  = int(idx.stop) if idx.stop else self._nbits\n", 'R-C05-nonefalsy', count='first'),
    _m('bounds-stop-strict', "        assert 0 <= start < stop <= self._nbits", "        assert 0 <= start < stop < self._nbits", 'R-C05-bounds', count='first'),
    _m('bounds-empty-slice', "        assert 0 <= start < stop <= self._nbits", "        assert 0 <= start <= stop <= self._nbits", 'R-C05-bounds', count='first'),
    _m('bounds-negative-start', "        assert 0 <= start < stop <= self._nbits", "        assert start < stop <= self._nbits", 'R-C05-bounds', count=2),
    _m('index-upper-off-by-one', "    if i >= self._nbits or i < 0:\n      raise IndexError( f\"Invalid access: [{i}] in a Bits{self._nbits} instance\" )\n\n    # Bypass check",
       "    if i > self._nbits or i < 0:\n      raise IndexError( f\"Invalid access: [{i}] in a Bits{self._nbits} instance\" )\n\n    # Bypass check", 'R-C05-bounds'),
    _m('index-negative-wraps', "    if i >= self._nbits or i < 0:\n      raise IndexError( f\"Invalid access: [{i}] in a Bits{self._nbits} instance\" )\n\n    if isinstance( v, Bits ):",
       "    if i >= self._nbits:\n      raise IndexError( f\"Invalid access: [{i}] in a Bits{self._nbits} instance\" )\n\n    if isinstance( v, Bits ):", 'R-C05-bounds'),
    _m('step-ignored', "      if idx.step:\n        raise IndexError( \"Index cannot contain step\" )\n      try:\n        start = 0 if idx.start is None else int(idx.start)\n        stop  = self._nbits if idx.stop is None else int(idx.stop)\n        assert 0 <= start < stop <= self._nbits\n      except:\n        raise IndexError( f\"Invalid access: [{idx.start}:{idx.stop}] in a Bits{self._nbits} instance\" )\n\n      # Bypass check",
       "      try:\n        start = 0 if idx.start is None else int(idx.start)\n        stop  = self._nbits if idx.stop is None else int(idx.stop)\n        assert 0 <= start < stop <= self._nbits\n      except:\n        raise IndexError( f\"Invalid access: [{idx.start}:{idx.stop}] in a Bits{self._nbits} instance\" )\n\n      # Bypass check", 'R-C05-bounds'),
    _m('read-shift-by-stop', "(self._uint >> start) & _upper[nbits] )", "(self._uint >> stop) & _upper[nbits] )", 'R-C05-frame'),
    _m('read-width-wrong', "return _new_valid_bits( stop-start, (self._uint >> start)", "return _new_valid_bits( stop, (self._uint >> start)", 'R-C05'),
    _m('read-mask-whole', "(self._uint >> start) & _upper[nbits] )", "(self._uint >> start) & _upper[self._nbits] )", 'R-C05-frame'),
    _m('write-clear-mask-off', "        self._uint = (sv & (~((1 << stop) - (1 << start)))) | \\\n                     ((v._uint & _upper[slice_nbits]) << start)",
       "        self._uint = (sv & (~((1 << stop) - 1))) | \\\n                     ((v._uint & _upper[slice_nbits]) << start)", 'R-C05-frame'),
    _m('write-no-clear', "        self._uint = (sv & (~((1 << stop) - (1 << start)))) | \\\n                     ((v & _upper[slice_nbits]) << start)",
       "        self._uint = sv | \\\n                     ((v & _upper[slice_nbits]) << start)", 'R-C05-frame'),
    _m('write-shift-missing', "((v & _upper[slice_nbits]) << start)", "(v & _upper[slice_nbits])", 'R-C05-frame'),
    _m('bit-write-wrong-pos', "      self._uint = (sv & ~(1 << i)) | ((v._uint & 1) << i)", "      self._uint = (sv & ~(1 << i)) | ((v._uint & 1) << (i+1))", 'R-C05'),
    _m('slice-bits-width-unchecked', "        if v.nbits != slice_nbits:\n          if v.nbits < slice_nbits:", "        if v.nbits > slice_nbits:\n          if v.nbits < slice_nbits:", 'R-C05-fit'),
    _m('slice-int-upper', "        if v < lo or v > up:\n          raise ValueError( f\"Cannot fit {v} into a Bits{slice_nbits} slice", "        if v < lo:\n          raise ValueError( f\"Cannot fit {v} into a Bits{slice_nbits} slice", 'R-C05-fit'),
    _m('bit-bits-width', "      if v.nbits > 1:\n        raise ValueError( f\"Cannot fit a Bits{v.nbits} object into the 1-bit slice\" )", "      if v.nbits > 2:\n        raise ValueError( f\"Cannot fit a Bits{v.nbits} object into the 1-bit slice\" )", 'R-C05-fit'),
    _m('bit-int-range', "      if abs(v) > 1:", "      if abs(v) > 2:", 'R-C05-fit'),
    _m('concat-lsb-first', "      value = (value << xnb) | x.uint()", "      value = value | (x.uint() << nbits)", 'R-C05-helpers', file=HELPERS),
    _m('concat-reversed', "    for x in args:", "    for x in reversed(args):", 'R-C05-helpers', file=HELPERS),
    _m('sext-uses-uint', "    return Bits( new_width, value.int() )", "    return Bits( new_width, value.uint() )", 'R-C05-helpers', file=HELPERS),
    _m('sext-type-uses-uint', "    return new_width( value.int() )", "    return new_width( value.uint() )", 'R-C05-helpers', file=HELPERS),
    _m('zext-uses-int', "    assert new_width >= value.nbits\n    return Bits( new_width, value.uint() )", "    assert new_width >= value.nbits\n    return Bits( new_width, value.int() )", 'R-C05-helpers', file=HELPERS),
    _m('trunc-no-trunc', "    return Bits( new_width, value.uint(), trunc_int=True )", "    return Bits( new_width, value.uint() )", 'R-C05-helpers', file=HELPERS),
    _m('trunc-direction', "    assert new_width <= value.nbits", "    assert new_width >= value.nbits", 'R-C05-helpers', file=HELPERS),
    _m('reduce-and-off', "return b1( int(value) == (1 << value.nbits) - 1 )", "return b1( int(value) == (1 << value.nbits - 1) )", 'R-C05-helpers', file=HELPERS),
    _m('reduce-xor-parity', "    return b1( pop_count & 1 )", "    return b1( pop_count > 0 )", 'R-C05-helpers', file=HELPERS),
    _m('clog2-float', "  return ( int(N) - 1 ).bit_length()", "  return int( math.ceil( math.log( N, 2 ) ) )", 'R-intlog', file=HELPERS),
    _m('clog2-off-by-one', "  return ( int(N) - 1 ).bit_length()", "  return int(N).bit_length()", 'R-intlog', file=HELPERS),
]

EQUIV = [
    _m('reduce-type-built-in-a-local', "    node.Type = copy.copy( child_type )\n    node.Type.dtype = rdt.Vector( 1 )", "    t = copy.copy( child_type )\n    t.dtype = rdt.Vector( 1 )\n    node.Type = t", file='pymtl3/passes/rtlir/behavioral/BehavioralRTLIRTypeCheckL1Pass.py'),
    _m('sizecast-copy-on-both-arms', "    node.Type = copy.copy( Type )\n    node.Type.dtype = rdt.Vector( nbits )", "    node.Type = copy.deepcopy( Type ) if isinstance( Type, rt.Array ) else copy.copy( Type )\n    node.Type.dtype = rdt.Vector( nbits )", file='pymtl3/passes/rtlir/behavioral/BehavioralRTLIRTypeCheckL1Pass.py'),
    _m('setitem-clear-mask-local', "        self._uint = (sv & (~((1 << stop) - (1 << start)))) | \\\n                     ((v._uint & _upper[slice_nbits]) << start)", "        clear_mask = ~((1 << stop) - (1 << start))\n        self._uint = (sv & clear_mask) | \\\n                     ((v._uint & _upper[slice_nbits]) << start)"),
    _m('setitem-merge-value-hoisted', "        self._uint = (sv & (~((1 << stop) - (1 << start)))) | \\\n                     ((v._uint & _upper[slice_nbits]) << start)", "        ins = (v._uint & _upper[slice_nbits]) << start\n        self._uint  = sv & ~((1 << stop) - (1 << start))\n        self._uint |= ins", ),
    _m('zext-guard-clause', "  if isinstance( new_width, int ):\n    assert new_width >= value.nbits\n    return Bits( new_width, value.uint() )\n  else:\n    assert issubclass( new_width, Bits )\n    return new_width( value.uint() )\n",
       "  if not isinstance( new_width, int ):\n    assert issubclass( new_width, Bits )\n    return new_width( value.uint() )\n\n  assert new_width >= value.nbits\n  return Bits( new_width, value.uint() )\n", file=HELPERS),
    _m('clog2-helper-local', "  return ( int(N) - 1 ).bit_length()", "  max_index = int(N) - 1\n  return max_index.bit_length()", file=HELPERS),
    _m('trunc-branches-flipped', "def trunc( value, new_width ):\n  if isinstance( new_width, int ):\n    assert new_width <= value.nbits\n    return Bits( new_width, value.uint(), trunc_int=True )\n  else:\n    assert issubclass( new_width, Bits )\n    return new_width( value.uint(), trunc_int=True )", "def trunc( value, new_width ):\n  if not isinstance( new_width, int ):\n    assert issubclass( new_width, Bits )\n    return new_width( value.uint(), trunc_int=True )\n  else:\n    assert new_width <= value.nbits\n    return Bits( new_width, value.uint(), trunc_int=True )", file=HELPERS),
    _m('bounds-as-conjunction', "        assert 0 <= start < stop <= self._nbits", "        assert 0 <= start and start < stop and stop <= self._nbits", count=2),
    _m('index-check-as-not-range', "    if i >= self._nbits or i < 0:", "    if not (0 <= i < self._nbits):", count=2),
    _m('default-swapped-ifexp', "        stop  = self._nbits if idx.stop is None else int(idx.stop)\n", "        stop  = int(idx.stop) if idx.stop is not None else self._nbits\n", count=2),
    _m('mask-alias', "      nbits = stop - start\n      return _new_valid_bits( stop-start, (self._uint >> start) & _upper[nbits] )",
       "      nbits = stop - start\n      msk = _upper[nbits]\n      return _new_valid_bits( nbits, (self._uint >> start) & msk )"),
    _m('clear-mask-shifted-form', "        self._uint = (sv & (~((1 << stop) - (1 << start)))) | \\\n                     ((v._uint & _upper[slice_nbits]) << start)",
       "        self._uint = (sv & ~(_upper[slice_nbits] << start)) | \\\n                     ((v._uint & _upper[slice_nbits]) << start)"),
    _m('concat-width-direct', "      xnb = x.nbits\n      nbits += xnb\n      value = (value << xnb) | x.uint()", "      nbits += x.nbits\n      value = (value << x.nbits) | x.uint()", file=HELPERS),
]

LEVEL_TEXT = ("Static analysis of the slice/index access paths and helper functions: guard regions are compared semantically "
              "with 0<=start<stop<=nbits over all order types, defaulting of bounds is evaluated abstractly (None vs explicit 0), "
              "read/write frames are matched structurally with the mask proved to cover exactly bits start..stop-1, helpers are "
              "compared with their bit-level definitions, float logarithms are forbidden for bit counts. Decides which bits are "
              "addressed and which inputs raise, for every width; unit tests sample a few widths.")
LEVEL_NOTE = ("Trusted: Python int/slice semantics, the C04 range invariant. Shapes outside the recognised equivalent forms are "
              "reported (mask/shift/guard missing) or end in ANALYSIS-ERROR, never a pass.")
TECHNIQUE = "ast structural dominance + order-type evaluation of guard regions, abstract evaluation of bound defaulting, frame-shape matching with mask/range domain"
