"""C02 -- Within a cycle every reader runs after its writer, in every scheduler.  (DESIGN.md section 4, C02)"""
import ast
import re

from sa.astutil import (reaching_value, inline_locals, guard_atoms, norm, guards_of, walk_no_nested, always_exits, parent, enclosing, stmt_of,
                        preceding_stmts, body_walk, qualname)
from sa.errors import AnalysisError
from sa.minieval import Evaluator, Obj
from sa.report import RuleResult

PID = 'C02'
ASTH = 'pymtl3/dsl/AstHelper.py'
GENDAG = 'pymtl3/passes/sim/GenDAGPass.py'
CONN = 'pymtl3/dsl/Connectable.py'
L2 = 'pymtl3/dsl/ComponentLevel2.py'
SIMPLE = 'pymtl3/passes/sim/SimpleSchedulePass.py'
DYN = 'pymtl3/passes/sim/DynamicSchedulePass.py'
HEU = 'pymtl3/passes/mamba/HeuristicTopoPass.py'
MAMBA = 'pymtl3/passes/mamba/Mamba2020Pass.py'
GREEN = 'pymtl3/passes/sim/WrapGreenletPass.py'
OPENLOOP = 'pymtl3/passes/autotick/OpenLoopCLPass.py'

EXPLANATION = (
    "Static analysis of the chain that turns update blocks into an ordered schedule. R-C02-visitor: the read/write "
    "detector visits every expression-carrying child of every node kind it overrides (oracle: ast._fields) and every "
    "index sub-expression; R-C02-funcfold: reads/writes of helper functions are folded into every calling block "
    "through the whole call tree; R-overlap: the slice-overlap predicate equals max(starts)<min(stops) on all order "
    "types of the endpoints; R-C02-pairing: GenDAGPass pairs every written object with readers of the same object, of "
    "its ancestors and of overlapping sibling slices in both directions, orients every edge writer-first, exempts only "
    "update_ff writers / same block / explicitly inverted pairs; R-C02-netblk: net blocks read the writer and write all "
    "other members; R-kahn: each scheduler is Kahn's algorithm over exactly these edges (in-degree counted once per "
    "stored edge, vertex emitted only when ready, every successor relaxed, completeness enforced); R-C02-greenlet: "
    "wrapping remaps both ends of every constraint; R-C02-novar-cycle: SCCs without variables are rejected. "
    "Decides edge generation and schedule construction for every design; trusts Kahn/Kosaraju.")
ASSUMPTIONS = [
    "Kahn's algorithm yields a linear extension of a DAG; Kosaraju's algorithm yields SCCs and an acyclic condensation",
    "user update blocks access signals only through attribute/subscript expressions rooted at `s` (no getattr/eval)",
    "method-constraint propagation (_process_methods) is checked for edge orientation only",
]

NON_NODE_FIELDS = {'ctx', 'op', 'ops', 'attr', 'id', 'arg', 'n', 's', 'kind', 'type_comment', 'lineno', 'level',
                   'names', 'is_async', 'conversion', 'simple', 'type_ignores', 'value_kind'}


# ---------------------------------------------------------------------------
def _iterated(it):
    """the sequences a for loop runs over, in order: `a`, `[*a, *b]`, `a + b`, `chain(a, b)`"""
    if isinstance(it, (ast.List, ast.Tuple)) and it.elts and all(isinstance(e, ast.Starred) for e in it.elts):
        return [x for e in it.elts for x in _iterated(e.value)]
    if isinstance(it, ast.BinOp) and isinstance(it.op, ast.Add):
        return _iterated(it.left) + _iterated(it.right)
    if isinstance(it, ast.Call) and norm(it.func) in ('chain', 'itertools.chain') and not it.keywords:
        return [x for a in it.args for x in _iterated(a)]
    if isinstance(it, ast.Call) and norm(it.func) == 'list' and len(it.args) == 1:
        return _iterated(it.args[0])
    return [norm(it)]


def rule_visitor(repo):
    r = RuleResult('R-C02-visitor', "reads and writes are detected wherever they occur in an update block")
    m = repo.mod(ASTH)
    meths = m.methods('DetectReadsWritesCalls')
    overridden = {k: v for k, v in meths.items() if k.startswith('visit_')}
    if len(overridden) < 5:
        raise AnalysisError("anchor vanished: DetectReadsWritesCalls visitors")
    for name, f in sorted(overridden.items()):
        kind = name[len('visit_'):]
        cls = getattr(ast, kind, None)
        if cls is None:
            raise AnalysisError(f"unknown ast node kind {kind}")
        node = f.args.args[1].arg
        fields = [x for x in cls._fields if x not in NON_NODE_FIELDS]
        full_self = any(isinstance(c, ast.Call) and norm(c.func) == 'self._get_full_name' and
                        [norm(a) for a in c.args] == [node] for c in ast.walk(f))
        for fld in fields:
            tgt = f"{node}.{fld}"
            covered = False
            # (the resolved path: what sits inside an early `if not obj_name: ...; return` does not count for it)
            early_ids = {id(x) for st in f.body if isinstance(st, ast.If) and not st.orelse and st.body and isinstance(st.body[-1], ast.Return)
                         and 'obj_name' in norm(st.test) for b in st.body for x in ast.walk(b)}
            for c in ast.walk(f):
                if id(c) in early_ids:
                    continue
                if isinstance(c, ast.Call) and norm(c.func) in ('self.visit', 'self._get_full_name', 'self.generic_visit') \
                        and c.args and norm(c.args[0]) in (tgt, node) and not (norm(c.args[0]) == node and norm(c.func) == 'self._get_full_name'):
                    covered = True
                if isinstance(c, ast.For) and tgt in _iterated(c.iter):
                    lv = norm(c.target)
                    if any(isinstance(x, ast.Call) and norm(x.func) == 'self.visit' and x.args and
                           norm(x.args[0]) in (lv, f"{lv}.value") for x in ast.walk(c)) and \
                            not any(isinstance(x, (ast.Break, ast.Continue, ast.If)) for x in ast.walk(c)):
                        covered = True
            if not covered and full_self and fld == 'value' and kind in ('Attribute', 'Subscript'):
                covered = True      # the chain below the node is consumed by _get_full_name(node)
            # the visit also happens when the name does not resolve (`f(s.a)[s.i:s.i+4]`, `g(s.a).m(s.b)`): it is not
            # behind the early `if not obj_name: return`
            if covered and not (fld == 'value' and kind in ('Attribute', 'Subscript')) and tgt != f"{node}.func":
                early = [i for i, st in enumerate(f.body) if isinstance(st, ast.If) and not st.orelse and st.body and
                         isinstance(st.body[-1], ast.Return) and 'obj_name' in norm(st.test)]
                if early:
                    i0 = early[0]
                    reach = list(f.body[:i0]) + list(f.body[i0].body)
                    on_unresolved = False
                    for st in reach:
                        for c in ast.walk(st):
                            if isinstance(c, ast.Call) and norm(c.func) in ('self.visit', 'self.generic_visit') and c.args and norm(c.args[0]) in (tgt, node):
                                on_unresolved = True
                            if isinstance(c, ast.For) and tgt in _iterated(c.iter):
                                on_unresolved = True
                    if not on_unresolved:
                        r.bad(m, f"DetectReadsWritesCalls.{name}", f"{name}: child `{fld}` when the name does not resolve",
                              f"`{tgt}` is visited only after `if {norm(f.body[i0].test)}: return`: when the base of the expression is a call result "
                              f"(e.g. concat(s.a, s.b)[s.i:s.i+4], f(s.a).m(s.b)) the signals read under ast.{kind}.{fld} are missing "
                              f"from the block's read set and the block is not ordered after their writers", f.body[i0].lineno)
                        continue
            # a visit that sits behind an early `return` still counts only if the return is the unresolvable-name case
            cons = f"{name}: child `{fld}`"
            if covered:
                r.ok(m, f"DetectReadsWritesCalls.{name}", cons)
            else:
                r.bad(m, f"DetectReadsWritesCalls.{name}", cons,
                      f"expressions under ast.{kind}.{fld} are never visited: a signal read/written only there "
                      f"(e.g. in a keyword argument) yields no scheduling constraint", f.lineno)
    # index sub-expressions inside _get_full_name (both version-specific copies)
    base = m.methods('DetectVarNames')
    copies = [v for k, v in base.items() if k.startswith('_get_full_name')]
    if len(copies) < 1:
        raise AnalysisError("anchor vanished: DetectVarNames._get_full_name*")
    for f in copies:
        # the loop over index subscripts: `while isinstance(node, ast.Subscript) ...: v = node.slice[.value] ...`
        found = False
        for w in ast.walk(f):
            if not isinstance(w, ast.While):
                continue
            asg = [s for s in w.body if isinstance(s, ast.Assign) and norm(s.targets[0]) == 'v' and
                   norm(s.value) in ('node.slice', 'node.slice.value')]
            if not asg:
                continue
            found = True
            chain = [s for s in w.body if isinstance(s, ast.If) and 'isinstance(v' in norm(s.test)]
            if len(chain) != 1:
                raise AnalysisError(f"{f.name}: index case split not found")
            node = chain[0]
            handled = []
            has_else_visit = False
            while True:
                handled.append((norm(node.test), node.body))
                if len(node.orelse) == 1 and isinstance(node.orelse[0], ast.If):
                    node = node.orelse[0]
                    continue
                if node.orelse:
                    has_else_visit = any(isinstance(c, ast.Call) and norm(c.func) == 'self.visit' and norm(c.args[0]) == 'v'
                                         for s in node.orelse for c in ast.walk(s))
                break
            cons = f"{f.name}: index expression kinds {[t for t, _ in handled]} + else"
            if has_else_visit:
                r.ok(m, f"DetectVarNames.{f.name}", cons)
            else:
                r.bad(m, f"DetectVarNames.{f.name}", cons,
                      "an index expression of a kind not listed (e.g. s.x[s.i + 1].y) is not visited: the signals it reads "
                      "are missing from the block's read set", chain[0].lineno)
            # the Call case must visit args and keywords
            for t, body in handled:
                if 'ast.Call' in t:
                    vis_args = any(isinstance(c, ast.For) and norm(c.iter) == 'v.args' for s in body for c in ast.walk(s))
                    vis_kw = any(isinstance(c, ast.For) and norm(c.iter) == 'v.keywords' for s in body for c in ast.walk(s)) or \
                        any(isinstance(c, ast.Call) and norm(c.func) == 'self.visit' and norm(c.args[0]) == 'v' for s in body for c in ast.walk(s))
                    whole = any(isinstance(c, ast.Call) and norm(c.func) == 'self.visit' and norm(c.args[0]) == 'v' for s in body for c in ast.walk(s))
                    if whole or (vis_args and vis_kw):
                        r.ok(m, f"DetectVarNames.{f.name}", "call used as index: arguments and keywords visited")
                    else:
                        r.bad(m, f"DetectVarNames.{f.name}", "call used as index",
                              "arguments of a call used as an index are not all visited", chain[0].lineno)
        if not found:
            raise AnalysisError(f"{f.name}: index loop not found")
        # the base of the chain: every kind for which no name is produced (`return None, None`) is either a leaf or visited
        nones = [n for n in ast.walk(f) if isinstance(n, ast.Return) and isinstance(n.value, ast.Tuple) and
                 all(isinstance(e, ast.Constant) and e.value is None for e in n.value.elts)]
        if not nones:
            raise AnalysisError(f"{f.name}: the unresolvable-base returns were not found")
        for ret in nones:
            par = getattr(ret, '_parent', None)
            if not isinstance(par, ast.If):
                raise AnalysisError(f"{f.name}:{ret.lineno}: `return None, None` outside a case split")
            in_body = ret in par.body
            blk = par.body if in_body else par.orelse
            before = blk[:blk.index(ret)]
            visited = any(isinstance(c, ast.Call) and norm(c.func) in ('self.visit', 'self.generic_visit') and c.args and norm(c.args[0]) == 'node'
                          for st in before for c in ast.walk(st))
            kinds = []
            if in_body:
                kinds = re.findall(r'ast\.(\w+)', norm(par.test)) if norm(par.test).startswith('isinstance(node') else None
            else:
                for st in before:
                    if isinstance(st, ast.Assert) and norm(st.test).startswith('isinstance(node'):
                        kinds = re.findall(r'ast\.(\w+)', norm(st.test))
                if not kinds:
                    kinds = None
            if kinds is None:
                leaf = False
                what = 'any other kind of expression'
            else:
                def has_children(k):
                    cls = getattr(ast, k, None)
                    if cls is None:
                        raise AnalysisError(f"unknown ast kind {k}")
                    return any(x not in NON_NODE_FIELDS and x not in ('value', 'kind', 's', 'n') for x in cls._fields) if k in ('Str', 'Num', 'Constant', 'Bytes', 'NameConstant') \
                        else any(x not in NON_NODE_FIELDS for x in cls._fields)
                leaf = not any(has_children(k) for k in kinds)
                what = '/'.join(kinds)
            cons = f"{f.name}: base of kind {what} yields no name"
            if leaf or visited:
                r.ok(m, f"DetectVarNames.{f.name}", cons + (' (leaf)' if leaf else ' and is visited'))
            else:
                r.bad(m, f"DetectVarNames.{f.name}", cons,
                      f"an expression whose base is a {what} (e.g. concat(s.a, s.b)[0:4], f(s.x).y) returns no name without visiting the base: "
                      f"the signals read in its arguments are missing from the block's read set, so the block is not ordered after their writers",
                      ret.lineno)
    # extract_reads_writes_calls feeds every statement of the block to the visitor
    g = m.functions.get('extract_reads_writes_calls')
    if g is None:
        raise AnalysisError("anchor vanished: extract_reads_writes_calls")
    loops = [s for s in g.body if isinstance(s, ast.For)]
    ok = len(loops) == 1 and norm(loops[0].iter) == 'tree.body' and len(loops[0].body) == 1 and \
        'visitor.enter' in norm(loops[0].body[0]) and [norm(a) for a in loops[0].body[0].value.args][1:] == ['read', 'write', 'calls']
    (r.ok if ok else r.bad)(m, 'extract_reads_writes_calls', 'for stmt in tree.body: visitor.enter(stmt, read, write, calls)',
                            *([] if ok else ["not every statement of the update block is analysed", g.lineno]))
    r.require_floor(18)
    return r


# ---------------------------------------------------------------------------
def rule_funcfold(repo):
    r = RuleResult('R-C02-funcfold', "signals read/written by helper functions count as read/written by every block that "
                                     "(transitively) calls them")
    m = repo.mod(L2)
    f = m.get_func('ComponentLevel2._collect_vars')
    dfs = [n for n in ast.walk(f) if isinstance(n, ast.FunctionDef) and n.name == 'dfs']
    if len(dfs) != 1:
        raise AnalysisError("anchor vanished: ComponentLevel2._collect_vars.dfs")
    d = dfs[0]
    u = d.args.args[0].arg
    folds = {}
    for s in d.body:
        if isinstance(s, ast.AugAssign) and isinstance(s.op, ast.BitOr):
            folds[norm(s.target)] = norm(s.value)
    want = {'s._dsl.all_upblk_reads[blk]': f'm._dsl.func_reads[{u}]', 's._dsl.all_upblk_writes[blk]': f'm._dsl.func_writes[{u}]'}
    for k, v in want.items():
        if folds.get(k) == v:
            r.ok(m, 'ComponentLevel2._collect_vars.dfs', f"{k} |= {v}")
        else:
            r.bad(m, 'ComponentLevel2._collect_vars.dfs', f"{k} |= {folds.get(k)}",
                  f"the visited function's own accesses ({v}) must be added to the calling block {k}: accesses of functions "
                  f"deeper in the call tree are otherwise lost", d.lineno)
    # the folds happen unconditionally for every visited function (only the `u not in func_reads` early return before)
    pre = [s for s in d.body if isinstance(s, ast.If)]
    aug = [s for s in d.body if isinstance(s, ast.AugAssign)]
    conds = []
    for a in aug:
        conds += [g for g in guards_of(a) if g.kind in ('if', 'exit')]
    bad = [g for g in conds if norm(g.test) != f"{u} not in m._dsl.func_reads"]
    if bad:
        r.bad(m, 'ComponentLevel2._collect_vars.dfs', norm(bad[0].test),
              "folding is skipped under a condition (e.g. a memo of already expanded functions): later blocks calling the "
              "same helper get no constraints", bad[0].node.lineno)
    else:
        r.ok(m, 'ComponentLevel2._collect_vars.dfs', 'folding unconditional per visited function')
    # recursion over all callees
    loops = [s for s in d.body if isinstance(s, ast.For)]
    ok = len(loops) == 1 and norm(loops[0].iter) == f"m._dsl.func_calls[{u}]" and \
        any(isinstance(c, ast.Call) and norm(c.func) == 'dfs' and norm(c.args[0]) == norm(loops[0].target) for c in ast.walk(loops[0]))
    if ok:
        rec = [c for c in ast.walk(loops[0]) if isinstance(c, ast.Call) and norm(c.func) == 'dfs'][0]
        gs = [g for g in guards_of(rec) if any(x is g.node for x in ast.walk(loops[0])) and
              (g.kind == 'if' or (g.kind == 'exit' and not all(isinstance(x, ast.Raise) for x in g.exit_block)))]
        ok = not gs and not any(isinstance(x, (ast.Continue, ast.Break)) for x in ast.walk(loops[0]))
    (r.ok if ok else r.bad)(m, 'ComponentLevel2._collect_vars.dfs', 'recursion into every callee',
                            *([] if ok else ["not every called function is expanded", d.lineno]))
    # cycle detection is along the CURRENT call path only: the on-path marker set before the recursive call is removed after it
    if loops:
        lp0 = loops[0]
        v = norm(lp0.target)
        marks = [n for n in ast.walk(lp0) if isinstance(n, ast.If) and isinstance(n.test, ast.Compare) and len(n.test.ops) == 1
                 and isinstance(n.test.ops[0], ast.In) and norm(n.test.left) == v and any(isinstance(x, ast.Raise) for x in ast.walk(n))]
        if marks:
            X = norm(marks[0].test.comparators[0])
            recs = [st for st in lp0.body if any(isinstance(c, ast.Call) and norm(c.func) == 'dfs' for c in ast.walk(st))]
            ok2 = False
            if recs:
                i = lp0.body.index(recs[0])
                before = any(isinstance(st, ast.Assign) and norm(st.targets[0]) == f"{X}[{v}]" for st in lp0.body[:i])
                after = any((isinstance(st, ast.Delete) and any(norm(t) == f"{X}[{v}]" for t in st.targets)) or
                            (isinstance(st, ast.Expr) and isinstance(st.value, ast.Call) and norm(st.value.func) in (f"{X}.pop", f"{X}.__delitem__")
                             and st.value.args and norm(st.value.args[0]) == v) for st in lp0.body[i + 1:])
                ok2 = before and after
            (r.ok if ok2 else r.bad)(m, 'ComponentLevel2._collect_vars.dfs', f"on-path marker {X}[{v}] set before and removed after the recursive call",
                                     *([] if ok2 else [f"the marker `{X}[{v}]` stays set after the callee was expanded: a helper that is reachable along two "
                                                       f"paths of an ACYCLIC call graph (f -> g -> k and f -> k) is reported as a call cycle "
                                                       f"(InvalidFuncCallError on a legal design)", lp0.lineno]))
    # started for every call of every block
    starts = [c for c in ast.walk(f) if isinstance(c, ast.Call) and norm(c.func) == 'dfs' and not any(x is c for x in ast.walk(d))]
    ok = len(starts) == 1 and norm(starts[0].args[0]) == 'call'
    if ok:
        lp = enclosing(starts[0], (ast.For,))
        ok = lp is not None and norm(lp.iter) == 'calls' and norm(lp.target) == 'call'
        outer = enclosing(lp, (ast.For,)) if ok else None
        ok = ok and outer is not None and norm(outer.iter) == 'm._dsl.upblk_calls.items()'
    (r.ok if ok else r.bad)(m, 'ComponentLevel2._collect_vars', 'dfs(call, ...) for every call of every update block',
                            *([] if ok else ["helper expansion does not start from every call of every block", f.lineno]))
    r.require_floor(5)
    return r


# ---------------------------------------------------------------------------
def rule_overlap(repo):
    r = RuleResult('R-overlap', "the slice/index overlap predicate is exact for every pair of integer intervals")
    m = repo.mod(CONN)
    f = m.functions.get('_overlap')
    if f is None:
        raise AnalysisError("anchor vanished: Connectable._overlap")
    a, b = [x.arg for x in f.args.args]
    tags = {'int': lambda v: isinstance(v, int), 'slice': lambda v: isinstance(v, Obj) and v.tag == 'slice'}
    lo, hi = 0, 6

    def values():
        for i in range(lo, hi):
            yield i, (i, i + 1)
        for s in range(lo, hi):
            for e in range(s + 1, hi + 1):
                yield Obj('slice', start=s, stop=e, step=None), (s, e)
    wrong = None
    for xv, (xs, xe) in values():
        for yv, (ys, ye) in values():
            r.evaluations += 1
            kind, val = Evaluator({a: xv, b: yv}, arith=True, isinstance_tags=tags).run(f.body)
            if kind != 'return':
                raise AnalysisError(f"_overlap does not return on ({xv}, {yv}): {kind}")
            spec = max(xs, ys) < min(xe, ye)
            if bool(val) != spec and wrong is None:
                wrong = (xv, yv, bool(val), spec)
    if wrong:
        xv, yv, got, spec = wrong
        def show(v):
            return str(v) if isinstance(v, int) else f"[{v.fields['start']}:{v.fields['stop']}]"
        r.bad(m, '_overlap', f"_overlap({a}, {b})", f"_overlap({show(xv)}, {show(yv)}) is {got} but the bit ranges "
              f"{'do' if spec else 'do not'} share a bit: a writer/reader pair on these slices gets "
              f"{'no' if spec else 'a spurious'} ordering constraint / multi-driver check", f.lineno)
    else:
        r.ok(m, '_overlap', f"equals max(starts) < min(stops) on all {r.evaluations} endpoint configurations in [0,6]")
    # slice_overlap hands the two slices to _overlap
    s = m.get_func('Signal.slice_overlap')
    calls = [c for c in ast.walk(s) if isinstance(c, ast.Call) and norm(c.func) == '_overlap']
    me, other = s.args.args[0].arg, s.args.args[1].arg
    ok = len(calls) == 1 and sorted(norm(x) for x in calls[0].args) == sorted([f"{me}._dsl.slice", f"{other}._dsl.slice"])
    (r.ok if ok else r.bad)(m, 'Signal.slice_overlap', norm(calls[0]) if calls else '',
                            *([] if ok else ["slice_overlap must compare the two signals' own slices", s.lineno]))
    # sibling slices: all slices of the same parent other than self
    g = m.get_func('Signal.get_sibling_slices')
    txt = norm(g)
    ok = '_dsl.slices' in txt or 'slices' in txt
    if ok:
        # ... of the signal the slice was taken FROM (its parent object): for a slice of a struct field the top-level signal's table is
        # a different (usually empty) one
        tabs = [n for n in ast.walk(g) if isinstance(n, ast.Attribute) and n.attr == 'slices']
        me_ = g.args.args[0].arg

        def owner(e):
            e = e.value                      # <owner>._dsl.slices  ->  <owner>._dsl
            if isinstance(e, ast.Attribute) and e.attr == '_dsl':
                e = e.value
            if isinstance(e, ast.Name):
                rv = reaching_value(e.id, e)
                e = rv if rv is not None else e
            return norm(e)
        owners = {owner(t) for t in tabs}
        good = {f"{me_}.get_parent_object()", f"{me_}._dsl.parent_obj"}
        if not owners <= good:
            ok = None
            r.bad(m, 'Signal.get_sibling_slices', 'enumerates the parent signal\'s slices',
                  f"sibling slices are read from the slice table of `{sorted(owners - good)[0]}`, not of the signal the slice belongs to "
                  f"(get_parent_object()): for slices of a struct field the siblings come back empty, so overlapping writers / readers of the "
                  f"same field are neither rejected nor ordered", g.lineno)
    if ok is not None:
        (r.ok if ok else r.bad)(m, 'Signal.get_sibling_slices', 'enumerates the parent signal\'s slices',
                                *([] if ok else ["sibling slices are not taken from the parent's slice table", g.lineno]))
    # ... on every call: new slices can appear after the first query (add_connection on a fresh slice after elaboration)
    me = g.args.args[0].arg
    memo = [n for n in ast.walk(g) if isinstance(n, (ast.Assign, ast.AugAssign)) for t in (n.targets if isinstance(n, ast.Assign) else [n.target])
            if isinstance(t, ast.Attribute) and norm(t).startswith(me + '.')]
    (r.bad if memo else r.ok)(m, 'Signal.get_sibling_slices', 'computed from the slice table on every call (no memo on the signal)',
                              *([f"the result is stored on the signal (`{norm(memo[0])[:70]}`) and handed out again: a slice created later "
                                 f"(add_connection on a new slice of the same signal) is missing from the siblings, so an overlapping "
                                 f"writer gets no edge", memo[0].lineno] if memo else []))
    r.require_floor(4)
    return r


# ---------------------------------------------------------------------------
def _provenance(name_node, func):
    """norm(iter) of the for-loop (or comprehension) that binds this name, innermost first"""
    cur = name_node
    nm = name_node.id if isinstance(name_node, ast.Name) else name_node
    p = parent(cur) if not isinstance(cur, str) else None
    while p is not None:
        if isinstance(p, ast.For) and any(isinstance(x, ast.Name) and x.id == nm for x in ast.walk(p.target)):
            return p
        p = parent(p)
    return None


def rule_pairing(repo):
    r = RuleResult('R-C02-pairing', "every (writer block, reader block) pair on the same / ancestor / overlapping object becomes "
                                    "an edge writer-first; only ff writers, self pairs and explicitly inverted pairs are exempt")
    m = repo.mod(GENDAG)
    f = m.get_func('GenDAGPass._process_value_constraints')
    FN = 'GenDAGPass._process_value_constraints'
    # (a) the block->object maps include generated net blocks
    for which, datas in (('read_upblks', ['upblk_reads', 'genblk_reads']), ('write_upblks', ['upblk_writes', 'genblk_writes'])):
        hit = False
        for lp in [s for s in f.body if isinstance(s, ast.For)]:
            if isinstance(lp.iter, ast.List) and sorted(norm(e) for e in lp.iter.elts) == sorted(datas):
                adds = [c for c in ast.walk(lp) if isinstance(c, ast.Call) and norm(c.func).startswith(which + '[') and norm(c.func).endswith('.add')]
                if adds and not any(isinstance(x, (ast.If, ast.Continue, ast.Break)) for x in ast.walk(lp)):
                    hit = True
        (r.ok if hit else r.bad)(m, FN, f"{which} built from {datas}",
                                 *([] if hit else [f"{which} does not cover both user blocks and generated net blocks", f.lineno]))
    # (b)/(c) implicit constraint loops
    adds = [c for c in ast.walk(f) if isinstance(c, ast.Call) and norm(c.func) == 'impl_constraints.add']
    if len(adds) != 2:
        raise AnalysisError(f"{FN}: expected two implicit-constraint sites, found {len(adds)}")
    sides = {}
    for c in adds:
        tup = c.args[0]
        if not (isinstance(tup, ast.Tuple) and len(tup.elts) == 2 and all(isinstance(e, ast.Name) for e in tup.elts)):
            raise AnalysisError(f"{FN}: implicit constraint is not a pair of names")
        first, second = tup.elts
        outer = None
        for lp in [s for s in f.body if isinstance(s, ast.For)]:
            if any(x is c for x in ast.walk(lp)):
                outer = lp
        side = 'reader-side' if 'read_upblks.items()' in norm(outer.iter) else ('writer-side' if 'write_upblks.items()' in norm(outer.iter) else None)
        if side is None:
            raise AnalysisError(f"{FN}: cannot classify implicit-constraint loop over {norm(outer.iter)}")
        sides[side] = (c, outer)
        p1, p2 = _provenance(first, f), _provenance(second, f)
        it1, it2 = (norm(p1.iter) if p1 is not None else ''), (norm(p2.iter) if p2 is not None else '')
        obj = norm(outer.target.elts[0])
        blks = norm(outer.target.elts[1])
        # first element must range over writer blocks, second over reader blocks
        w_ok = it1.startswith('write_upblks[') or (side == 'writer-side' and it1 == blks)
        r_ok = it2.startswith('read_upblks[') or (side == 'reader-side' and it2 == blks)
        cons = f"{side}: impl_constraints.add(({first.id}, {second.id}))  [{first.id} in {it1}; {second.id} in {it2}]"
        if not (w_ok and r_ok):
            r.bad(m, FN, cons, "edge orientation: the first block must come from the writer map and the second from the reader "
                  "map (writer runs first)", c.lineno)
            continue
        # guards: exactly {first not in update_ff, first != second}
        texts = sorted(guard_atoms(c, stop=outer, canonical=True))
        required = [{(f"{first.id} not in update_ff", True)},
                    {(f"{first.id} != {second.id}", True), (f"{second.id} != {first.id}", True),
                     (f"{first.id} is not {second.id}", True), (f"{second.id} is not {first.id}", True)}]
        allowed = set().union(*required)
        extra = [t for t in texts if t not in allowed]
        missing = [sorted(g)[0] for g in required if not (g & set(texts))]
        if extra:
            r.bad(m, FN, cons, f"pairs are dropped under an extra condition `{extra[0][0]}`: some reader may run before its writer", c.lineno)
            continue
        if missing:
            r.bad(m, FN, cons, f"missing exemption `{missing[0][0]}` (ff writers / self pairs must not create combinational edges)", c.lineno)
            continue
        # constraint_objs keyed with the same pair
        st = stmt_of(c)
        sib = [s for s in parent(st).body if isinstance(s, ast.Expr) and isinstance(s.value, ast.Call) and
               norm(s.value.func) == f"constraint_objs[{first.id}, {second.id}].add"]
        if not sib or norm(sib[0].value.args[0]) != obj:
            r.bad(m, FN, cons, f"the inducing object must be recorded under the same key: constraint_objs[({first.id}, {second.id})].add({obj}) "
                  f"(the SCC fixed-point check watches exactly these objects)", c.lineno)
            continue
        r.ok(m, FN, cons)
    # reader-side: ancestors and overlapping sibling slices; writer-side: ancestors
    for side, mapname, needs_sib in (('reader-side', 'write_upblks', True), ('writer-side', 'read_upblks', False)):
        if side not in sides:
            continue
        c, outer = sides[side]
        obj = norm(outer.target.elts[0])
        wh = [s for s in outer.body if isinstance(s, ast.While)]
        ok = False
        lst = None
        if len(wh) == 1 and norm(wh[0].test) == 'x.is_signal()':
            ifs = [s for s in wh[0].body if isinstance(s, ast.If) and norm(s.test) == f"x in {mapname}"]
            step = [s for s in wh[0].body if isinstance(s, ast.Assign) and norm(s) == 'x = x.get_parent_object()']
            init = [s for s in outer.body if isinstance(s, ast.Assign) and norm(s) == f"x = {obj}"]
            if ifs and step and init and wh[0].body.index(ifs[0]) < wh[0].body.index(step[0]) and \
                    isinstance(ifs[0].body[0], ast.Expr) and norm(ifs[0].body[0].value.func).endswith('.append') and norm(ifs[0].body[0].value.args[0]) == 'x' \
                    and not any(isinstance(z, (ast.Break, ast.Continue)) for z in ast.walk(wh[0])):
                ok = True
                lst = norm(ifs[0].body[0].value.func)[:-len('.append')]
        (r.ok if ok else r.bad)(m, FN, f"{side}: ancestor walk `while x.is_signal(): if x in {mapname}: ... ; x = parent`",
                                *([] if ok else [f"the object itself and all its signal ancestors must be looked up in {mapname} "
                                                 f"(a block accessing a struct field / slice vs. a block accessing the whole signal)", outer.lineno]))
        if needs_sib:
            sl = [s for s in ast.walk(outer) if isinstance(s, ast.For) and norm(s.iter) == f"{obj}.get_sibling_slices()"]
            ok2 = False
            if len(sl) == 1:
                xv = norm(sl[0].target)
                ov = {(f"{xv}.slice_overlap({obj})", True), (f"{obj}.slice_overlap({xv})", True)}
                for a_ in [n for n in ast.walk(sl[0]) if isinstance(n, ast.Call) and norm(n) == f"{lst}.append({xv})"]:
                    # the guards of the append, however they are nested / conjoined: exactly {overlaps, is written}
                    atoms = set(guard_atoms(a_, stop=sl[0], canonical=True))
                    if len(atoms) == 2 and atoms & ov and (f"{xv} in {mapname}", True) in atoms \
                            and not any(isinstance(z, (ast.Break, ast.Return)) for z in ast.walk(sl[0])):
                        ok2 = True     # every overlapping written sibling is collected (no early exit after the first hit)
            (r.ok if ok2 else r.bad)(m, FN, f"{side}: overlapping sibling slices of the read object are paired",
                                     *([] if ok2 else ["a block reading x[a:b] is not ordered after a block writing an overlapping "
                                                       "slice x[c:d]", outer.lineno]))
        # the collected list is fully iterated
        if lst:
            lp = [s for s in ast.walk(outer) if isinstance(s, ast.For) and norm(s.iter) == lst]
            ok3 = len(lp) == 1 and any(x is c for x in ast.walk(lp[0]))
            (r.ok if ok3 else r.bad)(m, FN, f"{side}: every collected {lst[:-1]} contributes its blocks",
                                     *([] if ok3 else [f"not all collected {lst} are turned into edges", outer.lineno]))
    # (d) final merge
    merge = [s for s in f.body if isinstance(s, ast.For) and norm(s.iter) == 'impl_constraints']
    ok = False
    # the published set: `top._dag.all_constraints = <copy of U_U>`, possibly bound to local aliases in the same statement
    # (`top._dag.all_constraints = ac = {*U_U}`) or by `ac = top._dag.all_constraints` / the reverse afterwards
    init = [s for s in f.body if isinstance(s, ast.Assign) and any(norm(t) == 'top._dag.all_constraints' for t in s.targets)]
    aliases = {'top._dag.all_constraints'}
    if len(init) == 1:
        aliases |= {norm(t) for t in init[0].targets if isinstance(t, ast.Name)}
        if isinstance(init[0].value, ast.Name):
            # ac = {*U_U} ; top._dag.all_constraints = ac
            src = [s for s in f.body if isinstance(s, ast.Assign) and len(s.targets) == 1 and norm(s.targets[0]) == init[0].value.id]
            if len(src) == 1 and f.body.index(src[0]) < f.body.index(init[0]):
                aliases.add(init[0].value.id)
                init_value = src[0].value
            else:
                init_value = init[0].value
        else:
            init_value = init[0].value
        for s_ in f.body:
            if isinstance(s_, ast.Assign) and len(s_.targets) == 1 and isinstance(s_.targets[0], ast.Name) and norm(s_.value) in aliases \
                    and f.body.index(s_) > f.body.index(init[0]):
                aliases.add(s_.targets[0].id)
    if len(merge) == 1 and len(init) == 1:
        x, y = [norm(e) for e in merge[0].target.elts]
        b = merge[0].body
        ok = len(b) == 1 and isinstance(b[0], ast.If) and norm(b[0].test) in (f"({y}, {x}) not in U_U", f"not ({y}, {x}) in U_U") and not b[0].orelse and \
            len(b[0].body) == 1 and any(norm(b[0].body[0]) == f"{a}.add(({x}, {y}))" for a in aliases)
        ok = ok and norm(init_value) in ('{*U_U}', 'set(U_U)', 'U_U.copy()') and f.body.index(init[0]) < f.body.index(merge[0])
        # an alias must not be re-bound between the publication and the merge loop
        rebound = [s_ for s_ in f.body[f.body.index(init[0]) + 1:f.body.index(merge[0])]
                   if isinstance(s_, ast.Assign) and any(norm(t) in aliases for t in s_.targets) and norm(s_.value) not in aliases]
        ok = ok and not rebound
    if ok:
        # the snapshot of the explicit constraints must be taken AFTER the RD(x)/WR(x)-vs-U constraints were expanded into U_U
        expand = [i for i, s_ in enumerate(f.body) if any(isinstance(c, ast.Call) and norm(c.func) == 'U_U.add' for c in ast.walk(s_))]
        if expand and f.body.index(init[0]) < max(expand):
            ok = False
            r.bad(m, FN, "all_constraints = {*U_U} taken before the RD/WR(x) < U constraints are expanded into U_U",
                  "explicit RD(x)/WR(x)-vs-U(blk) constraints never reach the schedulers (they are added to U_U after the snapshot) but still "
                  "suppress the conflicting implicit edge: the pair is left unordered", init[0].lineno)
            ok = None
    if ok is not None:
        (r.ok if ok else r.bad)(m, FN, "all_constraints = explicit ∪ {implicit (x,y) unless (y,x) explicit}",
                              *([] if ok else ["implicit edges may only be dropped when the reverse pair is an explicit constraint; "
                                               "explicit constraints must all be kept", f.lineno]))
    co = [s for s in f.body if isinstance(s, ast.Assign) and norm(s.targets[0]) == 'top._dag.constraint_objs']
    (r.ok if co and norm(co[0].value) == 'constraint_objs' else r.bad)(
        m, FN, 'top._dag.constraint_objs = constraint_objs', *([] if co and norm(co[0].value) == 'constraint_objs' else
                                                               ["constraint objects are not published", f.lineno]))
    # (e) explicit RD/WR-U constraints: orientation decided by abstract evaluation of the innermost body over sign in {1,-1}
    inner = [lp for lp in ast.walk(f) if isinstance(lp, ast.For) and norm(lp.iter).startswith('equal_blks[')]
    ok = len(inner) == 1
    detail = ''
    if ok:
        lp = inner[0]
        eqv = norm(lp.target)
        outer2 = enclosing(lp, (ast.For,))
        names = [norm(e) for e in outer2.target.elts] if outer2 is not None and isinstance(outer2.target, ast.Tuple) else []
        ok = len(names) == 2
        if ok:
            signv, cov = names
            for sign in (1, -1):
                rec = {'U_U': [], 'cobj': []}

                def hook(ev, call, rec=rec):
                    fn = call.func
                    if isinstance(fn, ast.Attribute) and fn.attr == 'add':
                        if norm(fn.value) == 'U_U':
                            rec['U_U'].append(ev.ev(call.args[0]))
                            return None
                        if isinstance(fn.value, ast.Subscript) and norm(fn.value.value) == 'constraint_objs':
                            rec['cobj'].append((ev.ev(fn.value.slice), ev.ev(call.args[0])))
                            return None
                    return NotImplemented
                ev = Evaluator({signv: sign, cov: 'CO', eqv: 'EQ', 'obj': 'OBJ'}, arith=True, call_hook=hook)
                ev._block(lp.body)
                r.evaluations += 1
                want = ('EQ', 'CO') if sign == 1 else ('CO', 'EQ')
                if rec['U_U'] != [want] or rec['cobj'] != [(want, 'OBJ')]:
                    ok = False
                    detail = f"sign={sign}: edges {rec['U_U']}, recorded objects {rec['cobj']}, expected {want}"
    if ok:
        # every explicit RD/WR-U constraint is expanded: no condition on sign / kind skips the expansion
        lp = inner[0]
        outer2 = enclosing(lp, (ast.For,))
        skip = [g for g in guards_of(lp) if g.kind in ('if', 'exit') and any(x is g.node for x in ast.walk(outer2))]
        skip = [g for g in skip if norm(g.test) not in (f"{norm(lp.target)} != co_blk",)]
        if skip:
            ok = None
            r.bad(m, FN, "RD/WR(x) < U  =>  (block accessing x, U);   RD/WR(x) > U  =>  (U, block accessing x)",
                  f"the expansion of explicit value constraints is skipped under `{norm(skip[0].test)}`: such constraints (e.g. WR(x) < U(blk) for a "
                  f"block that does not itself access x) never become block-block edges", skip[0].node.lineno)
    if ok is not None:
      (r.ok if ok else r.bad)(m, FN, "RD/WR(x) < U  =>  (block accessing x, U);   RD/WR(x) > U  =>  (U, block accessing x)",
                              *([] if ok else ["explicit RD/WR-U constraints are oriented the wrong way round or not recorded under the same key: " + detail, f.lineno]))
    sel = [s for s in ast.walk(f) if isinstance(s, ast.If) and norm(s.test) == "typ == 'rd'"]
    ok = len(sel) == 1 and {norm(x) for x in sel[0].body} == {'constraints = RD_U', 'equal_blks = read_upblks'} and \
        {norm(x) for x in sel[0].orelse} == {'constraints = WR_U', 'equal_blks = write_upblks'}
    (r.ok if ok else r.bad)(m, FN, "RD constraints use the reader map, WR constraints the writer map",
                            *([] if ok else ["RD(x)/WR(x) constraints are resolved against the wrong block map", f.lineno]))
    r.require_floor(11)
    return r


# ---------------------------------------------------------------------------
def rule_netblk(repo):
    r = RuleResult('R-C02-netblk', "every net block reads the net's writer and writes all other members")
    m = repo.mod(GENDAG)
    f = m.get_func('GenDAGPass._generate_net_blocks')
    FN = 'GenDAGPass._generate_net_blocks'
    lp = [s for s in f.body if isinstance(s, ast.For) and 'get_all_value_nets' in norm(s.iter)]
    if len(lp) != 1:
        raise AnalysisError(f"{FN}: net loop not found")
    lp = lp[0]
    wv, sv = [norm(e) for e in lp.target.elts]
    ar = [s for s in lp.body if isinstance(s, ast.Assign) and norm(s.targets[0]) == 'all_readers']
    ok = len(ar) == 1 and isinstance(ar[0].value, ast.ListComp) and norm(ar[0].value.generators[0].iter) == sv and \
        [norm(i) for i in ar[0].value.generators[0].ifs] == [f"{norm(ar[0].value.generators[0].target)} is not {wv}"]
    (r.ok if ok else r.bad)(m, FN, 'all_readers = every member except the writer',
                            *([] if ok else ["all_readers must be all members of the net other than the writer", lp.lineno]))
    adds = [c for c in ast.walk(lp) if isinstance(c, ast.Call) and norm(c.func) == 'top._dag.genblks.add']
    if len(adds) < 2:
        raise AnalysisError(f"{FN}: expected the empty-block and the normal-block registration")
    for c in adds:
        blk = norm(c.args[0])
        sibs = parent(stmt_of(c)).body
        i = sibs.index(stmt_of(c))
        tail = sibs[i:]
        wr = [s for s in tail if isinstance(s, ast.Assign) and norm(s.targets[0]) == f"top._dag.genblk_writes[{blk}]"]
        rd = [s for s in tail if isinstance(s, ast.If) and norm(s.test) == f"{wv}.is_signal()" and
              any(norm(x) == f"top._dag.genblk_reads[{blk}] = [{wv}]" for x in s.body)]
        cons = f"genblks.add({blk}); genblk_reads[{blk}] = [{wv}]; genblk_writes[{blk}] = all_readers"
        if wr and norm(wr[0].value) == 'all_readers' and rd:
            r.ok(m, FN, cons)
        else:
            r.bad(m, FN, cons, "a generated net block must be registered as reading the writer and writing ALL other members "
                  "(including the top-level members that share the writer's value object): otherwise readers of those members "
                  "are not ordered after the writer", c.lineno)
    # only single-member nets are skipped
    sk = [s for s in lp.body if isinstance(s, ast.If) and any(isinstance(x, ast.Continue) for x in s.body)]
    conds = [norm(s.test) for s in sk]
    ok = set(conds) <= {f"len({sv}) == 1", 'fanout == 0'}
    (r.ok if ok else r.bad)(m, FN, f"skipped nets: {conds}", *([] if ok else ["nets other than single-member ones are skipped", lp.lineno]))
    # generated body assigns every (non-delegated) reader from the writer value
    jn = [c for c in ast.walk(lp) if isinstance(c, ast.ListComp) and isinstance(c.elt, ast.JoinedStr) and norm(c.generators[0].iter) == 'rstrs']
    ok = len(jn) == 1 and not jn[0].generators[0].ifs
    if ok:
        t = ''.join(v.value if isinstance(v, ast.Constant) else 'R' for v in jn[0].elt.values).strip()
        ok = t == 'R @= x'
    rs = [s for s in ast.walk(lp) if isinstance(s, ast.Assign) and norm(s.targets[0]) == 'rstrs']
    ok = ok and len(rs) == 1 and isinstance(rs[0].value, ast.ListComp) and norm(rs[0].value.generators[0].iter) == 'readers' \
        and not rs[0].value.generators[0].ifs
    (r.ok if ok else r.bad)(m, FN, 'generated body: x = writer; <reader> @= x for every reader',
                            *([] if ok else ["the generated net block does not propagate the writer's value to every reader", lp.lineno]))
    # readers: writer top-level/Const -> all non-top-level members; else first top-level member + all non-top-level
    fin = [s for s in f.body if isinstance(s, ast.Assign) and norm(s.targets[0]) == 'top._dag.final_upblks']
    ok = len(fin) == 1 and norm(fin[0].value) in ('top.get_all_update_blocks() | top._dag.genblks', 'top._dag.genblks | top.get_all_update_blocks()')
    (r.ok if ok else r.bad)(m, FN, 'final_upblks = user blocks ∪ generated blocks', *([] if ok else ["final_upblks must contain every user block and every net block", f.lineno]))
    call = m.get_func('GenDAGPass.__call__')
    order = [norm(c.func) for c in ast.walk(call) if isinstance(c, ast.Call) and norm(c.func).startswith('self._')]
    ok = order[:2] == ['self._generate_net_blocks', 'self._process_value_constraints']
    (r.ok if ok else r.bad)(m, 'GenDAGPass.__call__', ' ; '.join(order), *([] if ok else ["net blocks must exist before value constraints are processed", call.lineno]))
    r.require_floor(7)
    return r


# ---------------------------------------------------------------------------
class _Kahn:
    """slots of one Kahn instance found in a function"""


def _sub_index(node):
    """for Subscript D[x] return (D-name, norm(x))"""
    if isinstance(node, ast.Subscript) and isinstance(node.value, ast.Name):
        return node.value.id, norm(node.slice)
    return None, None


def _eval_vertex_toposort(func):
    """run a vertex-level scheduler of the shape `V = ...; for (u, v) in top._dag.all_constraints: ...; <sort>; check_schedule(...)`
    concretely on small graphs; returns (ok, n_graphs, message) or None when the fragment is outside the interpreter"""
    from sa.listwalk import ListWalk
    graphs = {
        'chain': ({1, 2, 3}, {(1, 2), (2, 3)}),
        'diamond': ({1, 2, 3, 4}, {(1, 2), (1, 3), (2, 4), (3, 4)}),
        'diamond with a short cut': ({1, 2, 3, 4}, {(1, 2), (2, 3), (3, 4), (1, 4), (1, 3)}),
        'two sources, reconvergent': ({1, 2, 3, 4, 5}, {(1, 3), (2, 3), (3, 5), (1, 4), (4, 5), (2, 5)}),
        'independent blocks': ({1, 2, 3}, set()),
    }
    shuffles = {'keep': lambda q: None, 'reverse': lambda q: q.reverse(), 'rotate': lambda q: q.append(q.pop(0)) if q else None}
    n = 0
    for gname, (V, E) in graphs.items():
        for sname, sh in shuffles.items():
            got = {}
            env = {'top._dag.final_upblks': set(V), 'top.get_all_update_ff': (lambda: set()), 'top._dag.all_constraints': set(E),
                   'top._sched.update_schedule': None, 'os.environ': {}, 'random.shuffle': sh, 'top': 'TOP'}
            w = ListWalk(set(), env=env, budget=20000,
                         funcs={'check_schedule': (lambda *a: got.setdefault('checked', a)), 'dump_dag': (lambda *a: None),
                                'hasattr': (lambda o, n: True)})
            w.allowed_imports = ('os', 'random')
            try:
                w.block([st for st in func.body if not (isinstance(st, ast.Expr) and isinstance(st.value, ast.Constant))])
            except AnalysisError:
                return None
            except Exception as e:          # noqa: BLE001
                return (False, n, f"on the {gname} graph the scheduler raises {e.__class__.__name__}: {e}")
            n += 1
            sched = w.env.get('top._sched.update_schedule')
            if not isinstance(sched, list):
                return None
            pos = {v: i for i, v in enumerate(sched)}
            if sorted(sched) != sorted(V):
                return (False, n, f"on the {gname} graph (queue order: {sname}) the schedule is {sched}: not every block exactly once")
            badedge = [(u, v) for (u, v) in sorted(E) if pos[u] > pos[v]]
            if badedge:
                u, v = badedge[0]
                return (False, n, f"on the {gname} graph (queue order: {sname}) the schedule is {sched}: block {v} runs before block {u} although "
                                  f"{u} < {v} is a constraint -- the reader sees the writer's previous value")
    return (True, n, '')


def kahn_check(r, m, FN, func, level, out_pred, require_complete):
    """level: 'vertex' (edges from top._dag.all_constraints filtered by V) or 'scc' (edges = condensation map)"""
    if level == 'vertex':
        ev0 = _eval_vertex_toposort(func)
        if ev0 is not None and not ev0[0]:
            r.bad(m, FN, "vertex-level schedule evaluated on small graphs", ev0[2], func.lineno)
            return
        if ev0 is not None:
            r.ok(m, FN, f"vertex-level schedule evaluated on {ev0[1]} (graph, queue order) cases: a linear extension with every block once")
            r.evaluations += ev0[1]
    incs = [n for n in ast.walk(func) if isinstance(n, ast.AugAssign) and isinstance(n.op, ast.Add) and norm(n.value) == '1'
            and isinstance(n.target, ast.Subscript) and isinstance(n.target.value, ast.Name)]
    decs = [n for n in ast.walk(func) if isinstance(n, ast.AugAssign) and isinstance(n.op, ast.Sub) and norm(n.value) == '1'
            and isinstance(n.target, ast.Subscript) and isinstance(n.target.value, ast.Name)]
    dnames = {n.target.value.id for n in decs}
    incs = [n for n in incs if n.target.value.id in dnames]
    # ignore in-degree maps local to SCC-internal heuristics (recomputed `InD = {v: 0 for v in scc}`)
    if level == 'vertex':
        incs = [n for n in incs if 'all_constraints' in norm(enclosing(n, (ast.For,)).iter)]
    else:
        incs = [n for n in incs if enclosing(enclosing(n, (ast.For,)), (ast.For,)) is not None and
                '.items()' in norm(enclosing(enclosing(n, (ast.For,)), (ast.For,)).iter)]
    if len(incs) != 1 or not decs:
        ev = _eval_vertex_toposort(func) if level == 'vertex' else None
        if ev is not None and ev[0]:
            r.ok(m, FN, f"{level}-level schedule evaluated on {ev[1]} small graphs: always a linear extension containing every block")
            return
        detail = ev[2] if ev is not None else ("in-degrees are not counted once per listed edge (`InD[v] += 1` in the edge loop) although a vertex is "
                                               "released by one decrement per listed edge: with parallel edges / distinct-predecessor counts a vertex "
                                               "is released before all its predecessors have run")
        r.bad(m, FN, f"{level}-level topological sort (Kahn: count one per edge, release at zero)", detail, func.lineno)
        return
    inc = incs[0]
    D, tgt = _sub_index(inc.target)
    decs = [d for d in decs if d.target.value.id == D]
    if len(decs) != 1:
        raise AnalysisError(f"{FN}: expected one in-degree decrement for {D}, found {len(decs)}")
    dec = decs[0]
    # ---- edge accumulation
    S = None
    eloop = enclosing(inc, (ast.For,))
    if level == 'vertex':
        src = norm(eloop.iter)
        u, v = [norm(e) for e in eloop.target.elts]
        gs = [g for g in guards_of(inc) if g.kind == 'if' and any(x is g.node for x in ast.walk(eloop))]
        conj = []
        for g in gs:
            if isinstance(g.test, ast.BoolOp) and isinstance(g.test.op, ast.And) and g.polarity:
                conj += [norm(x) for x in g.test.values]
            else:
                conj.append(norm(g.test) if g.polarity else f"not ({norm(g.test)})")
        vdef = None
        for s in func.body:
            if isinstance(s, ast.Assign) and isinstance(s.targets[0], ast.Name) and s.targets[0].id == 'V':
                vdef = norm(s.value)
        cons = f"for ({u}, {v}) in {src}: if {' and '.join(conj)}: {D}[{tgt}] += 1"
        if src != 'top._dag.all_constraints':
            r.bad(m, FN, cons, "edges are not taken from top._dag.all_constraints", eloop.lineno)
        elif vdef not in ('top._dag.final_upblks - top.get_all_update_ff()',):
            r.bad(m, FN, f"V = {vdef}", "vertex set must be all final update blocks minus the update_ff blocks", func.lineno)
        elif sorted(conj) != sorted([f"{u} in V", f"{v} in V"]):
            r.bad(m, FN, cons, "edges are filtered by something other than membership of both ends in V: constraints are lost", eloop.lineno)
        elif tgt != v:
            r.bad(m, FN, cons, f"in-degree must be counted at the edge target {v}", inc.lineno)
        else:
            # successor registration in the same guarded block
            sibs = parent(inc).body
            succ = [s for s in sibs if isinstance(s, ast.Expr) and isinstance(s.value, ast.Call) and isinstance(s.value.func, ast.Attribute)
                    and s.value.func.attr in ('append', 'add') and _sub_index(s.value.func.value)[1] == u and norm(s.value.args[0]) == v]
            if not succ:
                r.bad(m, FN, cons, f"the edge is counted in the in-degree but {v} is not stored as a successor of {u} in the same step", inc.lineno)
                S = None
            else:
                S = _sub_index(succ[0].value.func.value)[0]
                r.ok(m, FN, cons + f"; {S}[{u}].append({v})")
    else:
        inner = eloop
        outer = enclosing(inner, (ast.For,))
        S = norm(outer.iter)[:-len('.items()')]
        uu, vs = [norm(e) for e in outer.target.elts]
        cons = f"for {uu}, {vs} in {S}.items(): for {norm(inner.target)} in {vs}: {D}[{tgt}] += 1"
        gs = [g for g in guards_of(inc) if g.kind == 'if' and any(x is g.node for x in ast.walk(outer))]
        if norm(inner.iter) != vs or tgt != norm(inner.target) or gs:
            r.bad(m, FN, cons, "SCC in-degrees must count every condensation edge once at its target", inc.lineno)
        else:
            r.ok(m, FN, cons)
    # ---- relaxation
    rloop = enclosing(dec, (ast.For,))
    dv = _sub_index(dec.target)[1]
    cons = f"for {norm(rloop.target)} in {norm(rloop.iter)}: {D}[{dv}] -= 1; if not {D}[{dv}]: push"
    okr = dv == norm(rloop.target) and isinstance(rloop.iter, ast.Subscript) and (S is None or norm(rloop.iter.value) == S)
    uexpr = norm(rloop.iter.slice) if isinstance(rloop.iter, ast.Subscript) else None
    sibs = parent(dec).body
    i = sibs.index(dec)
    push = None
    if okr and i + 1 < len(sibs) and isinstance(sibs[i + 1], ast.If) and not sibs[i + 1].orelse:
        t = norm(sibs[i + 1].test)
        if t in (f"not {D}[{dv}]", f"{D}[{dv}] == 0"):
            push = [c for s in sibs[i + 1].body for c in ast.walk(s) if isinstance(c, ast.Call) and
                    (norm(c.func).split('.')[-1] in ('append', 'put', 'appendleft', 'add', 'push') or norm(c.func) == 'insert_sortedlist')]
    gs = [g for g in guards_of(dec) if g.kind == 'if' and any(x is g.node for x in ast.walk(rloop))]
    if not okr or gs:
        r.bad(m, FN, cons, "every successor's in-degree must be decremented exactly once when its predecessor is scheduled", dec.lineno)
    elif not push or not any(dv in norm(p) for p in push):
        r.bad(m, FN, cons, f"a successor must become ready exactly when its in-degree reaches zero (`if not {D}[{dv}]: Q.push({dv})`)", dec.lineno)
    elif any(isinstance(x, (ast.Break, ast.Continue)) for x in ast.walk(rloop)):
        r.bad(m, FN, cons, "the relaxation loop skips successors", rloop.lineno)
    else:
        r.ok(m, FN, cons)
    # ---- main loop: one extraction, output and relaxation on every path
    wl = enclosing(rloop, (ast.While,))
    helper = None
    if wl is None:
        helper = enclosing(rloop, (ast.FunctionDef,))
        calls = [c for c in ast.walk(func) if isinstance(c, ast.Call) and norm(c.func) == helper.name]
        if len(calls) != 1:
            raise AnalysisError(f"{FN}: relaxation helper {helper.name} is not called exactly once")
        wl = enclosing(calls[0], (ast.While,))
        if wl is None:
            raise AnalysisError(f"{FN}: relaxation is not inside the scheduling loop")
        relax_pred = lambda s: isinstance(s, ast.Expr) and s.value is calls[0]
        uvar = norm(calls[0].args[0])
        if uexpr != helper.args.args[0].arg:
            r.bad(m, FN, cons, "successors of a vertex other than the scheduled one are relaxed", rloop.lineno)
    else:
        relax_pred = lambda s: s is rloop
        uvar = None
    qname = norm(wl.test).replace('not ', '').replace('.empty()', '')

    def extracts(s):
        if isinstance(s, ast.Assign) and isinstance(s.value, ast.Call) and isinstance(s.value.func, ast.Attribute) \
                and norm(s.value.func.value) == qname and s.value.func.attr in ('pop', 'popleft', 'get'):
            return True
        return False
    ex = [s for s in ast.walk(wl) if extracts(s)]
    if not ex:
        raise AnalysisError(f"{FN}: no extraction from the ready container {qname}")
    names = set()
    for s in ex:
        for t in ast.walk(s.targets[0]):
            if isinstance(t, ast.Name):
                names.add(t.id)
    # aliases derived from the extracted vertex inside the loop (u_blk = id_v[u])
    changed = True
    while changed:
        changed = False
        for s in ast.walk(wl):
            if isinstance(s, ast.Assign) and len(s.targets) == 1 and isinstance(s.targets[0], ast.Name) and s.targets[0].id not in names \
                    and names & {x.id for x in ast.walk(s.value) if isinstance(x, ast.Name)} and not extracts(s):
                names.add(s.targets[0].id)
                changed = True
    from rules.c07 import _covers_all
    cons = f"while {norm(wl.test)}: take one ready vertex, emit it, relax its successors"
    if uvar is None:
        uvar = uexpr
    ok_take = _covers_all(wl, extracts)
    ok_out = _covers_all(wl, lambda s: out_pred(s, names))
    ok_relax = _covers_all(wl, relax_pred)
    if not ok_take:
        r.bad(m, FN, cons, "some path through the scheduling loop does not take a vertex from the ready container", wl.lineno)
    elif not ok_out:
        r.bad(m, FN, cons, "some path through the scheduling loop does not put the taken vertex into the schedule: the block never runs", wl.lineno)
    elif not ok_relax:
        r.bad(m, FN, cons, "some path through the scheduling loop does not relax the successors of the scheduled vertex", wl.lineno)
    elif not any(n in (uvar or '') for n in names):
        r.bad(m, FN, cons, f"the relaxed vertex `{uvar}` is not the one taken from the ready container", wl.lineno)
    else:
        # nothing else may be pushed into the ready container inside the loop
        pushes = [c for c in ast.walk(wl) if isinstance(c, ast.Call) and isinstance(c.func, ast.Attribute) and norm(c.func.value) == qname
                  and c.func.attr in ('append', 'put', 'appendleft', 'add', 'insert', 'extend')]
        foreign = [c for c in pushes if not any(x is c for x in ast.walk(rloop))]
        if foreign:
            r.bad(m, FN, cons, f"a vertex is made ready outside the in-degree test: {norm(foreign[0])}", foreign[0].lineno)
        else:
            r.ok(m, FN, cons)
    # ---- initial ready set
    init_ok = False
    for s in ast.walk(func):
        if isinstance(s, ast.Assign) and norm(s.targets[0]) == qname:
            for c in ast.walk(s.value):
                if isinstance(c, ast.ListComp) and len(c.generators) == 1:
                    g = c.generators[0]
                    lv = norm(g.target)
                    if [norm(i) for i in g.ifs] in ([f"not {D}[{lv}]"], [f"{D}[{lv}] == 0"]) and norm(c.elt) == lv:
                        init_ok = norm(g.iter)
    for lp in [s for s in ast.walk(func) if isinstance(s, ast.For) and not any(x is s for x in ast.walk(wl))]:
        lv = norm(lp.target)
        for i in [s for s in lp.body if isinstance(s, ast.If) and norm(s.test) in (f"not {D}[{lv}]", f"{D}[{lv}] == 0") and not s.orelse]:
            if any(isinstance(c, ast.Call) and (norm(c.func).startswith(qname + '.') or norm(c.func) == 'insert_sortedlist') and lv in norm(c)
                   for b in i.body for c in ast.walk(b)) and len(lp.body) == 1:
                # every branch inside must push
                init_ok = norm(lp.iter)
    dom_ok = init_ok in ('V', 'range(len(SCCs))')
    cons = f"initial ready set = {{x in {init_ok} | {D}[x] == 0}}"
    (r.ok if dom_ok else r.bad)(m, FN, cons, *([] if dom_ok else ["the initial ready set must be exactly the vertices with in-degree zero over the whole vertex set", func.lineno]))
    # ---- completeness
    if require_complete:
        after = [s for s in func.body if isinstance(s, ast.Expr) and isinstance(s.value, ast.Call) and norm(s.value.func) == 'check_schedule']
        asserts = [s for s in ast.walk(func) if isinstance(s, ast.Assert) and 'len(' in norm(s.test) and '==' in norm(s.test)]
        ok = bool(after) and func.body.index(after[0]) > func.body.index(wl) if after and wl in func.body else bool(after) or bool(asserts)
        (r.ok if ok else r.bad)(m, FN, 'completeness check after the sort',
                                *([] if ok else ["a cyclic dependency leaves blocks unscheduled silently: the result must be checked "
                                                 "(len(schedule) == len(V)) and UpblkCyclicError raised", func.lineno]))


def rule_kahn(repo):
    r = RuleResult('R-kahn', "every scheduler is a topological sort over exactly the constraint edges and loses no block")

    def out_simple(s, names):
        return isinstance(s, ast.Expr) and isinstance(s.value, ast.Call) and isinstance(s.value.func, ast.Attribute) \
            and s.value.func.attr == 'append' and any(n in {x.id for x in ast.walk(s.value.args[0]) if isinstance(x, ast.Name)} for n in names)
    for rel, q, level, need in ((SIMPLE, 'SimpleSchedulePass.schedule_intra_cycle', 'vertex', True),
                                (HEU, 'HeuristicTopoPass.schedule_intra_cycle', 'vertex', True),
                                (DYN, 'DynamicSchedulePass.schedule_intra_cycle', 'scc', True),
                                (MAMBA, 'Mamba2020Pass.schedule_intra_cycle', 'scc', False)):
        m = repo.mod(rel)
        f = m.get_func(q)
        kahn_check(r, m, q, f, level, out_simple, need)
    # vertex-level graph construction of the SCC based schedulers (G / G_T from all_constraints filtered by V)
    for rel, q in ((DYN, 'DynamicSchedulePass.schedule_intra_cycle'), (MAMBA, 'Mamba2020Pass.schedule_intra_cycle'),
                   (OPENLOOP, 'OpenLoopCLPass.schedule_with_top_level_callee')):
        m = repo.mod(rel)
        f = m.get_func(q)
        lp = [s for s in f.body if isinstance(s, ast.For) and norm(s.iter) == 'top._dag.all_constraints']
        ok = len(lp) == 1
        cons = 'G / G_T built from top._dag.all_constraints filtered by membership in V'
        if ok:
            u, v = [norm(e) for e in lp[0].target.elts]
            b = lp[0].body
            ok = len(b) == 1 and isinstance(b[0], ast.If) and not b[0].orelse and isinstance(b[0].test, ast.BoolOp) and \
                sorted(norm(x) for x in b[0].test.values) == sorted([f"{u} in V", f"{v} in V"])
            if ok:
                body = {norm(s) for s in b[0].body}
                ok = {f"G[{u}].append({v})", f"G_T[{v}].append({u})", f"E.add(({u}, {v}))"} <= body
        vdef = [norm(s.value) for s in f.body if isinstance(s, ast.Assign) and norm(s.targets[0]) == 'V']
        ok = ok and vdef[:1] == ['top._dag.final_upblks - top.get_all_update_ff()']
        (r.ok if ok else r.bad)(m, q, cons, *([] if ok else ["the SCC graph does not contain every constraint between scheduled blocks "
                                                             "(forward edge in G, backward edge in G_T)", f.lineno]))
    # kosaraju: condensation edges only between different SCCs, every vertex assigned
    m = repo.mod(DYN)
    k = m.functions.get('kosaraju_scc')
    if k is None:
        raise AnalysisError("anchor vanished: kosaraju_scc")
    txt = [norm(s) for s in ast.walk(k) if isinstance(s, ast.If)]
    ok = any('scc_u != scc_v' in t for t in txt) and any(isinstance(s, ast.Assign) and norm(s.targets[0]) == 'RPO' and norm(s.value) == 'PO[::-1]' for s in ast.walk(k))
    second = [s for s in k.body if isinstance(s, ast.For) and norm(s.iter) == 'RPO']
    ok = ok and len(second) == 1 and any(isinstance(x, ast.For) and norm(x.iter) == 'G_T[u]' for x in ast.walk(second[0]))
    first = [s for s in k.body if isinstance(s, ast.For) and norm(s.iter) == 'vertices']
    ok = ok and len(first) == 1 and any(isinstance(x, ast.For) and norm(x.iter) in ('reversed(G[u])', 'G[u]') for x in ast.walk(first[0]))
    (r.ok if ok else r.bad)(m, 'kosaraju_scc', 'pass 1 on G (post-order), pass 2 on G_T in reverse post-order, condensation edges between different SCCs',
                            *([] if ok else ["SCC computation no longer has the Kosaraju shape", k.lineno]))
    for rel, q in ((DYN, 'DynamicSchedulePass.schedule_intra_cycle'), (MAMBA, 'Mamba2020Pass.schedule_intra_cycle')):
        mm = repo.mod(rel)
        f = mm.get_func(q)
        calls = [c for c in ast.walk(f) if isinstance(c, ast.Call) and norm(c.func) == 'kosaraju_scc']
        ok = len(calls) == 1 and [norm(a) for a in calls[0].args] == ['G', 'G_T']
        (r.ok if ok else r.bad)(mm, q, 'kosaraju_scc(G, G_T)', *([] if ok else ["SCCs must be computed from the graph and its transpose", f.lineno]))
    # Dynamic: every SCC of the SCC schedule becomes one schedule entry
    mm = repo.mod(DYN)
    f = mm.get_func('DynamicSchedulePass.schedule_intra_cycle')
    lp = [s for s in f.body if isinstance(s, ast.For) and norm(s.iter) == 'scc_schedule']
    ok = len(lp) == 1
    if ok:
        from rules.c07 import _covers_all
        ok = _covers_all(lp[0], lambda s: isinstance(s, ast.Expr) and isinstance(s.value, ast.Call) and norm(s.value.func) == 'schedule.append')
        bind = [s for s in f.body if isinstance(s, ast.Assign) and any(norm(t) == 'top._sched.update_schedule' for t in s.targets)
                and any(norm(t) == 'schedule' for t in s.targets)]
        ok = ok and len(bind) == 1
        single = [s for s in lp[0].body if isinstance(s, ast.If) and norm(s.test) == 'len(scc) == 1']
        ok = ok and single and norm(single[0].body[0]) == 'schedule.append(list(scc)[0])'
        gen = [c for c in ast.walk(lp[0]) if isinstance(c, ast.Call) and norm(c.func) == 'gen_wrapped_SCCblk']
        ok = ok and len(gen) == 1 and norm(gen[0].args[1]) == 'tmp_schedule'
    (r.ok if ok else r.bad)(mm, 'DynamicSchedulePass.schedule_intra_cycle', 'every SCC contributes one entry (the block itself or its wrapped super block) in SCC-schedule order',
                            *([] if ok else ["an SCC can be left out of the final schedule", f.lineno]))
    # Mamba: meta-block partition keeps every compiled SCC, flushes every meta block, final schedule covers all
    mm = repo.mod(MAMBA)
    f = mm.get_func('Mamba2020Pass.schedule_intra_cycle')
    wl = [s for s in f.body if isinstance(s, ast.While) and norm(s.test) == 'Q']
    ok = len(wl) == 1
    if ok:
        resets = [s for s in ast.walk(wl[0]) if isinstance(s, ast.Assign) and isinstance(s.targets[0], ast.Tuple) and
                  norm(s.targets[0].elts[0]) == 'cur_meta' and norm(s.value.elts[0]) == '[]']
        for rs in resets:
            sibs = parent(rs).body
            i = sibs.index(rs)
            if i == 0 or norm(sibs[i - 1]) != 'schedule.append(cur_meta)':
                ok = False
        tail = [s for s in f.body if isinstance(s, ast.If) and norm(s.test) == 'cur_meta' and any(norm(x) == 'schedule.append(cur_meta)' for x in s.body)]
        ok = ok and bool(tail) and f.body.index(tail[0]) > f.body.index(wl[0]) and len(resets) >= 3
        fin = [s for s in f.body if isinstance(s, ast.If) and norm(s.test) == 'len(schedule) == 1']
        ok = ok and len(fin) == 1
        if ok:
            a = [x for x in ast.walk(fin[0]) if isinstance(x, ast.For)]
            its = sorted(norm(x.iter) for x in a)
            ok = its == ['enumerate(schedule)', 'enumerate(schedule[0])'] and all(
                any(isinstance(c, ast.Call) and norm(c.func) == 'top._sched.update_schedule.append' for c in ast.walk(x)) and
                not any(isinstance(z, (ast.Continue, ast.Break)) for z in ast.walk(x)) for x in a)
    (r.ok if ok else r.bad)(mm, 'Mamba2020Pass.schedule_intra_cycle', 'trace-breaking partition keeps order and multiplicity (every meta block flushed, tail flushed, all emitted)',
                            *([] if ok else ["a compiled SCC / meta block can be dropped from or duplicated in the final schedule", f.lineno]))
    # Mamba compile_scc for large SCCs: num_blks sanity assert + every meta block called
    cs = mm.get_func('Mamba2020Pass.schedule_intra_cycle.compile_scc')
    asserts = [s for s in ast.walk(cs) if isinstance(s, ast.Assert) and norm(s.test) == 'num_blks == len(tmp_schedule)']
    (r.ok if asserts else r.bad)(mm, 'Mamba2020Pass.schedule_intra_cycle.compile_scc', 'assert num_blks == len(tmp_schedule)',
                                 *([] if asserts else ["trace breaking inside an SCC can lose blocks unnoticed", cs.lineno]))
    # check_schedule raises on incomplete schedules
    sm = repo.mod(SIMPLE)
    cfn = sm.functions.get('check_schedule')
    if cfn is None:
        raise AnalysisError("anchor vanished: check_schedule")
    ifs = [s for s in cfn.body if isinstance(s, ast.If)]
    a = [x.arg for x in cfn.args.args]
    ok = len(ifs) == 1 and norm(ifs[0].test) in (f"len({a[1]}) != len({a[2]})", f"len({a[2]}) != len({a[1]})", f"len({a[1]}) < len({a[2]})") and \
        any(isinstance(x, ast.Raise) and isinstance(x.exc, ast.Call) and norm(x.exc.func) == 'UpblkCyclicError' for x in ast.walk(ifs[0]))
    (r.ok if ok else r.bad)(sm, 'check_schedule', norm(ifs[0].test) if ifs else '', *([] if ok else ["an incomplete schedule (cyclic dependencies) must raise UpblkCyclicError", cfn.lineno]))
    if ok:
        # nothing that can fail for environmental reasons (graph rendering) may run unprotected before the raise
        risky = [c for s_ in ifs[0].body for c in ast.walk(s_) if isinstance(c, ast.Call) and norm(c.func) in ('dump_dag',)]
        unprot = []
        for c in risky:
            t = enclosing(c, (ast.Try,))
            prot = t is not None and any(c2 is c for b in t.body for c2 in ast.walk(b)) and \
                any(h.type is None or norm(h.type) in ('Exception', 'BaseException') for h in t.handlers) and \
                not any(isinstance(x, ast.Raise) for h in t.handlers for x in ast.walk(h))
            if not prot:
                unprot.append(c)
        (r.ok if not unprot else r.bad)(sm, 'check_schedule', 'debug rendering cannot mask the error',
                                        *([] if not unprot else ["dump_dag (graphviz rendering + viewer) runs unprotected before the raise: without "
                                                                 "graphviz / a viewer a cyclic design raises FileNotFoundError/ImportError instead "
                                                                 "of UpblkCyclicError", unprot[0].lineno]))
    r.require_floor(24)
    return r


# ---------------------------------------------------------------------------
def rule_greenlet(repo):
    r = RuleResult('R-C02-greenlet', "wrapping blocks in greenlets renames both ends of every constraint and every vertex consistently")
    m = repo.mod(GREEN)
    f = m.get_func('WrapGreenletPass.wrap_greenlet')
    FN = 'WrapGreenletPass.wrap_greenlet'
    lp = [s for s in f.body if isinstance(s, ast.For) and norm(s.iter) == 'all_constraints']
    if len(lp) != 1:
        raise AnalysisError(f"{FN}: constraint loop not found")
    lp = lp[0]
    x, y = [norm(e) for e in lp.target.elts]
    # evaluate the loop concretely over the 4 membership cases (and over two constraints, so that loop control matters)
    from sa.listwalk import ListWalk
    bad = None
    for xin in (False, True):
        for yin in (False, True):
            env = {'all_constraints': [('X', 'Y'), ('P', 'Q')], 'greenlet_upblks': set((('X',) if xin else ()) + (('Y',) if yin else ())),
                   'blk_greenlet_mapping': {'X': 'WX', 'Y': 'WY'}, 'new_constraints': set()}
            w = ListWalk(set(), env=env, budget=2000)
            try:
                w.block([lp])
            except AnalysisError as e:
                raise AnalysisError(f"{FN}: {e}")
            except Exception as e:          # noqa: BLE001 -- the loop itself fails on this case (e.g. a wrapped block looked up again)
                w.env['new_constraints'] = {(f"raises {e.__class__.__name__}", str(e))}
            r.evaluations += 1
            out = sorted(w.env['new_constraints'])
            want = sorted([(('WX' if xin else 'X'), ('WY' if yin else 'Y')), ('P', 'Q')])
            if out != want and bad is None:
                bad = (xin, yin, out, want)
    cons = f"for ({x}, {y}) in all_constraints: remap wrapped ends; new_constraints.add(({x}, {y}))"
    if bad:
        r.bad(m, FN, cons, f"with {x} wrapped={bad[0]} and {y} wrapped={bad[1]} the constraints (X, Y), (P, Q) become {bad[2]} instead of {bad[3]}: "
              f"an edge between two greenlet-wrapped blocks points at a vertex that no longer exists and is dropped by every scheduler", lp.lineno)
    else:
        r.ok(m, FN, cons)
    vl = [s for s in f.body if isinstance(s, ast.For) and norm(s.iter) == 'all_upblks']
    ok = len(vl) == 1
    detail = ''
    if ok:
        blk = norm(vl[0].target)
        for member in (False, True):
            rec = {'verts': [], 'map': {}}

            def hook(ev, call, rec=rec):
                if norm(call.func) == 'wrap_greenlet' and len(call.args) == 1:
                    return 'W' + str(ev.ev(call.args[0]))
                if norm(call.func) == 'new_upblks.add':
                    rec['verts'].append(ev.ev(call.args[0]))
                    return None
                return NotImplemented

            def store(ev, tgt, val, rec=rec):
                if isinstance(tgt, ast.Subscript) and norm(tgt.value) == 'blk_greenlet_mapping':
                    rec['map'][ev.ev(tgt.slice)] = val
                    return True
                return False
            ev = Evaluator({blk: 'B', 'greenlet_upblks': ('B',) if member else ()}, arith=False, call_hook=hook, store_hook=store)
            ev._block(vl[0].body)
            r.evaluations += 1
            want_v, want_m = (['WB'], {'B': 'WB'}) if member else (['B'], {})
            if rec['verts'] != want_v or rec['map'] != want_m:
                ok = False
                detail = f"block in greenlet_upblks={member}: vertices {rec['verts']}, mapping {rec['map']}"
    (r.ok if ok else r.bad)(m, FN, 'every block stays a vertex (wrapped or as is) and the mapping records the wrapper',
                            *([] if ok else ["vertices and the constraint remapping use different mappings: " + detail, f.lineno]))
    pub = {norm(s.targets[0]): norm(s.value) for s in f.body if isinstance(s, ast.Assign)}
    ok = pub.get('top._dag.final_upblks') == 'new_upblks' and pub.get('top._dag.all_constraints') == 'new_constraints'
    (r.ok if ok else r.bad)(m, FN, 'final_upblks / all_constraints replaced together',
                            *([] if ok else ["the renamed vertex set and the renamed constraints are not both published", f.lineno]))
    r.require_floor(3)
    return r


def rule_novar_cycle(repo):
    r = RuleResult('R-C02-novar-cycle', "a cyclic group of blocks that shares no value-carrying signal is rejected, not scheduled arbitrarily")
    for rel, q in ((DYN, 'DynamicSchedulePass.schedule_intra_cycle'), (MAMBA, 'Mamba2020Pass.schedule_intra_cycle.compile_scc')):
        m = repo.mod(rel)
        f = m.get_func(q)
        ifs = [s for s in ast.walk(f) if isinstance(s, ast.If) and norm(s.test) in ('len(variables) == 0', 'not variables')]
        ok = len(ifs) == 1 and any(isinstance(x, ast.Raise) and isinstance(x.exc, ast.Call) and norm(x.exc.func) == 'UpblkCyclicError' for x in ifs[0].body)
        if ok:
            # it dominates the generation of the super block
            gen = [c for c in ast.walk(f) if isinstance(c, ast.Call) and norm(c.func) in ('gen_wrapped_SCCblk', 'custom_exec')]
            ok = bool(gen) and all(c.lineno > ifs[0].lineno for c in gen)
            # variables = union over ALL edges inside the scc
            lp = [s for s in ast.walk(f) if isinstance(s, ast.For) and norm(s.iter) == 'E' and
                  any(isinstance(c, ast.Call) and norm(c.func) == 'variables.update' for c in ast.walk(s))]
            ok = ok and len(lp) == 1
            if ok:
                u, v = [norm(e) for e in lp[0].target.elts]
                b = lp[0].body
                ok = len(b) == 1 and isinstance(b[0], ast.If) and isinstance(b[0].test, ast.BoolOp) and \
                    sorted(norm(x) for x in b[0].test.values) == sorted([f"{u} in scc", f"{v} in scc"]) and \
                    norm(b[0].body[0]) == f"variables.update(constraint_objs[{u}, {v}])"
        (r.ok if ok else r.bad)(m, q, "variables = ∪ constraint_objs[(u,v)] over all edges inside the SCC; empty -> UpblkCyclicError",
                                *([] if ok else ["a cycle without value-carrying signals is not rejected before the SCC block is generated "
                                                 "(or the variable set ignores some edges of the SCC)", f.lineno]))
    r.require_floor(2)
    return r


def rule_cache_scope(repo):
    r = RuleResult('R-C02-cache-scope', "read/write metadata cached per update-block name belongs to the exact class that defines the "
                                        "block (a subclass redefining a block name must not reuse the parent's metadata)")
    m = repo.mod(L2)
    f = m.get_func('ComponentLevel2._cache_func_meta')
    caches = ('_name_info', '_name_rd', '_name_wr', '_name_fc')
    creates = [s for s in ast.walk(f) if isinstance(s, ast.Assign) and any(isinstance(t, ast.Attribute) and t.attr in caches for t in s.targets)]
    if len(creates) < 4:
        raise AnalysisError("anchor vanished: per-class metadata caches in _cache_func_meta")
    # how is presence of the cache decided?  accepted: membership test in cls.__dict__ / vars(cls); rejected: attribute access
    # on the class guarded by try/except or hasattr/getattr (these follow inheritance)
    c0 = creates[0]
    gs = guards_of(c0)
    own = [g for g in gs if g.kind == 'if' and isinstance(g.test, ast.Compare) and len(g.test.ops) == 1 and
           isinstance(g.test.ops[0], (ast.In, ast.NotIn)) and norm(g.test.comparators[0]) in ('cls.__dict__', 'vars(cls)', 's.__class__.__dict__')
           and norm(g.test.left).strip("'\"") in caches and (isinstance(g.test.ops[0], ast.NotIn) == g.polarity)]
    inherited = [g for g in gs if g.kind == 'except'] or [g for g in gs if g.kind == 'if' and ('hasattr' in norm(g.test) or 'getattr' in norm(g.test))]
    cons = f"creation of {', '.join(caches)} on the class"
    if own:
        r.ok(m, 'ComponentLevel2._cache_func_meta', cons + f" guarded by `{norm(own[0].test)}`")
    elif inherited:
        r.bad(m, 'ComponentLevel2._cache_func_meta', cons, "the cache is looked up by attribute access on the class, which follows inheritance: "
              "class B(A) redefining update block `up` reuses A's read/write sets for it (missing constraints; registers written by B.up are "
              "never double-buffered)", c0.lineno)
    else:
        r.bad(m, 'ComponentLevel2._cache_func_meta', cons, "cannot see a test that the cache dictionaries belong to this exact class", c0.lineno)
    # a cached entry is reused only under `name in name_info` of that per-class dict; lambdas (given) always overwrite
    reuse = [s for s in ast.walk(f) if isinstance(s, ast.If) and norm(s.test) == 'given is not None']
    ok = len(reuse) == 1 and len(reuse[0].orelse) == 1 and isinstance(reuse[0].orelse[0], ast.If) and \
        norm(reuse[0].orelse[0].test) == 'name not in name_info'
    (r.ok if ok else r.bad)(m, 'ComponentLevel2._cache_func_meta', 'parse unless `name in name_info`; generated (lambda) blocks always re-parsed',
                            *([] if ok else ["metadata reuse condition changed: a stale entry may be used for a different block", f.lineno]))
    r.require_floor(2)
    return r


def rule_methods(repo):
    r = RuleResult('R-C02-methods', "method ordering constraints are propagated along the whole M(x)<M(y) chain and oriented predecessor-first")
    m = repo.mod(GENDAG)
    f = m.get_func('GenDAGPass._process_methods')
    FN = 'GenDAGPass._process_methods'
    loops = {}
    for lp in ast.walk(f):
        if isinstance(lp, ast.For) and isinstance(lp.iter, ast.Subscript) and norm(lp.iter.value) in ('pred', 'succ') and norm(lp.target) == 'v':
            loops[norm(lp.iter.value)] = lp
    if set(loops) != {'pred', 'succ'}:
        raise AnalysisError(f"{FN}: predecessor / successor traversal loops not found")
    for d, lp in loops.items():
        u = norm(lp.iter.slice)
        sign = -1 if d == 'pred' else 1
        # direction guard of the whole loop
        dg = [g for g in guards_of(lp) if g.kind == 'if' and norm(g.test) in ('w <= 0', 'w >= 0', 'w < 1', 'w > -1')]
        want = ('w <= 0', 'w < 1') if d == 'pred' else ('w >= 0', 'w > -1')
        ok = len(dg) == 1 and norm(dg[0].test) in want and dg[0].polarity
        (r.ok if ok else r.bad)(m, FN, f"{d}[{u}] is explored only in direction {sign} (or undetermined)",
                                *([] if ok else [f"the {d} traversal runs in the wrong search direction", lp.lineno]))
        # continuation: push (v, sign) for every non-block neighbour not yet visited
        pushes = [c for c in ast.walk(lp) if isinstance(c, ast.Call) and norm(c.func) == 'Q.append' and isinstance(c.args[0], ast.Tuple)
                  and norm(c.args[0].elts[0]) == 'v']
        cons = f"{d}: continue the search at every neighbouring method: Q.append((v, {sign}))"
        if len(pushes) != 1 or norm(pushes[0].args[0].elts[1]) != str(sign):
            r.bad(m, FN, cons, "the search is not continued in the same direction at the neighbouring method", lp.lineno)
        else:
            gs = [g for g in guards_of(pushes[0]) if g.kind in ('if', 'exit') and any(x is g.node for x in ast.walk(lp))]
            allowed = {('v in all_upblks', False), (f"(v, {sign}) not in visited", True), (f"(v, {sign}) in visited", False)}
            extra = [(norm(g.test), g.polarity) for g in gs if (norm(g.test), g.polarity) not in allowed]
            if extra:
                r.bad(m, FN, cons, f"the continuation is skipped under `{extra[0][0]}`: a chain M(a) < M(b) < M(c) whose middle method is "
                      f"not called by any update block no longer orders the blocks calling a and c", pushes[0].lineno)
            else:
                r.ok(m, FN, cons)
        # orientation of the added constraints
        adds = [c for c in ast.walk(lp) if isinstance(c, ast.Call) and norm(c.func) == 'top._dag.all_constraints.add']
        if len(adds) != 2:
            r.bad(m, FN, f"{d}: constraints added", f"expected the block-neighbour and the method-neighbour constraint, found {len(adds)}", lp.lineno)
        for c in adds:
            a, b = [norm(e) for e in c.args[0].elts]
            ok = (b == 'blk' and a in ('v', 'vb')) if d == 'pred' else (a == 'blk' and b in ('v', 'vb'))
            gs = {t for t, pol in guard_atoms(c, stop=lp) if pol} | {f"not ({t})" for t, pol in guard_atoms(c, stop=lp) if not pol}
            ok = ok and any(t in (f"{a} != {b}", f"{b} != {a}", f"not ({a} == {b})", f"not ({b} == {a})") for t in gs)
            (r.ok if ok else r.bad)(m, FN, f"{d}: all_constraints.add(({a}, {b}))",
                                    *([] if ok else [f"a constraint found through a {'predecessor' if d == 'pred' else 'successor'} method must be "
                                                     f"{'(other, blk)' if d == 'pred' else '(blk, other)'} and exclude self pairs", c.lineno]))
    r.require_floor(8)
    return r


def rule_index_scope(repo):
    """A name used as list index / slice bound is treated as a per-instance constant when it is a global or closure variable.
    A name bound inside the block (loop variable, temporary) must never be resolved that way: it denotes every index."""
    r = RuleResult('R-C02-index-scope', "a block-local name (loop variable) used as an index stands for all elements, even when a global of "
                                        "the same name exists")
    m = repo.mod(ASTH)
    base = m.methods('DetectVarNames')
    copies = [v for k, v in base.items() if k.startswith('_get_full_name')]
    if not copies:
        raise AnalysisError("anchor vanished: DetectVarNames._get_full_name*")
    init = base.get('__init__')
    has_locals = init is not None and any(isinstance(a, ast.Assign) and norm(a.targets[0]) == 'self.locals' and 'co_varnames' in norm(a.value)
                                          for a in ast.walk(init))
    n = 0
    for f in copies:
        for t in ast.walk(f):
            # every test `x in self.globals` that turns a name into a constant
            if isinstance(t, ast.If) and isinstance(t.test, ast.Compare) and len(t.test.ops) == 1 and isinstance(t.test.ops[0], ast.In) \
                    and norm(t.test.comparators[0]) == 'self.globals':
                n += 1
                x = norm(t.test.left)
                gs = guards_of(t)
                shadow = [g for g in gs if g.kind in ('if', 'exit') and norm(g.test) in (f"{x} in self.locals", f"{x} not in self.locals")]
                okg = any((norm(g.test) == f"{x} in self.locals" and g.polarity is False) or
                          (norm(g.test) == f"{x} not in self.locals" and g.polarity is True) for g in shadow)
                cons = f"{f.name}: `{norm(t.test)}` -> constant"
                # Python resolves the enclosing scope before module globals: the closure test must have failed already
                clo = any(norm(g.test) == f"{x} in self.closure" and g.polarity is False for g in gs if g.kind in ('if', 'exit')) or \
                    any(norm(g.test) == f"{x} not in self.closure" and g.polarity is True for g in gs if g.kind in ('if', 'exit'))
                if okg and has_locals and not clo:
                    r.bad(m, f"DetectVarNames.{f.name}", cons,
                          f"`{x}` is looked up in the module globals before the block's closure variables: a constructor parameter that has "
                          f"the same name as a module-level global is resolved to the GLOBAL's value -- the wrong list element is recorded", t.lineno)
                elif okg and has_locals:
                    r.ok(m, f"DetectVarNames.{f.name}", cons)
                else:
                    r.bad(m, f"DetectVarNames.{f.name}", cons,
                          f"`{x}` is resolved as a global constant without first excluding names bound inside the block "
                          f"(upblk.__code__.co_varnames): with a module-level `i = 1`, `for i in range(4): s.regs[i] <<= ...` records only "
                          f"regs[1] as written -- missing constraints, registers never double-buffered", t.lineno)
    if n < 3:
        raise AnalysisError("index-constant resolution sites not found")
    # the parsed names are cached per CLASS: a global / closure name must be recorded symbolically ((is_closure, name)) and resolved
    # per instance at elaboration; reading its VALUE while parsing freezes the first instance's (first design's) value
    for f in copies:
        me = f.args.args[0].arg
        reads = [x for x in ast.walk(f) if isinstance(x, ast.Subscript) and norm(x.value) in (f"{me}.globals", f"{me}.closure")] + \
                [x for x in ast.walk(f) if isinstance(x, ast.Call) and isinstance(x.func, ast.Attribute) and x.func.attr == 'get'
                 and norm(x.func.value) in (f"{me}.globals", f"{me}.closure")]
        cons = f"{f.name}: index names are recorded symbolically"
        if reads:
            r.bad(m, f"DetectVarNames.{f.name}", cons, f"`{norm(reads[0])}` reads the VALUE of a global / closure name while parsing; the result is "
                  f"cached per class (cls._name_rd / _name_wr), so every later instance -- and every later design built in the same process "
                  f"after the constant changed -- reuses the first value: the wrong list element is recorded as written / double-buffered",
                  reads[0].lineno)
        else:
            r.ok(m, f"DetectVarNames.{f.name}", cons)
    # per-subscript state: a local that the branches of one loop iteration set conditionally and that is used afterwards must get
    # its default at the top of EVERY iteration (a default hoisted out of the loop leaks the previous subscript's value)
    for f in copies:
        for lp in [n for n in ast.walk(f) if isinstance(n, (ast.While, ast.For))]:
            top_assigned = {}
            for i, st in enumerate(lp.body):
                if isinstance(st, ast.Assign):
                    for t in st.targets:
                        for e in ([t] if isinstance(t, ast.Name) else (t.elts if isinstance(t, ast.Tuple) else [])):
                            if isinstance(e, ast.Name):
                                top_assigned.setdefault(e.id, i)
            cond = {}
            for i, st in enumerate(lp.body):
                if isinstance(st, (ast.Assign, ast.AugAssign)):
                    continue
                for n2 in ast.walk(st):
                    if isinstance(n2, ast.Name) and isinstance(n2.ctx, ast.Store):
                        cond.setdefault(n2.id, i)
            test_names = {x.id for x in ast.walk(lp.test) if isinstance(x, ast.Name)} if isinstance(lp, ast.While) else \
                {x.id for x in ast.walk(lp.target) if isinstance(x, ast.Name)}
            for name, first_cond in sorted(cond.items()):
                # reads that rely on a value set by an EARLIER statement of the iteration (a read preceded by a store inside its own
                # compound statement is local to that statement)
                reads = [i for i, st in enumerate(lp.body)
                         if any(isinstance(n2, ast.Name) and n2.id == name and isinstance(n2.ctx, ast.Load) for n2 in ast.walk(st))
                         and not _defined_before_use_within(st, name)]
                if not reads or name in test_names:
                    continue
                selfref = any(isinstance(n2, (ast.Assign, ast.AugAssign)) and
                              (isinstance(n2, ast.AugAssign) or any(isinstance(z, ast.Name) and z.id == name for z in ast.walk(n2.value))) and
                              any(isinstance(t, ast.Name) and t.id == name for t in (n2.targets if isinstance(n2, ast.Assign) else [n2.target]))
                              for n2 in ast.walk(lp))
                if selfref:
                    continue
                # a name (re)defined before its first use inside the same nested statement is local to that statement
                local_only = all(first_cond == i for i in reads) and False
                cons = f"{f.name}: per-iteration default of `{name}` (loop at +{lp.lineno - f.lineno})"
                if name in top_assigned and top_assigned[name] <= min(first_cond, min(reads)):
                    r.ok(m, f"DetectVarNames.{f.name}", cons)
                elif min(reads) >= first_cond and not any(i > first_cond for i in reads) and name not in top_assigned and \
                        _defined_before_use_within(lp.body[first_cond], name):
                    continue      # set and used inside one branch only
                else:
                    r.bad(m, f"DetectVarNames.{f.name}", cons,
                          f"`{name}` is set only under conditions inside the loop and has no unconditional default at the top of the iteration: "
                          f"a subscript that matches none of the conditions (a non-constant index) inherits the value of the PREVIOUS "
                          f"subscript (s.out[i][1] is recorded as s.out[1][1])", lp.lineno)
    r.require_floor(4)
    return r


def _defined_before_use_within(st, name):
    """inside the compound statement `st`, every read of `name` is preceded (in source order, same branch) by a store of it"""
    stores = sorted((n.lineno, n.col_offset) for n in ast.walk(st) if isinstance(n, ast.Name) and n.id == name and isinstance(n.ctx, ast.Store))
    loads = sorted((n.lineno, n.col_offset) for n in ast.walk(st) if isinstance(n, ast.Name) and n.id == name and isinstance(n.ctx, ast.Load))
    return bool(stores) and all(any(s_ < l for s_ in stores) for l in loads)


def _ancestors(n):
    p = getattr(n, '_parent', None)
    while p is not None:
        yield p
        p = getattr(p, '_parent', None)


def rule_constraint_entry(repo):
    """How explicit constraints enter the graph: the sign recorded for RD/WR(x) vs U(blk), and the normalisation of method
    operands, decide which way round an edge is built later."""
    r = RuleResult('R-C02-constraint-entry', "add_constraints records RD/WR(x) < U(b) with sign +1 and U(b) < RD/WR(x) with sign -1 under x "
                                             "(the convention GenDAGPass decodes); every operand of a method constraint is normalised to the "
                                             "underlying method by the same case split")
    m = repo.mod(L2)
    f = m.get_func('ComponentLevel2.add_constraints')
    fq = 'ComponentLevel2.add_constraints'
    loops = [n for n in f.body if isinstance(n, ast.For)]
    if len(loops) != 1 or not isinstance(loops[0].target, ast.Tuple) or len(loops[0].target.elts) != 3:
        raise AnalysisError(f"{fq}: loop over (x0, x1, is_equal) not found")
    a0, a1, aeq = [norm(e) for e in loops[0].target.elts]
    kinds = {'U': ('U',), 'RD': ('RD', 'ValueConstraint'), 'WR': ('WR', 'ValueConstraint')}
    tags = {}
    for cls in ('U', 'RD', 'WR', 'ValueConstraint'):
        tags[cls] = (lambda v, cls=cls: isinstance(v, Obj) and cls in kinds[v.tag])
    tags['(RD, WR)'] = tags['(WR, RD)'] = lambda v: isinstance(v, Obj) and v.tag in ('RD', 'WR')
    # simple constants bound before the loop are visible in every iteration (and carry over between iterations)
    pre_env = {}
    for st in f.body[:f.body.index(loops[0])]:
        if isinstance(st, ast.Assign) and len(st.targets) == 1 and isinstance(st.targets[0], ast.Name) and isinstance(st.value, ast.Constant):
            pre_env[st.targets[0].id] = st.value.value
    for vk, left_is_value, first_left in [(a, b, c) for a in ('RD', 'WR') for b in (True, False) for c in (None, True, False)]:
        if True:
            rec = []

            def hook(ev, call, rec=rec):
                fn = call.func
                if isinstance(fn, ast.Attribute) and fn.attr == 'add' and isinstance(fn.value, ast.Subscript):
                    rec.append((norm(fn.value.value), ev.ev(fn.value.slice), ev.ev(call.args[0])))
                    return None
                if isinstance(fn, ast.Attribute) and fn.attr == 'add':
                    rec.append((norm(fn.value), None, ev.ev(call.args[0])))
                    return None
                return NotImplemented

            def leaf(e):
                if isinstance(e, ast.Subscript) and norm(e.value).endswith('_constraints'):
                    return ()
                if isinstance(e, ast.Attribute) and norm(e).endswith('_constraints'):
                    return ()
                return NotImplemented
            V, Ub = Obj(vk, var='X'), Obj('U', func='BLK')
            env = dict(pre_env)
            ev = Evaluator(env, arith=True, isinstance_tags=tags, call_hook=hook, leaf=leaf)
            if first_left is not None:
                # an earlier constraint of the same add_constraints(...) call: loop-carried state must not leak into the next one
                V0, U0 = Obj('RD', var='P'), Obj('U', func='Q')
                ev.env.update({a0: V0 if first_left else U0, a1: U0 if first_left else V0, aeq: False})
                ev.run(loops[0].body)
                rec.clear()
            ev.env.update({a0: V if left_is_value else Ub, a1: Ub if left_is_value else V, aeq: False})
            out = ev.run(loops[0].body)
            r.evaluations += 1
            want_sign = 1 if left_is_value else -1
            spelled = f"{vk}(x) < U(b)" if left_is_value else f"U(b) < {vk}(x)"
            if first_left is not None:
                spelled += f" after {'RD(p) < U(q)' if first_left else 'U(q) < RD(p)'} in the same call"
            ok = out[0] == 'fall' and len(rec) == 1 and rec[0][0].endswith(f"{vk}_U_constraints") and rec[0][1] == 'X' and rec[0][2] == (want_sign, 'BLK')
            (r.ok if ok else r.bad)(m, fq, f"{spelled} -> {vk}_U_constraints[x] gets ({want_sign:+d}, b)",
                                    *([] if ok else [f"`{spelled}` is recorded as {rec if rec else out}: GenDAGPass reads sign +1 as 'the block accessing x runs "
                                                     f"before b' -- the constraint is built the wrong way round (or under the wrong table / key)", f.lineno]))
    # how `a < b` / `a > b` between U / M / RD / WR objects enters add_constraints: (first, second, is_equal) with first running
    # BEFORE second -- `a > b` must therefore swap its operands, in every constraint class
    cm = repo.mod('pymtl3/dsl/ConstraintTypes.py')
    n_ops = 0
    for cname in ('FuncConstraint', 'ValueConstraint'):
        meths = cm.methods(cname)
        for op, want in (('__lt__', ('self', 'other')), ('__gt__', ('other', 'self'))):
            g_ = meths.get(op)
            if g_ is None:
                r.bad(cm, f"{cname}.{op}", f"{cname}.{op}", f"{cname} no longer defines {op}: `RD(x) {'<' if op == '__lt__' else '>'} U(b)` falls back to Python's "
                      f"reflected comparison of the other operand", 0)
                continue
            n_ops += 1
            a_self, a_other = [a.arg for a in g_.args.args][:2]
            rets = [n for n in ast.walk(g_) if isinstance(n, ast.Return) and n.value is not None]
            ok = len(rets) == 1 and isinstance(rets[0].value, ast.Tuple) and len(rets[0].value.elts) == 3 and \
                [norm(e) for e in rets[0].value.elts[:2]] == [{'self': a_self, 'other': a_other}[w_] for w_ in want] and \
                norm(rets[0].value.elts[2]) == 'False'
            sym = '<' if op == '__lt__' else '>'
            (r.ok if ok else r.bad)(cm, f"{cname}.{op}", f"a {sym} b -> ({want[0]}, {want[1]}, False)",
                                    *([] if ok else [f"`a {sym} b` is handed to add_constraints as {norm(rets[0].value) if rets else '?'}: the pair must name the "
                                                     f"operand that runs FIRST first ({want[0]}, {want[1]}), or every constraint written with `{sym}` is "
                                                     f"recorded the wrong way round", g_.lineno]))
    if n_ops < 4:
        raise AnalysisError("ConstraintTypes: the comparison operators of the constraint classes were not found")
    # the tables the constraints are recorded in are separate objects: `a = b = defaultdict(set)` makes RD and WR constraints one
    # table (every WR(x) < U(b) is then also applied to the readers of x)
    n_tab = 0
    for k in range(1, 8):
        rel = f'pymtl3/dsl/ComponentLevel{k}.py'
        if not repo.exists(rel):
            continue
        dm = repo.mod(rel)
        for name, g_ in dm.methods(f'ComponentLevel{k}').items():
            for st in ast.walk(g_):
                if not isinstance(st, ast.Assign):
                    continue
                tabs = [t for t in st.targets if isinstance(t, ast.Attribute) and isinstance(t.value, ast.Attribute) and t.value.attr == '_dsl']
                if not tabs:
                    continue
                v = st.value
                mutable = isinstance(v, (ast.Dict, ast.Set, ast.List, ast.ListComp, ast.DictComp, ast.SetComp)) or \
                    (isinstance(v, ast.Call) and norm(v.func).split('.')[-1] in ('dict', 'set', 'list', 'defaultdict', 'deque', 'OrderedDict'))
                if not mutable:
                    # a table bound to another table of the same object is the same aliasing, spelled in two statements
                    if isinstance(v, ast.Attribute) and isinstance(v.value, ast.Attribute) and v.value.attr == '_dsl' and \
                            norm(v.value.value) == norm(tabs[0].value.value) and name == '__new__':
                        r.bad(dm, f"ComponentLevel{k}.{name}", norm(st), f"`{norm(tabs[0])}` is bound to the object of `{norm(v)}`: what is recorded in one "
                              f"table appears in the other", st.lineno)
                    continue
                n_tab += 1
                if len(st.targets) > 1:
                    r.bad(dm, f"ComponentLevel{k}.{name}", norm(st)[:100], f"{' and '.join(norm(t) for t in st.targets)} are ONE {norm(v)} object: what is "
                          f"recorded in one table appears in the other (RD constraints applied to writers and vice versa, update blocks listed as "
                          f"update_ff blocks, ...)", st.lineno)
                else:
                    r.ok(dm, f"ComponentLevel{k}.{name}", f"{norm(st.targets[0])} = fresh {norm(v)[:30]}", nontrivial=False)
    if n_tab < 20:
        raise AnalysisError(f"per-component tables created in ComponentLevel*: found {n_tab}, expected at least 20")
    # operand normalisation in GenDAGPass._process_methods
    gm = repo.mod(GENDAG)
    g = gm.get_func('GenDAGPass._process_methods')
    chains = []
    for n in ast.walk(g):
        if isinstance(n, ast.If) and isinstance(n.test, ast.Call) and norm(n.test.func) == 'isinstance' and isinstance(n.test.args[0], ast.Name) \
                and not (isinstance(getattr(n, '_parent', None), ast.If) and n in n._parent.orelse and len(n._parent.orelse) == 1):
            v = n.test.args[0].id
            arms, cur, dst = [], n, None
            okshape = True
            while True:
                if not (len(cur.body) == 1 and isinstance(cur.body[0], ast.Assign) and isinstance(cur.body[0].targets[0], ast.Name)):
                    okshape = False
                    break
                dst = cur.body[0].targets[0].id
                classes = cur.test.args[1].elts if isinstance(cur.test.args[1], ast.Tuple) else [cur.test.args[1]]
                arms.append((tuple(sorted(norm(c) for c in classes)), re.sub(rf"\b{v}\b", '$', norm(cur.body[0].value))))
                if len(cur.orelse) == 1 and isinstance(cur.orelse[0], ast.If) and isinstance(cur.orelse[0].test, ast.Call) \
                        and norm(cur.orelse[0].test.func) == 'isinstance' and norm(cur.orelse[0].test.args[0]) == v:
                    cur = cur.orelse[0]
                    continue
                if len(cur.orelse) == 1 and isinstance(cur.orelse[0], ast.Assign):
                    arms.append((('<else>',), re.sub(rf"\b{v}\b", '$', norm(cur.orelse[0].value))))
                elif cur.orelse:
                    okshape = False
                break
            if okshape and any('.method' in a[1] for a in arms):
                chains.append((n, v, arms))
    if len(chains) < 4:
        raise AnalysisError(f"GenDAGPass._process_methods: expected the operand normalisations of `==` and `<` method constraints (4), found {len(chains)}")
    ref = None
    from collections import Counter
    cnt = Counter(tuple(a) for _, _, a in chains)
    ref = cnt.most_common(1)[0][0]
    for n, v, arms in chains:
        ok = tuple(arms) == ref
        (r.ok if ok else r.bad)(gm, 'GenDAGPass._process_methods', f"operand `{v}` normalised by {[a[0] for a in arms]}",
                                *([] if ok else [f"operand `{v}` is normalised by a different case split than its siblings ({[a[0] for a in ref]}): an interface "
                                                 f"of the missing kind on this side of a constraint is compared as the interface object itself and never "
                                                 f"matches the method the blocks call -- the ordering constraint is silently lost", n.lineno]))
    # constraints exported for top-level callee ports: inside `for zz in equiv[W]` the pair is the plain pair with W replaced by zz
    recv = set()
    for n in ast.walk(g):
        if isinstance(n, ast.Assign) and (any(norm(t).endswith('top_level_callee_constraints') for t in n.targets)
                                          or norm(n.value).endswith('top_level_callee_constraints')):
            recv |= {t.id for t in n.targets if isinstance(t, ast.Name)}       # local alias of the exported set
    adds = [c for c in ast.walk(g) if isinstance(c, ast.Call) and isinstance(c.func, ast.Attribute) and c.func.attr == 'add'
            and (norm(c.func.value).endswith('top_level_callee_constraints') or norm(c.func.value) in recv) and c.args
            and isinstance(c.args[0], ast.Tuple) and len(c.args[0].elts) == 2]
    plain = [c for c in adds if not any(isinstance(a, ast.For) and norm(a.iter).startswith('equiv[') for a in _ancestors(c))]
    if not plain:
        raise AnalysisError("GenDAGPass._process_methods: the plain top-level callee constraint was not found")
    base = tuple(norm(e) for e in plain[0].args[0].elts)
    for c in adds:
        loops = [a for a in _ancestors(c) if isinstance(a, ast.For) and norm(a.iter).startswith('equiv[')]
        if not loops:
            ok, want = tuple(norm(e) for e in c.args[0].elts) == base, base
        else:
            W, V = norm(loops[0].iter)[len('equiv['):-1], norm(loops[0].target)
            want = tuple(V if x == W else x for x in base)
            ok = tuple(norm(e) for e in c.args[0].elts) == want and W in base
        (r.ok if ok else r.bad)(gm, 'GenDAGPass._process_methods', f"top_level_callee_constraints.add({norm(c.args[0])})",
                                *([] if ok else [f"inside the loop over the equivalence class the exported pair must be {want}: the class member "
                                                 f"(the top-level callee port's method) has to appear in the pair, otherwise the open-loop pass "
                                                 f"cannot map the constraint to a callee and drops it", c.lineno]))
    r.require_floor(18)
    return r


def rule_whole_array(repo):
    """An update block that names a whole list of signals (`for x in s.cube: ...`, `s.regs` passed on) reads / writes every
    signal in it, however deeply the list is nested."""
    from sa.listwalk import ListWalk
    r = RuleResult('R-C02-whole-array', "a reference to an un-indexed array of signals records every element at any nesting depth (1-D .. 4-D, "
                                        "ragged, with empty rows): no element is skipped, so no reader / writer edge is lost")
    m = repo.mod(L2)
    f = m.get_func('ComponentLevel2._elaborate_read_write_func.extract_obj_from_names.lookup_variable')
    fq = 'ComponentLevel2._elaborate_read_write_func.extract_obj_from_names.lookup_variable'
    obj = f.args.args[0].arg
    # the branch taken when the name is exhausted: `if name_depth >= len(obj_name): ... return`
    exh = [n for n in f.body if isinstance(n, ast.If) and 'len(obj_name)' in norm(n.test)]
    if len(exh) != 1:
        raise AnalysisError(f"{fq}: the 'name exhausted' branch was not found")
    body = [st for st in exh[0].body]
    sink = None
    for n in ast.walk(exh[0]):
        if isinstance(n, ast.Call) and isinstance(n.func, ast.Attribute) and n.func.attr in ('add', 'update') and isinstance(n.func.value, ast.Name):
            sink = n.func.value.id
    if sink is None:
        raise AnalysisError(f"{fq}: the set collecting the materialised objects was not found")
    shapes = {
        'single signal': 'a',
        '1-D': ['a', 'b', 'c'],
        '2-D': [['a', 'b'], ['c', 'd']],
        '3-D': [[['a', 'b'], ['c']], [['d'], ['e', 'f']]],
        '4-D': [[[['a'], ['b']]], [[['c']], [['d', 'e']]]],
        'ragged with an empty row': [['a'], [], ['b', 'c']],
        '1-element nest': [[['a']]],
    }

    def leaves(x):
        return [x] if not isinstance(x, list) else [l for y in x for l in leaves(y)]
    for name, shape in shapes.items():
        w = ListWalk({'NamedObject', 'Signal', 'Connectable', 'Component', 'Interface'}, env={obj: shape, sink: set(), 'name_depth': 1, 'obj_name': [('s', [])]})
        try:
            w.block(body)
        except Exception as e:
            if e.__class__.__name__ == '_Return':
                pass
            else:
                raise
        r.evaluations += 1
        got, want = w.env[sink], set(leaves(shape))
        ok = got == want
        (r.ok if ok else r.bad)(m, fq, f"{name}: {len(want)} signal(s)",
                                *([] if ok else [f"a reference to the whole array records {sorted(got)} of {sorted(want)}: the elements "
                                                 f"{sorted(want - got)} are neither read nor written as far as the scheduler knows (no edge, "
                                                 f"no multi-writer check)", exh[0].lineno]))
    r.require_floor(7)
    return r


def rule_const_index(repo):
    """`s.buf[k]` with k a closure / global constant names the element Python's own indexing names: k = -1 is the last element."""
    from sa.listwalk import ListWalk, Raised
    r = RuleResult('R-C02-const-index', "a constant list index (closure / global, also negative) resolves to exactly the element Python's "
                                        "list indexing gives; an index outside the list resolves to nothing")
    m = repo.mod(L2)
    f = m.get_func('ComponentLevel2._elaborate_read_write_func.extract_obj_from_names.expand_array_index')
    fq = 'ComponentLevel2._elaborate_read_write_func.extract_obj_from_names.expand_array_index'
    params = [a.arg for a in f.args.args]
    if len(params) != 5:
        raise AnalysisError(f"{fq}: signature changed ({params})")
    lst = ['e0', 'e1', 'e2']
    for k in (-4, -3, -1, 0, 2, 3):
        got = []

        def lookup_variable(obj, nd, nod, got=got):
            got.append(obj)
        w = ListWalk({'NamedObject', 'Signal'}, env={'objs': set(), '_closure': {'K': k}, '_globals': {}, 'nodelist': [None, None, None],
                                                       'func': 'F', 's': 'S'},
                     funcs={'lookup_variable': lookup_variable, 'expand_array_index': f, 'slice': slice}, assert_raises=True)
        try:
            w.invoke(f, [lst, 1, 1, 0, [(True, 'K')]])
            out = ('resolved', got)
        except Raised as e:
            out = ('raised', e.name)
        r.evaluations += 1
        want = ('resolved', [lst[k]]) if -len(lst) <= k < len(lst) else ('resolved', [])
        ok = out == want
        (r.ok if ok else r.bad)(m, fq, f"index {k} into a list of {len(lst)}",
                                *([] if ok else [f"s.buf[K] with the constant K = {k} gives {out}, Python's indexing gives "
                                                 f"{want[1] if want[1] else 'IndexError (nothing)'}: the element the block really accesses is not the one "
                                                 f"recorded (no edge, not double-buffered)", f.lineno]))
    r.require_floor(6)
    return r


OPENLOOP = 'pymtl3/passes/autotick/OpenLoopCLPass.py'


def rule_openloop_vertices(repo):
    """In the open-loop (auto-tick) flow the vertices of a top-level callee are its port objects, while GenDAGPass states the
    constraints on the raw functions behind them: every port that is a vertex must be reachable through the raw-function map,
    or the constraints that name it are dropped."""
    r = RuleResult('R-C02-openloop-vertices', "every top-level callee port that becomes a vertex of the open-loop schedule (method ports, and "
                                              "both the method and the rdy of non-blocking interfaces) is entered in the raw-function -> port map "
                                              "through which the method constraints are translated")
    m = repo.mod(OPENLOOP)
    f = m.get_func('OpenLoopCLPass.schedule_with_top_level_callee')
    fq = 'OpenLoopCLPass.schedule_with_top_level_callee'
    R = lambda e, at: norm(inline_locals(e, at))
    # the maps that translate constraint operands: `if xx in M: xx = M[xx]` or `xx = M.get(xx, xx)`
    maps = set()
    for n in ast.walk(f):
        if isinstance(n, ast.If) and isinstance(n.test, ast.Compare) and len(n.test.ops) == 1 and isinstance(n.test.ops[0], ast.In) \
                and len(n.body) == 1 and isinstance(n.body[0], ast.Assign) and isinstance(n.body[0].value, ast.Subscript) \
                and norm(n.body[0].value.value) == norm(n.test.comparators[0]) and norm(n.body[0].targets[0]) == norm(n.test.left):
            maps.add(norm(n.test.comparators[0]))
        if isinstance(n, ast.Assign) and isinstance(n.value, ast.Call) and isinstance(n.value.func, ast.Attribute) and n.value.func.attr == 'get' \
                and len(n.value.args) == 2 and len(n.targets) == 1 and isinstance(n.targets[0], ast.Name) \
                and [norm(a) for a in n.value.args] == [n.targets[0].id] * 2:
            maps.add(norm(n.value.func.value))
    stores = [n for n in ast.walk(f) if isinstance(n, ast.Assign) and len(n.targets) == 1 and isinstance(n.targets[0], ast.Subscript)]
    vadds = [c for c in ast.walk(f) if isinstance(c, ast.Call) and norm(c.func) == 'V.add' and c.args]
    all_verts = {R(c.args[0], c) for c in vadds}
    raw_maps = set()
    for mp in maps:
        # keep the map keyed by raw functions: its keys are not themselves vertex expressions
        keys = [R(n.targets[0].slice, n) for n in stores if norm(n.targets[0].value) == mp]
        if keys and not any(k in all_verts for k in keys):
            raw_maps.add(mp)
    if len(raw_maps) != 1:
        raise AnalysisError(f"{fq}: the raw-function -> callee-port map was not identified ({sorted(maps)})")
    M = next(iter(raw_maps))
    loops = [n for n in f.body if isinstance(n, ast.For) and any(any(x is c for x in ast.walk(n)) for c in vadds)]
    if len(loops) < 2:
        raise AnalysisError(f"{fq}: the loops that create the callee vertices were not found")
    for lp in loops:
        # where the top-level callees come from: a design-wide filter that keeps the objects HOSTED by the top component.  A port
        # that sits inside an interface of top has the interface as its parent object, so the parent relation is not the test.
        src = reaching_value(lp.iter.id, lp) if isinstance(lp.iter, ast.Name) else lp.iter
        pred = src.args[0] if isinstance(src, ast.Call) and norm(src.func) == 'top.get_all_object_filter' and len(src.args) == 1 else None
        if isinstance(pred, ast.Name):
            # the predicate as a named local: a `def p(x): return <expr>` of this function or `p = lambda x: <expr>`
            defs = [n for n in ast.walk(f) if isinstance(n, ast.FunctionDef) and n.name == pred.id]
            if len(defs) == 1 and len([st for st in defs[0].body if not (isinstance(st, ast.Expr) and isinstance(st.value, ast.Constant))]) == 1 \
                    and isinstance(defs[0].body[-1], ast.Return) and defs[0].body[-1].value is not None:
                pred = ast.Lambda(args=defs[0].args, body=defs[0].body[-1].value)
            else:
                pred = reaching_value(pred.id, src)
        lam = pred if isinstance(pred, ast.Lambda) else None
        if lam is None:
            raise AnalysisError(f"{fq}: the source of `{norm(lp.iter)}` is not a design-wide filter")
        x = lam.args.args[0].arg
        conj = lam.body.values if isinstance(lam.body, ast.BoolOp) and isinstance(lam.body.op, ast.And) else [lam.body]
        member = [c for c in conj if isinstance(c, ast.Compare) and len(c.ops) == 1 and isinstance(c.ops[0], (ast.Is, ast.Eq)) and
                  'top' in (norm(c.left), norm(c.comparators[0]))]
        rel = [norm(c.left if norm(c.comparators[0]) == 'top' else c.comparators[0]) for c in member]
        ok = rel == [f"{x}.get_host_component()"]
        (r.ok if ok else r.bad)(m, fq, f"source of {norm(lp.iter)}: objects with {rel[0] if rel else '?'} is top",
                                *([] if ok else [f"the callees of the top component are selected by `{rel[0] if rel else norm(lam.body)}`: a callee port inside an "
                                                 f"interface of top (parent object = the interface, host component = top) is not found, gets no vertex and "
                                                 f"no wrapper, and every constraint on it (U(up) < M(ifc.port)) is ignored", lp.lineno]))
        inside = lambda n: any(x is n for x in ast.walk(lp))
        verts = [R(c.args[0], c) for c in vadds if inside(c)]
        entries = [(R(n.targets[0].slice, n), R(n.value, n), n) for n in stores if inside(n) and norm(n.targets[0].value) == M]
        mapped = {v for _, v, _ in entries}
        for v in verts:
            ok = v in mapped
            (r.ok if ok else r.bad)(m, fq, f"vertex `{v}` (loop over {norm(lp.iter)}) is a value of {M}",
                                    *([] if ok else [f"`{v}` is added to the vertex set but never entered in {M}: a constraint stated on the raw function behind "
                                                     f"it (e.g. U(up) < M(ifc.rdy)) is not translated to the vertex and silently dropped -- the rdy is "
                                                     f"evaluated before the block that computes it", lp.lineno]))
            if ok:
                # the key under which it is entered is the raw function of the same port
                for k, val, n in entries:
                    if val == v and k not in (f"get_raw_method({v})", f"{v}.method"):
                        r.bad(m, fq, f"{M}[{norm(n.targets[0].slice)}] = {v}", f"the key `{k}` is not the raw function of `{v}`", n.lineno)
    # position maps: `{ key: i for i, x in enumerate(L) }` gives the position of an element of L only if the key is the element
    # itself -- a name / repr of it is shared by same-named blocks of two instances of one class
    n_maps = 0
    for n in ast.walk(f):
        if isinstance(n, ast.Assign) and isinstance(n.value, ast.DictComp) and len(n.value.generators) == 1:
            g = n.value.generators[0]
            if isinstance(g.iter, ast.Call) and norm(g.iter.func) == 'enumerate' and isinstance(g.target, ast.Tuple) and len(g.target.elts) == 2 \
                    and norm(n.value.value) == norm(g.target.elts[0]):
                n_maps += 1
                elem = norm(g.target.elts[1])
                name = norm(n.targets[0])
                ok = norm(n.value.key) == elem
                (r.ok if ok else r.bad)(m, fq, f"{name} = position of every element of {norm(g.iter.args[0])}, keyed by `{norm(n.value.key)}`",
                                        *([] if ok else [f"the position map is keyed by `{norm(n.value.key)}` instead of the element `{elem}`: two update blocks with the "
                                                         f"same name (two instances of one class) collide, a wrapped method then runs the schedule up to the wrong "
                                                         f"block and a block ordered after the method runs before it", n.lineno]))
                if ok:
                    for u in ast.walk(f):
                        if isinstance(u, ast.Subscript) and norm(u.value) == name and isinstance(u.ctx, ast.Load):
                            k = u.slice
                            bad_key = isinstance(k, ast.Attribute) and k.attr.startswith('__') or (isinstance(k, ast.Call) and norm(k.func) in ('repr', 'str', 'id'))
                            if bad_key:
                                r.bad(m, fq, f"{name}[{norm(k)}]", f"looked up by `{norm(k)}` although the map is keyed by the elements themselves", u.lineno)
    if n_maps < 1:
        raise AnalysisError(f"{fq}: the position map of the method-free schedule was not found")
    r.require_floor(6)
    return r


def _cache_mutations(top):
    """(tainted names, nested walkers reached, [(node, text)]): stores / mutating calls through names derived from the second
    parameter of `top` (iteration, subscripting, unpacking, arguments of the nested functions)"""
    funcs = [n for n in ast.walk(top) if isinstance(n, ast.FunctionDef)]
    byname = {f.name: f for f in funcs if f is not top}
    tainted = {top.args.args[1].arg}

    def is_tainted(e):
        while isinstance(e, (ast.Subscript, ast.Attribute, ast.Starred)):
            e = e.value
        return isinstance(e, ast.Name) and e.id in tainted

    def names_of(t):
        return [n.id for n in ast.walk(t) if isinstance(n, ast.Name) and isinstance(n.ctx, ast.Store)]
    changed = True
    while changed:
        changed = False
        for n in ast.walk(top):
            new = []
            if isinstance(n, ast.For):
                it = n.iter
                if isinstance(it, ast.Call) and norm(it.func) in ('enumerate', 'reversed', 'list', 'iter', 'zip') and it.args:
                    hit = any(is_tainted(a) for a in it.args)
                else:
                    hit = is_tainted(it)
                if hit:
                    new = names_of(n.target)
            elif isinstance(n, ast.Assign) and (is_tainted(n.value) or (isinstance(n.value, ast.Tuple) and any(is_tainted(x) for x in n.value.elts))):
                for t in n.targets:
                    if isinstance(t, (ast.Name, ast.Tuple, ast.List)):
                        new += names_of(t)
            elif isinstance(n, ast.Call) and isinstance(n.func, ast.Name) and n.func.id in byname:
                params = [a.arg for a in byname[n.func.id].args.args]
                for k, a in enumerate(n.args):
                    if k < len(params) and is_tainted(a):
                        new.append(params[k])
                for kw in n.keywords:
                    if kw.arg in params and is_tainted(kw.value):
                        new.append(kw.arg)
            for x in new:
                if x not in tainted:
                    tainted.add(x)
                    changed = True
    deep = sorted(f.name for f in byname.values() if any(a.arg in tainted for a in f.args.args))
    MUT = {'append', 'extend', 'insert', 'pop', 'remove', 'clear', 'sort', 'reverse', 'update', 'add', 'discard', 'setdefault', 'popitem', '__setitem__'}
    out = []
    for n in ast.walk(top):
        if isinstance(n, (ast.Assign, ast.AugAssign, ast.AnnAssign)):
            tg = n.targets if isinstance(n, ast.Assign) else [n.target]
            for t in tg:
                for sub in ([t] if not isinstance(t, (ast.Tuple, ast.List)) else t.elts):
                    if isinstance(sub, (ast.Subscript, ast.Attribute)) and is_tainted(sub.value):
                        out.append((sub, f"`{norm(n)[:90]}` stores into the cached name list"))
        elif isinstance(n, ast.Delete):
            for t in n.targets:
                if isinstance(t, ast.Subscript) and is_tainted(t.value):
                    out.append((t, f"`{norm(n)}` deletes from the cached name list"))
        elif isinstance(n, ast.Call) and isinstance(n.func, ast.Attribute) and n.func.attr in MUT and is_tainted(n.func.value):
            out.append((n, f"`{norm(n)[:90]}` mutates the cached name list"))
    return tainted, deep, out


_CACHE_PROBE = """
def extract_obj_from_names(func, names):
  def walk(obj, depth, idx):
    cur = idx[depth]
    if isinstance(cur, tuple):
      cur = 3
      idx[depth] = cur
  for obj_name, nodelist, op in names:
    field, idx = obj_name[0]
    walk(None, 0, idx)
"""


def rule_cache_readonly(repo):
    """The parsed read/write name lists are cached per CLASS; every instance resolves closure / global index names against its
    own values while walking them.  Writing a resolved value back into the cached structure makes the first instance's value
    the answer for all later instances of the class."""
    r = RuleResult('R-C02-cache-readonly', "the per-class cached name lists are only read while an instance materialises its objects: "
                                           "no store, in-place update or mutating call reaches them")
    m = repo.mod(L2)
    top = m.get_func('ComponentLevel2._elaborate_read_write_func.extract_obj_from_names')
    fq = 'ComponentLevel2._elaborate_read_write_func.extract_obj_from_names'
    # positive example: the detector must recognise a write-back (expected count on the real tree is zero)
    _, pdeep, pout = _cache_mutations(ast.parse(_CACHE_PROBE).body[0])
    if pdeep != ['walk'] or len(pout) != 1:
        raise AnalysisError("R-C02-cache-readonly: embedded positive example not recognised")
    tainted, deep, out = _cache_mutations(top)
    if not deep:
        raise AnalysisError(f"{fq}: the cached name list does not flow into the nested walkers any more (model out of date)")
    for node, text in out:
        r.bad(m, fq, text, "the list belongs to the class-level cache (cls._name_rd / _name_wr): the value resolved for this instance "
              "(closure / global index) is reused by every later instance of the class -- a second instance built with another "
              "parameter is judged (multi-writer, constraints) by the first instance's indices", node.lineno)
    if not out:
        r.ok(m, fq, f"cache-derived names {sorted(tainted)}: read-only in {', '.join(deep)}")
    r.require_floor(1)
    return r


def rule_scc_blocks(repo):
    """cyclic groups are evaluated by generated super-blocks: every block of the group runs in every pass and the pass is repeated
    until every watched variable is stable; a constraint-only cycle is rejected per group (shared with C11: R-C11-template / -watch / -cover / -once)"""
    import rules.c11 as c11
    out = []
    for rl in (c11.rule_template, c11.rule_watch, c11.rule_cover, c11.rule_once):
        res = rl(repo)
        out.extend(res if isinstance(res, list) else [res])
    return out


def rule_replace_keeps_edges(repo):
    """after replace_component the read / write / call sets of the surviving blocks (of every ancestor) must name the new
    component's signals: the writer-before-reader edges are derived from exactly these sets at the next GenDAGPass.  Decided by
    C15 (R-C15-saved).  C15's finding D22 (explicit constraints of the parent that name the replaced child are neither removed
    nor re-targeted) is an ordering matter as well -- "explicit constraints are honoured" -- and is listed for C02 too."""
    from rules.c15 import rule_saved
    return rule_saved(repo)


def rule_bit_and_slice_are_one_node(repo):
    """x[3] and x[3:4] are the same bit: registered as two objects, a block writing one and a block reading the other get no
    writer-before-reader edge (the sibling-overlap step excludes "itself" -- by identity, which only works if one bit range is
    one object) -- decided by C09 (its R-overlap covers slice_overlap / get_sibling_slices together with the slice registry)"""
    from rules.c09 import rule_overlap as c09_overlap
    return c09_overlap(repo)


RULES = [rule_replace_keeps_edges, rule_bit_and_slice_are_one_node, rule_visitor, rule_funcfold, rule_overlap, rule_pairing, rule_netblk, rule_kahn, rule_greenlet, rule_novar_cycle, rule_cache_scope,
         rule_methods, rule_index_scope, rule_scc_blocks, rule_cache_readonly, rule_constraint_entry, rule_whole_array, rule_const_index, rule_openloop_vertices]


def _m(name, file, old, new, rule=None, count=1):
    return dict(name=name, file=file, old=old, new=new, rule=rule, count=count)


MUTANTS = [
    _m('value-constraint-gt-not-swapped', 'pymtl3/dsl/ConstraintTypes.py', "class ValueConstraint:\n  def __init__( self, var ):  self.var = var\n  def __lt__( self, other ):  return (self, other, False)\n  def __gt__( self, other ):  return (other, self, False)\n",
       "class ValueConstraint:\n  def __init__( self, var ):  self.var = var\n  def __lt__( self, other ):  return (self, other, False)\n  def __gt__( self, other ):  return (self, other, False)\n", 'R-C02-constraint-entry'),
    dict(name='simple-scheduler-depth-first-preorder', rule='R-kahn', edits=[
        dict(file=SIMPLE, old="      for v in Es[u]:\n        InD[v] -= 1\n        if not InD[v]:\n          Q.append( v )\n", new="      Q.extend( v for v in Es[u] if v not in update_schedule and v not in Q )\n", count=1)]),
    _m('rd-and-wr-constraint-tables-are-one-object', L2, "    inst._dsl.RD_U_constraints = defaultdict(set)\n    inst._dsl.WR_U_constraints = defaultdict(set)\n", "    inst._dsl.RD_U_constraints = inst._dsl.WR_U_constraints = defaultdict(set)\n", 'R-C02-constraint-entry'),
    dict(name='constraint-sign-default-hoisted-out-of-loop', rule='R-C02-constraint-entry', edits=[
        dict(file=L2, old="        sign = 1 # RD(x) < U is 1, RD(x) > U is -1\n", new="", count=1),
        dict(file=L2, old="    for (x0, x1, is_equal) in args:\n", new="    sign = 1\n    for (x0, x1, is_equal) in args:\n", count=1)]),
    dict(name='openloop-position-map-keyed-by-block-name', rule='R-C02-openloop-vertices', edits=[
        dict(file=OPENLOOP, old="    mapping = { x : i for i, x in enumerate( schedule_no_method ) }\n", new="    mapping = { x.__name__ : i for i, x in enumerate( schedule_no_method ) }\n", count=1),
        dict(file=OPENLOOP, old="        map_next_func = mapping[ schedule[next_func] ]\n", new="        map_next_func = mapping[ schedule[next_func].__name__ ]\n", count=1)]),
    _m('greenlet-second-end-not-remapped-after-first', GREEN, "        x = blk_greenlet_mapping[ x ]\n", "        new_constraints.add( (blk_greenlet_mapping[ x ], y) )\n        continue\n", 'R-C02-greenlet'),
    _m('openloop-callees-by-parent-object', OPENLOOP, "      lambda x: isinstance(x, CalleePort) and x.get_host_component() is top )", "      lambda x: isinstance(x, CalleePort) and x.get_parent_object() is top )", 'R-C02-openloop-vertices'),
    _m('call-base-not-visited', ASTH, "        self.visit( node )\n        return None, None\n", "        return None, None\n", 'R-C02-visitor', count=2),
    _m('slice-bounds-of-call-result-not-visited', ASTH, "    if not obj_name:\n      self.visit( node.slice ) # f( s.a )[ s.i : s.i+4 ] still reads s.i\n      return\n", "    if not obj_name:  return\n", 'R-C02-visitor'),
    _m('args-of-unresolvable-callee-not-visited', ASTH, "    if obj_name:\n      self.calls.append( (obj_name, nodelist, None) )\n", "    if not obj_name:  return\n\n    self.calls.append( (obj_name, nodelist, None) )\n", 'R-C02-visitor'),
    _m('other-base-kinds-silently-nameless', ASTH, "        assert isinstance( node, ast.Str ) # filter out line_trace\n", "        pass\n", 'R-C02-visitor', count=2),
    _m('openloop-rdy-not-mapped', OPENLOOP, "      method_callee_mapping[m] = x.method\n      method_callee_mapping[r] = x.rdy\n", "      method_callee_mapping[m] = x.method\n", 'R-C02-openloop-vertices'),
    _m('openloop-rdy-mapped-under-method-key', OPENLOOP, "      method_callee_mapping[r] = x.rdy\n", "      method_callee_mapping[m] = x.rdy\n", 'R-C02-openloop-vertices'),
    _m('const-index-negative-rejected', L2, "          try:\n            child = obj[ current_idx ]\n          except TypeError: # cannot convert to integer", "          if isinstance( current_idx, int ) and not 0 <= current_idx < len( obj ):\n            return\n          try:\n            child = obj[ current_idx ]\n          except TypeError: # cannot convert to integer", 'R-C02-const-index'),
    _m('explicit-default-direction-not-expanded', GENDAG, "        for (sign, co_blk) in constrained_blks:\n", "        for (sign, co_blk) in constrained_blks:\n\n          if (typ == 'rd') == (sign == -1):\n            continue\n", 'R-C02-pairing'),
    _m('index-default-hoisted-out-of-loop', ASTH, "      num = []\n      while isinstance( node, ast.Subscript ):\n        v = node.slice\n        n = \"*\"\n", "      num = []\n      n   = \"*\"\n      while isinstance( node, ast.Subscript ):\n        v = node.slice\n", 'R-C02-index-scope', count='first'),
    _m('funcfold-path-marker-not-removed', L2, "              dfs( v, stk )\n              del caller[ v ]\n", "              dfs( v, stk )\n", 'R-C02-funcfold'),
    _m('sibling-slices-from-top-level-signal', CONN, "      parent = s.get_parent_object()\n      ret = list(parent._dsl.slices.values())", "      parent = s.get_top_level_signal()\n      ret = list(parent._dsl.slices.values())", 'R-overlap'),
    _m('whole-array-two-levels-only', L2, "            Q = [ *obj ] # PEP 448 -- see https://stackoverflow.com/a/43220129/6470797\n            while Q:\n              m = Q.pop()\n              if isinstance( m, NamedObject ):\n                objs.add( m )\n              elif isinstance( m, list ):\n                Q.extend( m )",
       "            for m in obj:\n              if isinstance( m, NamedObject ):\n                objs.add( m )\n              elif isinstance( m, list ):\n                objs.update( x for x in m if isinstance( x, NamedObject ) )", 'R-C02-whole-array'),
    _m('callee-constraint-class-member-lost', GENDAG, "            top._dag.top_level_callee_constraints.add( (xx, zz) )", "            top._dag.top_level_callee_constraints.add( (xx, yy) )", 'R-C02-constraint-entry'),
    _m('index-global-before-closure', ASTH, "          elif x in self.closure: n = (True, x)\n          elif x in self.globals: n = (False, x)\n", "          elif x in self.globals: n = (False, x)\n          elif x in self.closure: n = (True, x)\n", 'R-C02-index-scope', count='first'),
    _m('index-global-int-folded-at-parse', ASTH, "          elif x in self.globals: n = (False, x)\n", "          elif x in self.globals:\n            n = self.globals[x] if type(self.globals[x]) is int else (False, x)\n", 'R-C02-index-scope', count='first'),
    _m('constraint-sign-after-swap', L2, "        sign = 1 # RD(x) < U is 1, RD(x) > U is -1\n        if isinstance( x1, ValueConstraint ):\n          sign = -1\n          x0, x1 = x1, x0 # Make sure x0 is RD/WR(...) and x1 is U(...)\n",
       "        if isinstance( x1, ValueConstraint ):\n          x0, x1 = x1, x0 # Make sure x0 is RD/WR(...) and x1 is U(...)\n        sign = -1 if isinstance( x0, ValueConstraint ) else 1\n", 'R-C02-constraint-entry'),
    _m('constraint-wr-into-rd-table', L2, "          s._dsl.WR_U_constraints[ x0.var ].add( (sign, x1.func) )", "          s._dsl.RD_U_constraints[ x0.var ].add( (sign, x1.func) )", 'R-C02-constraint-entry'),
    _m('methods-left-operand-no-blocking-ifc', GENDAG, "      elif isinstance( x, (NonBlockingIfc, BlockingIfc) ):\n        xx = x.method.method\n      else:\n        xx = x\n\n      if   isinstance( y, MethodPort ):\n        yy = y.method\n      elif isinstance( y, (NonBlockingIfc, BlockingIfc) ):\n        yy = y.method.method\n      else:\n        yy = y\n\n      pred[",
       "      elif isinstance( x, NonBlockingIfc ):\n        xx = x.method.method\n      else:\n        xx = x\n\n      if   isinstance( y, MethodPort ):\n        yy = y.method\n      elif isinstance( y, (NonBlockingIfc, BlockingIfc) ):\n        yy = y.method.method\n      else:\n        yy = y\n\n      pred[", 'R-C02-constraint-entry'),
    _m('sibling-slices-memoised', CONN, "      parent = s.get_parent_object()\n      ret = list(parent._dsl.slices.values())\n      ret.remove( s )\n      return ret",
       "      try:\n        return s._dsl.sibling_slices\n      except AttributeError:\n        parent = s.get_parent_object()\n        ret = list(parent._dsl.slices.values())\n        ret.remove( s )\n        s._dsl.sibling_slices = ret\n        return ret", 'R-overlap'),
    _m('cache-index-written-back', L2, "            current_idx = _closure[ name ] if is_closure else _globals[ name ]\n          elif isinstance( current_idx, slice ):",
       "            current_idx = _closure[ name ] if is_closure else _globals[ name ]\n            idx[ idx_depth ] = current_idx\n          elif isinstance( current_idx, slice ):", 'R-C02-cache-readonly'),
    _m('pairing-merge-into-detached-copy', GENDAG, "    top._dag.all_constraints = { *U_U }\n    for (x, y) in impl_constraints:\n      if (y, x) not in U_U: # no conflicting expl\n        top._dag.all_constraints.add( (x, y) )",
       "    top._dag.all_constraints = { *U_U }\n    merged = { *U_U }\n    for (x, y) in impl_constraints:\n      if (y, x) not in U_U: # no conflicting expl\n        merged.add( (x, y) )", 'R-C02-pairing'),
    _m('explicit-snapshot-too-early', GENDAG, "    U_U, RD_U, WR_U, U_M         = top.get_all_explicit_constraints()\n", "    U_U, RD_U, WR_U, U_M         = top.get_all_explicit_constraints()\n    top._dag.all_constraints = { *U_U }\n", 'R-C02-pairing'),
    _m('D20-loopvar-resolved-as-global', ASTH, "          if   x in self.locals:  pass\n          elif x in self.closure: n = (True, x)\n          elif x in self.globals: n = (False, x)", "          if   x in self.closure: n = (True, x)\n          elif x in self.globals: n = (False, x)", 'R-C02-index-scope', count=2),
    _m('check-schedule-render-unprotected', SIMPLE, "    try:\n      dump_dag( top, V_leftovers, E_leftovers )\n    except Exception:\n      pass\n", "    dump_dag( top, V_leftovers, E_leftovers )\n", 'R-kahn'),
    _m('methods-continuation-guarded', GENDAG, "              if (v, -1) not in visited:\n                visited.add( (v, -1) )\n                Q.append( (v, -1) )", "              if v in method_blks and (v, -1) not in visited:\n                visited.add( (v, -1) )\n                Q.append( (v, -1) )", 'R-C02-methods'),
    _m('methods-succ-orientation', GENDAG, "                    top._dag.all_constraints.add( (blk, v) )", "                    top._dag.all_constraints.add( (v, blk) )", 'R-C02-methods'),
    _m('methods-wrong-direction', GENDAG, "        if w >= 0:\n          for v in succ[u]:", "        if w <= 0:\n          for v in succ[u]:", 'R-C02-methods'),
    _m('D15-cache-inherited', L2, "    if '_name_info' in cls.__dict__:\n      name_info = cls._name_info\n      name_rd   = cls._name_rd\n      name_wr   = cls._name_wr\n      name_fc   = cls._name_fc\n    else:\n",
       "    try:\n      name_info = cls._name_info\n      name_rd   = cls._name_rd\n      name_wr   = cls._name_wr\n      name_fc   = cls._name_fc\n    except Exception:\n", 'R-C02-cache-scope'),
    _m('cache-hasattr', L2, "    if '_name_info' in cls.__dict__:", "    if hasattr( cls, '_name_info' ):", 'R-C02-cache-scope'),
    _m('D4-kwargs-not-visited', ASTH, "    for x in node.args:\n      self.visit( x )\n    for x in node.keywords:\n      self.visit( x.value )\n", "    for x in node.args:\n      self.visit( x )\n", 'R-C02-visitor'),
    _m('D14-index-expr-not-visited', ASTH, "        else: # arbitrary index expression such as s.x[ s.i + 1 ]\n          self.visit( v )\n\n        num.append(n)\n\n        nodelist.append( node )\n        node = node.value\n\n      if   isinstance", "\n        num.append(n)\n\n        nodelist.append( node )\n        node = node.value\n\n      if   isinstance", 'R-C02-visitor'),
    _m('augassign-value-not-visited', ASTH, "    self.current_op = None\n    self.visit( node.value  )", "    self.current_op = None", 'R-C02-visitor'),
    _m('for-orelse-not-visited', ASTH, "    for stmt in node.orelse:\n      self.visit( stmt )\n\nclass DetectMethodCalls", "\nclass DetectMethodCalls", 'R-C02-visitor'),
    _m('subscript-slice-not-visited', ASTH, "      raise TypeError( f\"Wrong ast node context {type( node.ctx )}\" )\n\n    self.visit( node.slice )", "      raise TypeError( f\"Wrong ast node context {type( node.ctx )}\" )", 'R-C02-visitor'),
    _m('first-stmt-only', ASTH, "  for stmt in tree.body:\n    visitor.enter( stmt, read, write, calls )", "  for stmt in tree.body[:1]:\n    visitor.enter( stmt, read, write, calls )", 'R-C02-visitor'),
    _m('funcfold-wrong-func', L2, "            s._dsl.all_upblk_writes[ blk ] |= m._dsl.func_writes[u]", "            s._dsl.all_upblk_writes[ blk ] |= m._dsl.func_writes[call]", 'R-C02-funcfold'),
    _m('funcfold-memo', L2, "            if u not in m._dsl.func_reads:\n              return\n", "            if u not in m._dsl.func_reads:\n              return\n            if u in s._dsl.all_upblk_hostobj:\n              return\n", 'R-C02-funcfold'),
    _m('funcfold-no-recursion', L2, "              stk.append( v )\n              dfs( v, stk )\n", "              stk.append( v )\n", 'R-C02-funcfold'),
    _m('overlap-off-by-one', CONN, "      else:                   return x.start < y.stop", "      else:                   return x.start < y.stop - 1", 'R-overlap'),
    _m('overlap-le', CONN, "      if x.start <= y.start:  return y.start < x.stop", "      if x.start <= y.start:  return y.start <= x.stop", 'R-overlap'),
    _m('overlap-int-slice', CONN, "    else:                     return y.start <= x < y.stop", "    else:                     return y.start < x < y.stop", 'R-overlap'),
    _m('overlap-containment-only', CONN, "      if x.start <= y.start:  return y.start < x.stop\n      else:                   return x.start < y.stop",
       "      return x.start <= y.start < x.stop or x.start < y.stop <= x.stop", 'R-overlap'),
    _m('pairing-orientation', GENDAG, "                impl_constraints.add( (wr_blk, rd_blk) ) # wr < rd default\n                constraint_objs[ (wr_blk, rd_blk) ].add( obj )\n\n    # Collect all objs that read",
       "                impl_constraints.add( (rd_blk, wr_blk) ) # wr < rd default\n                constraint_objs[ (rd_blk, wr_blk) ].add( obj )\n\n    # Collect all objs that read", 'R-C02-pairing'),
    _m('pairing-cobj-key-swapped', GENDAG, "                  impl_constraints.add( (wr_blk, rd_blk) ) # wr < rd default\n                  constraint_objs[ (wr_blk, rd_blk) ].add( obj )",
       "                  impl_constraints.add( (wr_blk, rd_blk) ) # wr < rd default\n                  constraint_objs[ (rd_blk, wr_blk) ].add( obj )", 'R-C02-pairing'),
    _m('pairing-no-sibling-slices', GENDAG, "          if x.slice_overlap( obj ) and x in write_upblks:", "          if x in write_upblks and False:", 'R-C02-pairing'),
    _m('pairing-first-sibling-only', GENDAG, "          if x.slice_overlap( obj ) and x in write_upblks:\n            writers.append( x )\n",
       "          if x.slice_overlap( obj ) and x in write_upblks:\n            writers.append( x )\n            break\n", 'R-C02-pairing'),
    _m('pairing-parent-walk-stops', GENDAG, "        if x in write_upblks:\n          writers.append( x )\n        x = x.get_parent_object()", "        if x in write_upblks:\n          writers.append( x )\n          break\n        x = x.get_parent_object()", 'R-C02-pairing'),
    _m('pairing-genblk-reads-dropped', GENDAG, "    for data in [ upblk_reads, genblk_reads ]:", "    for data in [ upblk_reads ]:", 'R-C02-pairing'),
    _m('pairing-skip-ff-readers', GENDAG, "              if wr_blk != rd_blk:\n                # if rd_blk not in update_ff:\n                impl_constraints.add( (wr_blk, rd_blk) ) # wr < rd default\n                constraint_objs[ (wr_blk, rd_blk) ].add( obj )\n\n    # Collect all objs that read",
       "              if wr_blk != rd_blk and len(rd_blks) < 8:\n                # if rd_blk not in update_ff:\n                impl_constraints.add( (wr_blk, rd_blk) ) # wr < rd default\n                constraint_objs[ (wr_blk, rd_blk) ].add( obj )\n\n    # Collect all objs that read", 'R-C02-pairing'),
    _m('pairing-implicit-wins', GENDAG, "      if (y, x) not in U_U: # no conflicting expl", "      if (x, y) not in U_U: # no conflicting expl", 'R-C02-pairing'),
    _m('pairing-explicit-sign', GENDAG, "              if sign == 1: # RD/WR(x) < U is 1, RD/WR(x) > U is -1", "              if sign == -1: # RD/WR(x) < U is 1, RD/WR(x) > U is -1", 'R-C02-pairing'),
    _m('netblk-writes-readers-only', GENDAG, "      top._dag.genblk_writes[ blk ] = all_readers\n\n    # Get the final", "      top._dag.genblk_writes[ blk ] = readers\n\n    # Get the final", 'R-C02-netblk'),
    _m('netblk-no-read', GENDAG, "      if writer.is_signal():\n        top._dag.genblk_reads[ blk ] = [ writer ]\n      top._dag.genblk_writes[ blk ] = all_readers\n\n    # Get the final", "      top._dag.genblk_writes[ blk ] = all_readers\n\n    # Get the final", 'R-C02-netblk'),
    _m('netblk-final-misses-genblks', GENDAG, "top._dag.final_upblks = top.get_all_update_blocks() | top._dag.genblks", "top._dag.final_upblks = top.get_all_update_blocks()", 'R-C02-netblk'),
    _m('kahn-simple-indegree-at-source', SIMPLE, "        InD[v] += 1\n        Es[u].append( v )", "        InD[u] += 1\n        Es[u].append( v )", 'R-kahn'),
    _m('kahn-simple-no-successor', SIMPLE, "        InD[v] += 1\n        Es[u].append( v )", "        InD[v] += 1\n        Es[v].append( u )", 'R-kahn'),
    _m('kahn-simple-ready-early', SIMPLE, "        InD[v] -= 1\n        if not InD[v]:\n          Q.append( v )", "        InD[v] -= 1\n        if InD[v] <= 1:\n          Q.append( v )", 'R-kahn'),
    _m('kahn-simple-init-all', SIMPLE, "    Q = [ v for v in V if not InD[v] ]", "    Q = [ v for v in V ]", 'R-kahn'),
    _m('kahn-simple-no-check', SIMPLE, "    check_schedule( top, update_schedule, V, E, InD )\n\n  def schedule_ff", "    pass\n\n  def schedule_ff", 'R-kahn'),
    _m('kahn-heu-filter', HEU, "      if u in V and v in V:\n        InD[v] += 1", "      if u in V and v in V and u not in top._dag.genblks:\n        InD[v] += 1", 'R-kahn'),
    _m('kahn-heu-relax-other', HEU, "      for v in Es[id_v[u]]:\n        InD[v] -= 1", "      for v in Es[id_v[u]][1:]:\n        InD[v] -= 1", 'R-kahn'),
    _m('kahn-dyn-no-output', DYN, "      u = Q.pop()\n      scc_schedule.append( u )", "      u = Q.pop()\n      if InD[u] == 0 and len(G_new[u]) < 64: scc_schedule.append( u )", 'R-kahn'),
    _m('kahn-dyn-graph-no-transpose', DYN, "        G  [u].append( v )\n        G_T[v].append( u )\n        E.add( (u, v) )\n\n    if 'MAMBA_DAG' in os.environ:\n      dump_dag( top, V, E )\n\n    # Compute SCC using Kosaraju's algorithm\n\n    SCCs, G_new = kosaraju_scc( G, G_T )\n\n    # Perform",
       "        G  [u].append( v )\n        G_T[u].append( v )\n        E.add( (u, v) )\n\n    if 'MAMBA_DAG' in os.environ:\n      dump_dag( top, V, E )\n\n    # Compute SCC using Kosaraju's algorithm\n\n    SCCs, G_new = kosaraju_scc( G, G_T )\n\n    # Perform", 'R-kahn'),
    _m('kahn-mamba-relax-skipped', MAMBA, "          if cur_br + br >= branchiness_factor or cur_count + 1 >= branchy_block_factor:\n            schedule.append( cur_meta )\n            cur_meta, cur_br, cur_count = [], 0, 0\n\n      expand_node( u )",
       "          if cur_br + br >= branchiness_factor or cur_count + 1 >= branchy_block_factor:\n            schedule.append( cur_meta )\n            cur_meta, cur_br, cur_count = [], 0, 0\n            continue\n\n      expand_node( u )", 'R-kahn'),
    _m('kahn-mamba-meta-not-flushed', MAMBA, "        if br == 0:\n          schedule.append( cur_meta )\n          cur_meta, cur_br, cur_count = [], 0, 0\n\n          cur_meta.append( compile_scc(u) )",
       "        if br == 0:\n          cur_meta, cur_br, cur_count = [], 0, 0\n\n          cur_meta.append( compile_scc(u) )", 'R-kahn'),
    _m('kahn-check-schedule-silent', SIMPLE, "  if len(schedule) != len(V):\n    V_leftovers", "  if len(schedule) > len(V):\n    V_leftovers", 'R-kahn'),
    _m('greenlet-elif', GREEN, "      if y in greenlet_upblks:\n        y = blk_greenlet_mapping[ y ]", "      elif y in greenlet_upblks:\n        y = blk_greenlet_mapping[ y ]", 'R-C02-greenlet'),
    _m('greenlet-y-from-x', GREEN, "        y = blk_greenlet_mapping[ y ]", "        y = blk_greenlet_mapping[ x ]", 'R-C02-greenlet'),
    _m('novar-dyn-accepts', DYN, "        if len(variables) == 0:\n          raise UpblkCyclicError(\"There is a cyclic dependency without involving variables.\"", "        if len(variables) == 0 and len(scc) > 64:\n          raise UpblkCyclicError(\"There is a cyclic dependency without involving variables.\"", 'R-C02-novar-cycle'),
    _m('novar-mamba-one-sided', MAMBA, "        if u in scc and v in scc:\n          variables.update( constraint_objs[ (u, v) ] )", "        if u in scc:\n          variables.update( constraint_objs[ (u, v) ] )", 'R-C02-novar-cycle'),
]

EQUIV = [
    _m('pairing-sibling-test-as-nested-ifs', GENDAG, "          if x.slice_overlap( obj ) and x in write_upblks:\n            writers.append( x )\n",
       "          if x.slice_overlap( obj ):\n            if x in write_upblks:\n              writers.append( x )\n"),
    _m('openloop-callee-filter-as-named-predicate', OPENLOOP, "    top_level_callee_ports = top.get_all_object_filter(\n      lambda x: isinstance(x, CalleePort) and x.get_host_component() is top )\n",
       "    def is_top_level_callee_port( x ):\n      return isinstance(x, CalleePort) and x.get_host_component() is top\n\n    top_level_callee_ports = top.get_all_object_filter( is_top_level_callee_port )\n"),
    _m('visit-for-one-loop-over-body-and-orelse', ASTH, "    for stmt in node.body:\n      self.visit( stmt )\n    for stmt in node.orelse:\n      self.visit( stmt )\n",
       "    for stmt in [ *node.body, *node.orelse ]:\n      self.visit( stmt )\n"),
    _m('ff-writer-exemption-as-guard-clause', GENDAG, "          if wr_blk not in update_ff:\n            for rd_blk in rd_blks:\n              if wr_blk != rd_blk:\n                # if rd_blk not in update_ff:\n                impl_constraints.add( (wr_blk, rd_blk) ) # wr < rd default\n                constraint_objs[ (wr_blk, rd_blk) ].add( obj )\n",
       "          if wr_blk in update_ff:\n            continue\n          for rd_blk in rd_blks:\n            if rd_blk != wr_blk:\n              impl_constraints.add( (wr_blk, rd_blk) ) # wr < rd default\n              constraint_objs[ (wr_blk, rd_blk) ].add( obj )\n"),
    dict(name='openloop-ports-in-locals-and-get-translation', rule=None, edits=[
        dict(file=OPENLOOP, old="      V.add( x.method )\n      V.add( x.rdy )\n      E.add( (x.rdy, x.method) )\n\n      method_guard_mapping[x.method] = x.rdy\n      guard_method_mapping[x.rdy] = x.method\n      m = get_raw_method( x.method )\n      r = get_raw_method( x.rdy )\n",
             new="      method_port = x.method\n      rdy_port    = x.rdy\n      V.add( method_port )\n      V.add( rdy_port )\n      E.add( (rdy_port, method_port) )\n\n      method_guard_mapping[method_port] = rdy_port\n      guard_method_mapping[rdy_port] = method_port\n      m = get_raw_method( method_port )\n      r = get_raw_method( rdy_port )\n", count=1),
        dict(file=OPENLOOP, old="      method_callee_mapping[m] = x.method\n      method_callee_mapping[r] = x.rdy\n", new="      method_callee_mapping[m] = method_port\n      method_callee_mapping[r] = rdy_port\n", count=1),
        dict(file=OPENLOOP, old="      if xx in method_callee_mapping:\n        xx = method_callee_mapping[ xx ]\n\n      if yy in method_callee_mapping:\n        yy = method_callee_mapping[ yy ]\n",
             new="      xx = method_callee_mapping.get( xx, xx )\n      yy = method_callee_mapping.get( yy, yy )\n", count=1)]),
    dict(name='callee-constraints-set-alias', rule=None, edits=[
        dict(file=GENDAG, old="    top._dag.top_level_callee_constraints = set()\n", new="    callee_constraints = top._dag.top_level_callee_constraints = set()\n", count=1),
        dict(file=GENDAG, old="top._dag.top_level_callee_constraints.add(", new="callee_constraints.add(", count=4)]),
    _m('whole-array-fifo-worklist', L2, "              m = Q.pop()\n              if isinstance( m, NamedObject ):", "              m = Q.pop(0)\n              if isinstance( m, NamedObject ):"),
    _m('constraint-sign-ifexp', L2, "        sign = 1 # RD(x) < U is 1, RD(x) > U is -1\n        if isinstance( x1, ValueConstraint ):\n          sign = -1\n          x0, x1 = x1, x0 # Make sure x0 is RD/WR(...) and x1 is U(...)\n",
       "        sign = -1 if isinstance( x1, ValueConstraint ) else 1\n        if sign == -1:\n          x0, x1 = x1, x0 # Make sure x0 is RD/WR(...) and x1 is U(...)\n"),
    _m('explicit-edge-helper', GENDAG, "              if sign == 1: # RD/WR(x) < U is 1, RD/WR(x) > U is -1\n                # eq_blk == RD/WR(x) < co_blk\n                U_U.add( (eq_blk, co_blk) )\n                constraint_objs[ (eq_blk, co_blk) ].add( obj )\n              else:\n                # co_blk < RD/WR(x) == eq_blk\n                U_U.add( (co_blk, eq_blk) )\n                constraint_objs[ (co_blk, eq_blk) ].add( obj )",
       "              if sign == 1:\n                edge = (eq_blk, co_blk)\n              else:\n                edge = (co_blk, eq_blk)\n              U_U.add( edge )\n              constraint_objs[ edge ].add( obj )"),
    _m('greenlet-vertex-branches-flipped', GREEN, "      if blk in greenlet_upblks:\n        wrapped = wrap_greenlet( blk )\n        blk_greenlet_mapping[ blk ] = wrapped\n        new_upblks.add( wrapped )\n      else:\n        new_upblks.add( blk )",
       "      if blk not in greenlet_upblks:\n        new_upblks.add( blk )\n      else:\n        wrapped = wrap_greenlet( blk )\n        blk_greenlet_mapping[ blk ] = wrapped\n        new_upblks.add( wrapped )"),
    _m('heu-vertex-alias', HEU, "      update_schedule.append( id_v[u] )\n      for v in Es[id_v[u]]:", "      u_blk = id_v[u]\n      update_schedule.append( u_blk )\n      for v in Es[u_blk]:"),
    _m('cache-vars-form', L2, "    if '_name_info' in cls.__dict__:", "    if '_name_info' in vars(cls):"),
    _m('overlap-symmetric-form', CONN, "      if x.start <= y.start:  return y.start < x.stop\n      else:                   return x.start < y.stop", "      return x.start < y.stop and y.start < x.stop"),
    _m('overlap-int-as-pair', CONN, "    if isinstance( y, int ):  return x == y", "    if isinstance( y, int ):  return not (x != y)"),
    _m('kahn-ready-eq-zero', SIMPLE, "        if not InD[v]:\n          Q.append( v )", "        if InD[v] == 0:\n          Q.append( v )"),
    _m('kahn-filter-order', SIMPLE, "      if u in V and v in V:\n        InD[v] += 1", "      if v in V and u in V:\n        InD[v] += 1"),
    _m('greenlet-remap-order', GREEN, "      if x in greenlet_upblks:\n        x = blk_greenlet_mapping[ x ]\n      if y in greenlet_upblks:\n        y = blk_greenlet_mapping[ y ]", "      if y in greenlet_upblks:\n        y = blk_greenlet_mapping[ y ]\n      if x in greenlet_upblks:\n        x = blk_greenlet_mapping[ x ]"),
    _m('pairing-published-set-alias', GENDAG, "    top._dag.all_constraints = { *U_U }\n    for (x, y) in impl_constraints:\n      if (y, x) not in U_U: # no conflicting expl\n        top._dag.all_constraints.add( (x, y) )",
       "    top._dag.all_constraints = all_constraints = { *U_U }\n    for (x, y) in impl_constraints:\n      if (y, x) not in U_U: # no conflicting expl\n        all_constraints.add( (x, y) )"),
    _m('pairing-published-set-local-first', GENDAG, "    top._dag.all_constraints = { *U_U }\n    for (x, y) in impl_constraints:\n      if (y, x) not in U_U: # no conflicting expl\n        top._dag.all_constraints.add( (x, y) )",
       "    merged = { *U_U }\n    top._dag.all_constraints = merged\n    for (x, y) in impl_constraints:\n      if (y, x) not in U_U: # no conflicting expl\n        merged.add( (x, y) )"),
    _m('visitor-kw-loop-var', ASTH, "    for x in node.keywords:\n      self.visit( x.value )\n", "    for kw in node.keywords:\n      self.visit( kw.value )\n"),
]

LEVEL_TEXT = ("Static analysis of constraint generation and scheduling: exhaustiveness of the read/write detector against the ast grammar, "
              "complete small-model proof of the overlap predicate, structural verification that GenDAGPass pairs writers with readers over "
              "ancestors and overlapping slices in both directions with writer-first orientation, that net blocks carry the right read/write "
              "sets, and that each of the four schedulers instantiates Kahn's algorithm over exactly those edges without losing a block. "
              "It covers every design and tie-break because it reasons about the scheduler code, not about runs.")
LEVEL_NOTE = ("Trusted: Kahn / Kosaraju; user blocks access signals syntactically through `s`. OpenLoopCLPass is checked for graph "
              "construction only (its SCC-level sort is a divergent copy). Method-constraint propagation is not decided.")
TECHNIQUE = "visitor exhaustiveness vs ast grammar, order-type evaluation of the overlap predicate, typestate-style matching of Kahn's algorithm, pairing/orientation rules over the ast"
