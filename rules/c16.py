"""C16 -- Waveform dumps replay the simulation exactly.  (DESIGN.md section 4, C16)"""
import ast
import builtins
import re
import string

from sa.astutil import (norm, guards_of, walk_no_nested, parent, enclosing, stmt_of, enclosing_func, qualname)
from sa.errors import AnalysisError
from sa.loader import Module
from sa.minieval import Evaluator
from sa.report import RuleResult
from sa.seqdom import SeqEval

from rules.c07 import tick_sequences, _classify

PID = 'C16'
VCD = 'pymtl3/passes/tracing/VcdGenerationPass.py'
TW = 'pymtl3/passes/tracing/PrintTextWavePass.py'
PREP = 'pymtl3/passes/sim/PrepareSimPass.py'
UNROLL = 'pymtl3/passes/mamba/UnrollSimPass.py'
OPENLOOP = 'pymtl3/passes/autotick/OpenLoopCLPass.py'
BITS = 'pymtl3/datatypes/PythonBits.py'
SIMPLE = 'pymtl3/passes/sim/SimpleSchedulePass.py'
GENDAG = 'pymtl3/passes/sim/GenDAGPass.py'
DYN = 'pymtl3/passes/sim/DynamicSchedulePass.py'
MAMBA = 'pymtl3/passes/mamba/Mamba2020Pass.py'

EXPLANATION = (
    "Static analysis, no execution. R-C16-tick-order: on the symbolic tick sequences (SeqDom, shared with C07) of every tick "
    "builder (PrepareSimPass, UnrollSimPass and heirs, OpenLoopCLPass) the VCD and text-wave dump functions are scheduled exactly "
    "once per clock edge, under no condition other than the presence of their own metadata key, before the flip, with no "
    "combinational pass between dump and flip and (sim_tick, pure RTL) a combinational pass before them; sim_reset builds its "
    "edges from the same collect_ff_funcs and settles before every edge => a dump samples the settled pre-edge state of every "
    "simulated cycle. R-C16-compress: in the per-cycle dump function (found by following what make_vcd_func returns) the "
    "printed string, the compared string and the stored string are the same value, the value is eval(repr(signal)).to_bits()."
    "to_vcd_str(), the print is guarded exactly by the inequality with this net's private slot, the slot is updated whenever "
    "the line is printed and never before the comparison, the printed symbol is the one paired with the signal in the "
    "(net, symbol) table, only the clock net is excluded, and an abstract run of the straight-line part for cycle numbers 0..4 "
    "shows value changes first, then exactly one falling and one rising clock line with strictly increasing, equidistant "
    "timestamps continuing the header's #0, and the counter advanced by one. R-C16-header: every top-level signal is "
    "registered under its host, every component is reached by the recursion, every registered signal gets a $var whose width "
    "is the signal type's nbits and whose symbol is its net's symbol (or a fresh one from the single generator, with net and "
    "symbol tables extended together), scopes are balanced, every net gets its initial value through Type().to_bits()."
    "to_vcd_str() under its own symbol, the clock index is the index of the net that holds s.clk; Bits.to_vcd_str has the "
    "documented format (width 1: bare binary digit of _uint; else 'b' + nbits zero-padded binary digits + ' '). R-C16-textwave: "
    "every top-level signal except clk/reset (plus s.reset) gets, per dump, one line record[name].append(<name>.to_bits()."
    "bin()) inside the generated function, the record handed out is the dict the generated code writes, metadata keys are "
    "bound to the matching objects, the printer only reads bound names, Bits.bin is '0b' + nbits zero-padded digits. "
    "R-gen-isolation: every exec/custom_exec site in non-test code gets a fresh namespace (or module globals for lookup only, "
    "with a separate local namespace) and no function writes into globals(). NOT decided: agreement of the written file with "
    "an independent VCD parser on real runs; distinctness of the generated symbol strings beyond 'one generator, one next() "
    "per net'; that the index space of last_values is the same in the initial and the per-cycle loop (benign today, see "
    "DESIGN.md 3.5); rendering of print_textwave.")
ASSUMPTIONS = [
    "signals repr() as 's.<path>' and evaluate back to the live value object through eval in a scope where s is the top component",
    "all signals of one value net share one value object, so any member of a net stands for the net (C08/C07 lock_in_simulation)",
    "Python semantics of print (newline-terminated), str.format / f-string format specs, exec namespaces, locals() snapshots",
    "to_bits() of a bitstruct is its packed value (C06); Bits._uint is in range (C04) so a zero-padded width-nbits field never overflows",
    "update_ff blocks change signals only through <<= (invisible before the flip, R-C07-effects), so sampling anywhere before the flip and "
    "after the last combinational pass yields the clock-edge values",
]


# ---------------------------------------------------------------------------
# small scope / data-flow helpers (names are resolved, never matched as text)
def _preorder(node):
    yield node
    for ch in ast.iter_child_nodes(node):
        yield from _preorder(ch)


def _pos(root, node):
    for i, n in enumerate(_preorder(root)):
        if n is node:
            return i
    return None


def _own_nodes(func):
    """nodes of a function's own body; nested defs are yielded but not entered"""
    todo = list(reversed(func.body))
    while todo:
        n = todo.pop()
        yield n
        if isinstance(n, (ast.FunctionDef, ast.AsyncFunctionDef, ast.ClassDef, ast.Lambda)):
            continue
        todo.extend(reversed(list(ast.iter_child_nodes(n))))


def _params(func):
    a = func.args
    return [x.arg for x in a.posonlyargs + a.args] + [x.arg for x in a.kwonlyargs] + \
        [x.arg for x in (a.vararg, a.kwarg) if x is not None]


def _bindings(func, name):
    """every binding of `name` in func's own scope: list of (kind, node, value)"""
    out = []
    if name in _params(func):
        out.append(('param', func, None))
    for n in _own_nodes(func):
        if isinstance(n, ast.Assign):
            for t in n.targets:
                if isinstance(t, ast.Name) and t.id == name:
                    out.append(('assign', n, n.value))
                elif isinstance(t, (ast.Tuple, ast.List)):
                    for k, te in enumerate(t.elts):
                        if isinstance(te, ast.Name) and te.id == name:
                            if isinstance(n.value, (ast.Tuple, ast.List)) and len(n.value.elts) == len(t.elts):
                                out.append(('assign', n, n.value.elts[k]))
                            else:
                                out.append(('unpack', n, (n.value, k)))
        elif isinstance(n, ast.AnnAssign) and isinstance(n.target, ast.Name) and n.target.id == name:
            out.append(('assign', n, n.value))
        elif isinstance(n, ast.AugAssign) and isinstance(n.target, ast.Name) and n.target.id == name:
            out.append(('aug', n, n.value))
        elif isinstance(n, (ast.For, ast.comprehension)):
            if any(isinstance(x, ast.Name) and x.id == name for x in ast.walk(n.target)):
                out.append(('loop', n, n.iter))
        elif isinstance(n, ast.NamedExpr) and n.target.id == name:
            out.append(('assign', n, n.value))
        elif isinstance(n, ast.withitem) and n.optional_vars is not None and \
                any(isinstance(x, ast.Name) and x.id == name for x in ast.walk(n.optional_vars)):
            out.append(('with', n, n.context_expr))
        elif isinstance(n, ast.ExceptHandler) and n.name == name:
            out.append(('except', n, None))
        elif isinstance(n, (ast.FunctionDef, ast.AsyncFunctionDef, ast.ClassDef)) and n.name == name:
            out.append(('def', n, None))
        elif isinstance(n, (ast.Import, ast.ImportFrom)):
            for a in n.names:
                if (a.asname or a.name).split('.')[0] == name:
                    out.append(('import', n, None))
    return out


def _declared_outer(func, name):
    return any(isinstance(n, (ast.Nonlocal, ast.Global)) and name in n.names for n in _own_nodes(func))


def _lookup(name, at):
    """(owner function or None for module level, bindings) of the scope that binds `name` as seen from node `at`"""
    f = at if isinstance(at, (ast.FunctionDef, ast.AsyncFunctionDef)) else enclosing_func(at)
    while f is not None:
        if isinstance(f, ast.Lambda):
            if name in _params(f):
                return f, [('param', f, None)]
        elif not _declared_outer(f, name):
            b = _bindings(f, name)
            if b:
                return f, b
        f = enclosing_func(f)
    return None, []


def _unique_value(name, at):
    """value expression of the single assignment binding `name` in its scope (None if not unique / not an assignment)"""
    owner, b = _lookup(name, at)
    if len(b) == 1 and b[0][0] == 'assign':
        return b[0][2]
    return None


def _res(e, at=None, limit=8):
    """follow chains of single-assignment local aliases"""
    at = at if at is not None else e
    for _ in range(limit):
        if not isinstance(e, ast.Name):
            break
        v = _unique_value(e.id, at)
        if v is None:
            break
        e, at = v, v
    return e


def _deep(e, at=None, limit=6):
    """copy of e with every single-assignment local name replaced by its value (recursively)"""
    import copy
    at = at if at is not None else e

    def go(x, ctx, d):
        if isinstance(x, ast.Name) and isinstance(x.ctx, ast.Load) and d < limit:
            v = _unique_value(x.id, ctx)
            if v is not None and not isinstance(v, (ast.List, ast.Dict, ast.Set, ast.ListComp, ast.DictComp, ast.SetComp)):
                return go(v, v, d + 1)      # (containers are mutable state, not aliases)
            return copy.copy(x)
        if not isinstance(x, ast.AST):
            return x
        new = copy.copy(x)
        for fld, val in ast.iter_fields(x):
            if isinstance(val, list):
                setattr(new, fld, [go(v, ctx, d) if isinstance(v, ast.AST) else v for v in val])
            elif isinstance(val, ast.AST):
                setattr(new, fld, go(val, ctx, d))
        return new
    return go(e, at, 0)


def _same(a, b, at=None):
    """two expressions denote the same value: identical after resolving local single-assignment aliases"""
    return norm(_res(a, at)) == norm(_res(b, at)) or norm(a) == norm(b)


def _strip_wrappers(e, names=('sorted', 'list', 'reversed', 'tuple')):
    while isinstance(e, ast.Call) and isinstance(e.func, ast.Name) and e.func.id in names and e.args:
        e = e.args[0]
    return e


def _is_call(e, attr=None, name=None, nargs=None):
    if not isinstance(e, ast.Call):
        return False
    if attr is not None and not (isinstance(e.func, ast.Attribute) and e.func.attr == attr):
        return False
    if name is not None and not (isinstance(e.func, ast.Name) and e.func.id == name):
        return False
    if nargs is not None and (len(e.args) != nargs or e.keywords):
        return False
    return True


def _nested_defs(func):
    return [n for n in _own_nodes(func) if isinstance(n, (ast.FunctionDef, ast.AsyncFunctionDef))]


def _cond_guards(node):
    return [g for g in guards_of(node) if g.kind in ('if', 'exit', 'assert', 'except')]


def _loop_guards(node):
    return [g for g in guards_of(node) if g.kind == 'loop']


class Coll:
    """one producing site of a list: element expression, iteration variable(s), source, filter conjuncts"""
    def __init__(self, elt, var, src, conj, node, loop, guards=()):
        self.elt, self.var, self.src, self.conj, self.node, self.loop = elt, var, src, conj, node, loop
        self.guards = list(guards)       # the dominating conditions themselves (for semantic evaluation)


def _collected(func, name):
    """how the list `name` is filled in func's own scope -- the append-loop form
    (`name = []; for v in src: if f: name.append(elt)`) and the comprehension form (`name = [elt for v in src if f]`)
    are the same thing to the rules.  conj is None when a filter is not a pure conjunction."""
    from sa.astutil import Guard
    out = []
    for kind, node, val in _bindings(func, name):
        if kind == 'assign' and isinstance(val, ast.ListComp):
            if len(val.generators) != 1:
                raise AnalysisError(f"{func.name}: {name} is built by a nested comprehension (outside the understood shapes)")
            g = val.generators[0]
            gs = [Guard(f, True, 'if', val) for f in g.ifs] + _cond_guards(node)
            out.append(Coll(val.elt, g.target, g.iter, _conjuncts(gs), val, None, gs))
    for n in _own_nodes(func):
        if _is_call(n, attr='append', nargs=1) and isinstance(n.func.value, ast.Name) and n.func.value.id == name:
            lp = enclosing(n, (ast.For,))
            if lp is not None and enclosing_func(lp) is not func:
                lp = None
            out.append(Coll(n.args[0], lp.target if lp is not None else None, lp.iter if lp is not None else None,
                            _conjuncts(_cond_guards(stmt_of(n))), n, lp, _cond_guards(stmt_of(n))))
    return out


def _index_iter(it, tgt):
    """(table name, index var, element var) of `for i in range(len(T))` / `for i, e in enumerate(T)` / `for e in T`
    (single-assignment helper locals such as `n = len(T)` are resolved first)"""
    if _is_call(it, name='range'):
        it = _deep(it, it)
    if _is_call(it, name='range') and not it.keywords and 1 <= len(it.args) <= 3 and isinstance(tgt, ast.Name):
        tabs = {n.args[0].id for a in it.args for n in ast.walk(a) if _is_call(n, name='len', nargs=1) and isinstance(n.args[0], ast.Name)}
        if len(tabs) == 1:
            return tabs.pop(), tgt.id, None      # whether the range covers the whole table is judged by _range_gap
    if _is_call(it, name='enumerate', nargs=1) and isinstance(it.args[0], ast.Name) and isinstance(tgt, ast.Tuple) and len(tgt.elts) == 2 \
            and all(isinstance(x, ast.Name) for x in tgt.elts):
        return it.args[0].id, tgt.elts[0].id, tgt.elts[1].id
    if isinstance(it, ast.Name) and isinstance(tgt, ast.Name):
        return it.id, None, tgt.id
    return None


def _range_gap(it):
    """for `range(...)` over len(T): evaluate the bounds against table sizes 1, 2, 3, 6 and return a description of the
    indices of T that are not produced / produced outside T (None when the range is exactly 0 .. len(T)-1 or `it` is no range)"""
    if not (_is_call(it, name='range') and not it.keywords and 1 <= len(it.args) <= 3):
        return None
    it = _deep(it, it)
    for n_ in (1, 2, 3, 6):
        try:
            args = [Evaluator({}, arith=True, funcs={'len': lambda t: n_}, leaf=lambda e: 'T' if isinstance(e, ast.Name) else NotImplemented).ev(a)
                    for a in it.args]
            got = list(range(*args))
        except AnalysisError:
            raise
        except Exception as ex:
            raise AnalysisError(f"range bounds outside the arithmetic domain: {norm(it)}: {ex}")
        want = list(range(n_))
        if sorted(got) != want:
            miss = [i for i in want if i not in got]
            extra = [i for i in got if i not in want]
            return (f"with {n_} entries `{norm(it)}` yields {got}" + (f", missing index {miss}" if miss else '') +
                    (f", stray index {extra}" if extra else ''))
    return None


def _addends(e):
    if isinstance(e, ast.BinOp) and isinstance(e.op, ast.Add):
        return _addends(e.left) + _addends(e.right)
    return [e]


def _iter_sig(e):
    """order-insensitive signature of what a loop runs over (sorted()/list()/reversed() wrappers and the order of
    concatenated pieces do not matter for 'which elements')"""
    return sorted(norm(_strip_wrappers(p)) for p in _addends(_strip_wrappers(e)))


# ---------------------------------------------------------------------------
# string-template domain
class Hole:
    def __init__(self, expr, spec=None, conv=-1):
        self.expr, self.spec, self.conv = expr, spec, conv

    def __repr__(self):
        return '{' + norm(self.expr) + (':' + _show(self.spec) if self.spec else '') + '}'


def _show(parts):
    return ''.join(p if isinstance(p, str) else repr(p) for p in parts)


def _merge(parts):
    out = []
    for p in parts:
        if isinstance(p, str) and out and isinstance(out[-1], str):
            out[-1] += p
        elif p != '':
            out.append(p)
    return out


def _tmpl(e):
    """partial evaluation of string construction into constant pieces and typed holes"""
    if isinstance(e, ast.Constant) and isinstance(e.value, str):
        return [e.value]
    if isinstance(e, ast.JoinedStr):
        out = []
        for v in e.values:
            if isinstance(v, ast.Constant):
                out.append(v.value)
            else:
                out.append(Hole(v.value, None if v.format_spec is None else _tmpl(v.format_spec), v.conversion))
        return _merge(out)
    if isinstance(e, ast.BinOp) and isinstance(e.op, ast.Add):
        return _merge(_tmpl(e.left) + _tmpl(e.right))
    if isinstance(e, ast.Call) and isinstance(e.func, ast.Attribute) and e.func.attr == 'format':
        base = _tmpl(_res(e.func.value))
        if len(base) == 1 and isinstance(base[0], str) and not any(isinstance(a, ast.Starred) for a in e.args) \
                and not any(k.arg is None for k in e.keywords):
            out, auto = [], 0
            try:
                fields = list(string.Formatter().parse(base[0]))
            except ValueError as ex:
                raise AnalysisError(f"format string outside the template domain: {ex}")
            for lit, field, spec, conv in fields:
                if lit:
                    out.append(lit)
                if field is None:
                    continue
                if field == '':
                    idx, auto = auto, auto + 1
                    if idx >= len(e.args):
                        raise AnalysisError(f"format string has more fields than arguments: {norm(e)[:80]}")
                    arg = e.args[idx]
                elif field.isdigit():
                    if int(field) >= len(e.args):
                        raise AnalysisError(f"format field index out of range: {norm(e)[:80]}")
                    arg = e.args[int(field)]
                else:
                    kws = {k.arg: k.value for k in e.keywords}
                    if field not in kws:
                        raise AnalysisError(f"format field outside the template domain: {field}")
                    arg = kws[field]
                if spec and '{' in spec:
                    raise AnalysisError(f"nested format spec outside the template domain: {spec}")
                out.append(Hole(arg, [spec] if spec else None, ord(conv) if conv else -1))
            return _merge(out)
    if isinstance(e, ast.BinOp) and isinstance(e.op, ast.Mod):
        base = _tmpl(_res(e.left))
        if len(base) == 1 and isinstance(base[0], str):
            args = list(e.right.elts) if isinstance(e.right, ast.Tuple) else [e.right]
            pieces = base[0].split('%s')
            if len(pieces) == len(args) + 1 and not any('%' in p.replace('%%', '') for p in pieces):
                out = []
                for i, p in enumerate(pieces):
                    out.append(p.replace('%%', '%'))
                    if i < len(args):
                        out.append(Hole(args[i]))
                return _merge(out)
            raise AnalysisError(f"%-format outside the template domain: {norm(e)[:80]}")
    if _is_call(e, name='str', nargs=1):
        return [Hole(e.args[0])]
    return [Hole(e)]


def _flat(parts, mark=lambda i: f'\x00{i}\x00'):
    """template as text with numbered hole markers"""
    out, holes = '', []
    for p in parts:
        if isinstance(p, str):
            out += p
        else:
            out += mark(len(holes))
            holes.append(p)
    return out, holes


_SPEC = re.compile(r'^(?:(?P<fill>.)?(?P<align>[<>=^]))?(?P<sign>[+\- ])?(?P<z>z)?(?P<alt>#)?(?P<zero>0)?'
                   r'(?P<width>\d+|\x00\d+\x00)?(?P<grp>[_,])?(?:\.(?P<prec>\d+))?(?P<type>[bcdeEfFgGnosxX%])?$')


class BinField:
    """a hole rendered as binary digits: value expression, field width (int, expr or None), zero padded?"""
    def __init__(self, value, width, zero):
        self.value, self.width, self.zero = value, width, zero

    def __repr__(self):
        w = self.width if not isinstance(self.width, ast.AST) else norm(self.width)
        return f"<bin {norm(self.value)} width={w} zero={self.zero}>"


def _binfield(h):
    """interpret a hole's format spec (python format-spec mini language) as a binary field"""
    if h.conv != -1 or not h.spec:
        return None
    text, holes = _flat(h.spec)
    m = _SPEC.match(text)
    if m is None or m.group('type') != 'b' or m.group('alt') or m.group('sign') or m.group('grp') or m.group('prec') \
            or m.group('z'):
        return None
    w = m.group('width')
    width = None
    if w is not None:
        width = holes[int(w.strip('\x00'))].expr if w.startswith('\x00') else int(w)
    fill, align = m.group('fill'), m.group('align')
    if align is not None and align not in ('>', '='):
        return None
    if align is not None and width is not None and (fill or ' ') != '0' and not m.group('zero'):
        return BinField(h.expr, width, False)
    zero = bool(m.group('zero')) or (fill == '0' and align in ('>', '='))
    return BinField(h.expr, width, zero)


def _binparts(e, at=None):
    """string expression -> pieces (str | BinField | Hole); understands f-strings / str.format with a 'b' spec,
    format(x,'b'), bin(x)[2:], <binary string>.zfill(w), '+' concatenation and local aliases"""
    e = _res(e, at)
    if _is_call(e, attr='zfill', nargs=1):
        inner = _binparts(e.func.value, e)
        if len(inner) == 1 and isinstance(inner[0], BinField) and inner[0].width is None:
            return [BinField(inner[0].value, e.args[0], True)]
        raise AnalysisError(f"zfill on something that is not a bare binary field: {norm(e)[:80]}")
    if _is_call(e, name='format', nargs=2) and isinstance(e.args[1], ast.Constant):
        f = _binfield(Hole(e.args[0], [e.args[1].value]))
        return [f if f is not None else Hole(e)]
    if isinstance(e, ast.Subscript) and isinstance(e.slice, ast.Slice) and _is_call(e.value, name='bin', nargs=1) \
            and e.slice.lower is not None and norm(e.slice.lower) == '2' and e.slice.upper is None and e.slice.step is None:
        return [BinField(e.value.args[0], None, False)]
    if isinstance(e, ast.BinOp) and isinstance(e.op, ast.Add):
        return _merge_b(_binparts(e.left, e) + _binparts(e.right, e))
    out = []
    for p in _tmpl(e):
        if isinstance(p, Hole):
            f = _binfield(p)
            out.append(f if f is not None else p)
        else:
            out.append(p)
    return out


def _merge_b(parts):
    out = []
    for p in parts:
        if isinstance(p, str) and out and isinstance(out[-1], str):
            out[-1] += p
        elif p != '':
            out.append(p)
    return out


# ---------------------------------------------------------------------------
# R-C16-tick-order
def _meta_pair(item):
    """(receiver, key) if the item is `X.get_metadata(K)` scheduled under exactly `X.has_metadata(K)`"""
    try:
        lab = ast.parse(item.label, mode='eval').body
    except SyntaxError:
        return None
    if not _is_call(lab, attr='get_metadata', nargs=1):
        return None
    want = (norm(lab.func.value), norm(lab.args[0]))
    conds = []
    for c in item.cond:
        try:
            ce = ast.parse(c, mode='eval').body
        except SyntaxError:
            return None
        while isinstance(ce, ast.UnaryOp) and isinstance(ce.op, ast.Not) and isinstance(ce.operand, ast.UnaryOp) \
                and isinstance(ce.operand.op, ast.Not):
            ce = ce.operand.operand       # `else` arm of `if not c:`
        conds.append(ce)
    own = [c for c in conds if _is_call(c, attr='has_metadata', nargs=1) and (norm(c.func.value), norm(c.args[0])) == want]
    return want, own, [c for c in conds if c not in own]


def _edge_check(r, mod, fn, node, seq):
    """the clock-edge sequence: each dump exactly once, own-key guard only, before the flip, no comb pass after it"""
    kinds = [_classify(i.label) for i in seq]
    cons = ' ; '.join(repr(i) for i in seq)
    fl = [i for i, k in enumerate(kinds) if k == 'flip']
    if len(fl) != 1:
        raise AnalysisError(f"{fn}: expected exactly one flip segment in the clock-edge sequence (C07 R-tick-order decides that)")
    ok = True
    for what, title in (('vcd', 'VCD'), ('textwave', 'text-wave')):
        idx = [i for i, k in enumerate(kinds) if k == what]
        if not idx:
            r.bad(mod, fn, f"{what}: {cons}", f"the {title} dump function is never scheduled at the clock edge: simulation runs but no "
                  f"cycle is recorded", node.lineno)
            ok = False
            continue
        if len(idx) > 1:
            r.bad(mod, fn, f"{what}: {cons}", f"the {title} dump function is scheduled {len(idx)} times per clock edge: every cycle is "
                  f"recorded twice (two clock periods / two samples per simulated cycle)", node.lineno)
            ok = False
            continue
        it = seq[idx[0]]
        mp = _meta_pair(it)
        if mp is None:
            r.bad(mod, fn, repr(it), f"the {title} dump function is not taken from the pass metadata of the top component", node.lineno)
            ok = False
            continue
        want, own, other = mp
        if len(own) != 1 or other:
            r.bad(mod, fn, repr(it), f"the {title} dump function is scheduled under a condition other than the presence of its own "
                  f"metadata key {want[1]}: a design with the dump enabled is simulated without (or crashes looking up) the dump", node.lineno)
            ok = False
            continue
        if not idx[0] < fl[0]:
            r.bad(mod, fn, repr(it), f"the {title} dump function runs after the flip: it records the post-edge register values, i.e. "
                  f"every register appears one cycle early", node.lineno)
            ok = False
            continue
        between = [seq[i] for i in range(idx[0] + 1, fl[0]) if kinds[i] == 'comb']
        if between:
            r.bad(mod, fn, repr(it), f"a combinational pass ({between[0]!r}) runs between the {title} dump and the flip: after an input "
                  f"change the dump records the stale value while the registers sample the recomputed one", node.lineno)
            ok = False
    if ok:
        r.ok(mod, fn, cons)
    return ok


def _reset_check(r, mod, fn_name, derived=(), comb=()):
    """derived: names of lists that are (filtered copies / concatenations of) the per-edge list holding the tracing hooks"""
    f = mod.get_func(fn_name)
    closures = {}
    for s in f.body:
        if isinstance(s, ast.Assign) and len(s.targets) == 1 and isinstance(s.targets[0], ast.Name) and isinstance(s.value, ast.Call) \
                and isinstance(s.value.func, ast.Attribute) and s.value.func.attr == 'gen_tick_function' and len(s.value.args) == 1:
            a = s.value.args[0]
            if (_is_call(a, attr='collect_ff_funcs') and norm(a.func.value) in ('self', 's')) or \
                    (isinstance(a, ast.Name) and a.id in derived):
                closures[s.targets[0].id] = 'edge'
            else:
                k = {_classify(norm(x)) for x in ast.walk(a) if isinstance(x, ast.Attribute)}
                if isinstance(a, ast.Name) and a.id in comb:
                    k.add('comb')
                if k & {'ff', 'flip'}:
                    closures[s.targets[0].id] = 'rawedge'
                elif 'comb' in k:
                    closures[s.targets[0].id] = 'comb'
    inner = [n for n in f.body if isinstance(n, ast.FunctionDef) and
             any(isinstance(x, ast.Call) and isinstance(x.func, ast.Name) and x.func.id in closures for x in ast.walk(n))]
    if len(inner) != 1 or 'comb' not in closures.values():
        raise AnalysisError(f"{fn_name}: expected the comb/edge closures and one inner reset function")
    g = inner[0]
    cons_parts, last, bad = [], None, None
    n_edges = 0
    for s in g.body:
        calls = [n for n in ast.walk(s) if isinstance(n, ast.Call) and isinstance(n.func, ast.Name) and n.func.id in closures]
        if calls and not (isinstance(s, ast.Expr) and s.value is calls[0] and len(calls) == 1):
            raise AnalysisError(f"{fn_name}: conditional / nested tick inside the reset sequence: {norm(s)[:60]}")
        if calls:
            k = closures[calls[0].func.id]
            cons_parts.append(k)
            if k == 'rawedge':
                bad = bad or ("a reset cycle's clock edge is built without collect_ff_funcs: the dump functions do not run in reset "
                              "cycles, the waveform has fewer cycles than were simulated and every later cycle is shifted")
            if k in ('edge', 'rawedge'):
                n_edges += 1
                if last != 'comb':
                    bad = bad or ("a reset clock edge is not preceded by a combinational pass since the last write/edge: the dump "
                                  "records unsettled values for that cycle")
                last = 'edge'
            else:
                last = 'comb'
        elif isinstance(s, ast.AugAssign) and isinstance(s.target, ast.Attribute) and s.target.attr == 'reset':
            cons_parts.append('write-reset')
            last = 'write'
    cons = ' ; '.join(cons_parts)
    if n_edges == 0:
        raise AnalysisError(f"{fn_name}: no clock edge found in the reset sequence")
    if bad:
        r.bad(mod, fn_name + '.' + g.name, cons, bad, g.lineno)
    else:
        r.ok(mod, fn_name + '.' + g.name, cons)


def rule_tick_order(repo):
    r = RuleResult('R-C16-tick-order', "each dump function runs exactly once per clock edge, before the flip and after the last "
                                       "combinational pass, in every tick builder and in sim_reset (it samples the settled pre-edge state)")
    seqs = tick_sequences(repo)
    seen = set()
    for (rel, cname), d in seqs.items():
        hm, hc, hf, seq, ev = d['ff']
        r.evaluations += ev
        key = (hm.rel, hc.name, 'ff')
        if key not in seen:
            seen.add(key)
            _edge_check(r, hm, f"{hc.name}.collect_ff_funcs", hf, seq)
        hm, hc, hf, seq, ev, gen = d['tick']
        r.evaluations += ev
        key = (hm.rel, hc.name, 'tick')
        if key in seen:
            continue
        seen.add(key)
        fn = f"{hc.name}.create_sim_tick"
        kinds = [_classify(i.label) for i in seq]
        cons = ' ; '.join(repr(i) for i in seq)
        dumps = [i for i, k in enumerate(kinds) if k in ('vcd', 'textwave')]
        fl = [i for i, k in enumerate(kinds) if k == 'flip']
        if len({kinds[i] for i in dumps}) != 2 or len(dumps) != 2:
            r.bad(hm, fn, cons, "sim_tick does not run each dump function exactly once (the clock-edge list of collect_ff_funcs is not "
                  "spliced into the tick once)", hf.lineno)
            continue
        if len(fl) != 1:
            raise AnalysisError(f"{fn}: expected one flip in sim_tick")
        lead = [i for i, k in enumerate(kinds) if k == 'comb' and i < min(dumps)]
        mid = [i for i, k in enumerate(kinds) if k == 'comb' and min(dumps) < i < fl[0]]
        trail = [i for i, k in enumerate(kinds) if k == 'comb' and i > fl[0] and not seq[i].cond]
        if not lead:
            r.bad(hm, fn, cons, "no combinational pass precedes the dump functions in sim_tick: in a pure-RTL design the inputs written "
                  "since the last tick have not propagated, the dump (and the registers) sample unsettled values", hf.lineno)
        elif mid:
            r.bad(hm, fn, cons, "a combinational pass runs between the dump functions and the flip: the dump records values the "
                  "registers do not sample", hf.lineno)
        elif not trail:
            r.bad(hm, fn, cons, "no unconditional combinational pass follows the flip: designs without the leading pass (CL/method "
                  "ports) are dumped with stale combinational values", hf.lineno)
        else:
            r.ok(hm, fn, cons)
    # sim_reset of PrepareSimPass (inherited by the Unroll/Mamba/HeuristicTopo builders)
    _reset_check(r, repo.mod(PREP), 'PrepareSimPass.create_sim_reset')
    # OpenLoopCLPass assembles its own clock-edge list
    om = repo.mod(OPENLOOP)
    of = om.get_func('OpenLoopCLPass.schedule_with_top_level_callee')
    apps = [n for n in walk_no_nested(of) if _is_call(n, attr='append', nargs=1) and isinstance(n.func.value, ast.Name)
            and _classify(norm(n.args[0])) in ('vcd', 'textwave')]
    names = {n.func.value.id for n in apps}
    if len(names) != 1:
        raise AnalysisError("OpenLoopCLPass: cannot find the list the dump functions are appended to")
    lst = names.pop()
    start = [i for i, s in enumerate(of.body) if isinstance(s, ast.Assign) and any(isinstance(t, ast.Name) and t.id == lst for t in s.targets)]
    if not start:
        raise AnalysisError("OpenLoopCLPass: clock-edge list is not initialised at function level")
    se = SeqEval(None)
    env = {}
    se._block(of.body[start[0]:], env, (), 0)
    r.evaluations += se.evals
    _edge_check(r, om, 'OpenLoopCLPass.schedule_with_top_level_callee', of, env[lst])
    full = [v for k, v in env.items() if k != lst and any(_classify(i.label) == 'vcd' for i in v)]
    okc = [v for v in full if 'comb' in [_classify(i.label) for i in v][:[_classify(i.label) for i in v].index('vcd')]]
    if okc:
        r.ok(om, 'OpenLoopCLPass.schedule_with_top_level_callee', ' ; '.join(repr(i) for i in okc[0]))
    else:
        r.bad(om, 'OpenLoopCLPass.schedule_with_top_level_callee', f"schedule built from {lst}",
              "the update schedule does not precede the clock-edge list in the open-loop schedule: dumps sample unsettled values", of.lineno)
    # every function of the open-loop flow that simulates a clock edge runs (a copy of) that per-edge list
    def closure_of(seed):
        out = set(seed)
        for _ in range(4):
            for n in _own_nodes(of):
                if isinstance(n, ast.Assign) and len(n.targets) == 1 and isinstance(n.targets[0], ast.Name):
                    val = n.value
                    src_names = set()
                    if isinstance(val, ast.ListComp) and len(val.generators) == 1 and isinstance(val.generators[0].iter, ast.Name) \
                            and norm(val.elt) == norm(val.generators[0].target):
                        src_names = {val.generators[0].iter.id}
                    elif isinstance(val, ast.BinOp) and isinstance(val.op, ast.Add):
                        src_names = {x.id for x in _addends(val) if isinstance(x, ast.Name)}
                    elif isinstance(val, ast.Name):
                        src_names = {val.id}
                    elif isinstance(val, ast.Subscript) and isinstance(val.slice, ast.Slice) and val.slice.lower is None \
                            and val.slice.upper is None and isinstance(val.value, ast.Name):
                        src_names = {val.value.id}
                    if src_names & out:
                        out.add(n.targets[0].id)
        return out
    derived = closure_of({lst})
    comb_names = closure_of({n.id for n in ast.walk(of) if isinstance(n, ast.Name) and _classify(n.id) == 'comb'}) - derived
    _reset_check(r, om, 'OpenLoopCLPass.schedule_with_top_level_callee', derived, comb_names)
    # the method wrapper advances a cycle by calling the elements of a list: that list must contain the per-edge list
    for g_ in _nested_defs(of):
        for c_ in ast.walk(g_):
            if isinstance(c_, ast.Call) and isinstance(c_.func, ast.Subscript) and isinstance(c_.func.value, ast.Name):
                nm_ = c_.func.value.id
                owner, bs = _lookup(nm_, c_)
                actual = nm_
                if bs and bs[0][0] == 'param' and isinstance(owner, ast.FunctionDef):
                    pos = _params(owner).index(nm_)
                    calls = [x for x in ast.walk(of) if _is_call(x, name=owner.name) and len(x.args) > pos]
                    if len(calls) != 1 or not isinstance(calls[0].args[pos], ast.Name):
                        raise AnalysisError(f"OpenLoopCLPass: cannot see which list {owner.name} advances the cycle with")
                    actual = calls[0].args[pos].id
                _chk(r, actual in derived, om, 'OpenLoopCLPass.schedule_with_top_level_callee.' + g_.name, f"cycle advance runs {actual}[i]()",
                     f"the method wrapper advances the cycle by running `{actual}`, which is not built from the per-edge list `{lst}` that "
                     f"holds the dump functions: cycles advanced by method calls are missing from the waveform", c_)
                break
    r.require_floor(8 if not r.findings else 0)
    return r




# ---------------------------------------------------------------------------
# VcdGenerationPass: the roles of the closure variables are discovered structurally, not by name
def _chk(r, ok, mod, fn, construct, msg, node=None, nontrivial=True):
    if ok:
        r.ok(mod, fn, construct, nontrivial=nontrivial)
    else:
        r.bad(mod, fn, construct, msg, getattr(node, 'lineno', 0))
    return bool(ok)


def _prints_to(node, fvar, nested=False):
    """print(...) calls whose file= keyword is the dump-file variable"""
    it = ast.walk(node) if nested else walk_no_nested(node)
    return [n for n in it if _is_call(n, name='print') and
            any(k.arg == 'file' and isinstance(k.value, ast.Name) and k.value.id == fvar for k in n.keywords)]


def _local_def(name, at):
    owner, b = _lookup(name, at)
    if len(b) == 1 and b[0][0] == 'def' and isinstance(b[0][1], ast.FunctionDef):
        return b[0][1]
    return None


def _plain_body(func):
    return [s for s in func.body if not isinstance(s, (ast.Pass, ast.Nonlocal, ast.Global)) and
            not (isinstance(s, ast.Expr) and isinstance(s.value, ast.Constant))]


def _dump_chain(mk):
    """follow what make_vcd_func returns down to the function doing the per-cycle work:
    returns (function, {its parameter: name in make_vcd_func's scope or None}, [names of the hops])"""
    rets = [n for n in _own_nodes(mk) if isinstance(n, ast.Return) and n.value is not None]
    if len(rets) != 1:
        raise AnalysisError("make_vcd_func: expected a single return of the dump function")
    e = rets[0].value
    vis = {p: p for p in _params(mk)}
    hops = []
    for _ in range(6):
        if isinstance(e, ast.Call) and isinstance(e.func, ast.Name) and not e.keywords:
            g = _local_def(e.func.id, e)
            if g is None:
                raise AnalysisError(f"make_vcd_func: returned callable {norm(e)} is not a local function")
            hops.append(g.name)
            vis = dict(vis)
            for p, a in zip(_params(g), e.args):
                vis[p] = vis.get(a.id) if isinstance(a, ast.Name) else None
            rr = [n for n in _own_nodes(g) if isinstance(n, ast.Return) and n.value is not None]
            if len(rr) != 1:
                raise AnalysisError(f"{g.name}: expected a single return")
            e = rr[0].value
            continue
        if isinstance(e, ast.Name):
            h = _local_def(e.id, e)
            if h is None:
                raise AnalysisError(f"make_vcd_func: returned name {e.id} is not a local function")
            hops.append(h.name)
            body = _plain_body(h)
            if len(body) == 1 and isinstance(body[0], ast.Expr) and isinstance(body[0].value, ast.Call) \
                    and isinstance(body[0].value.func, ast.Name) and not _params(h):
                call = body[0].value
                k = _local_def(call.func.id, call)
                if k is not None and not call.keywords:
                    hops.append(k.name)
                    return k, {p: (vis.get(a.id) if isinstance(a, ast.Name) else None) for p, a in zip(_params(k), call.args)}, hops
            if _params(h):
                raise AnalysisError(f"{h.name}: the scheduled dump function takes parameters")
            return h, {}, hops
        break
    raise AnalysisError("make_vcd_func: cannot follow the returned dump function")


class _Vcd:
    """anchors of VcdGenerationPass.make_vcd_func"""
    def __init__(self, repo):
        self.mod = m = repo.mod(VCD)
        self.mk = mk = m.get_func('VcdGenerationPass.make_vcd_func')
        self.q = 'VcdGenerationPass.make_vcd_func'
        opens = [n for n in _own_nodes(mk) if isinstance(n, ast.Assign) and _is_call(n.value, name='open')
                 and len(n.targets) == 1 and isinstance(n.targets[0], ast.Name)]
        if len(opens) != 1:
            raise AnalysisError("make_vcd_func: expected exactly one file opened for the dump")
        self.fvar = opens[0].targets[0].id
        mode = opens[0].value.args[1] if len(opens[0].value.args) > 1 else None
        self.open_ok = mode is not None and isinstance(mode, ast.Constant) and mode.value in ('w', 'wt', 'w+')
        self.dump, self.dump_args, self.hops = _dump_chain(mk)
        self.dq = self.q + '.' + self.dump.name
        # the recursive header function
        rec = [f for f in _nested_defs(mk) if any(_is_call(n, name=f.name) for n in ast.walk(f))]
        if len(rec) != 1:
            raise AnalysisError("make_vcd_func: expected one recursive header function")
        self.rec = rec[0]
        self.rq = self.q + '.' + self.rec.name


def _table_roles(v, name):
    """role of every position of a row of the per-cycle table: 'sig' (a member of net i), 'sym' (symbol of net i), 'idx' (i itself)"""
    colls = _collected(v.mk, name)
    if len(colls) != 1 or not isinstance(colls[0].elt, ast.Tuple) or colls[0].src is None:
        raise AnalysisError(f"make_vcd_func: {name} is not built at one site from (signal, symbol[, index]) rows")
    c = colls[0]
    ii = _index_iter(c.src, c.var)
    ivar = ii[1] if ii is not None else None
    roles = []
    for e in c.elt.elts:
        e = _res(e, c.node)
        if ivar is not None and norm(e) == ivar:
            roles.append('idx')
        elif isinstance(e, ast.Subscript) and norm(e.slice) in ('0', '-1'):
            roles.append('sig')
        else:
            roles.append('sym')
    if roles.count('sig') != 1 or roles.count('sym') != 1:
        raise AnalysisError(f"make_vcd_func: rows of {name} are not (signal, symbol[, net index]): {norm(c.elt)}")
    return roles


def _net_loop(v):
    loops = [s for s in v.dump.body if isinstance(s, ast.For) and any(_is_call(n, name='print') for n in ast.walk(s))]
    if len(loops) != 1:
        raise AnalysisError(f"{v.dump.name}: expected exactly one loop printing value changes")
    lp = loops[0]
    it, tgt, idx = lp.iter, lp.target, None
    ii = _index_iter(it, tgt)
    if ii is not None and _range_gap(it) is not None:
        raise AnalysisError(f"{v.dump.name}: the value loop does not run over the whole table: {_range_gap(it)}")
    if ii is not None and ii[1] is not None and ii[2] is None:
        # for i in range(len(T)): sig, sym = T[i]
        un = [s for s in lp.body if isinstance(s, ast.Assign) and len(s.targets) == 1 and isinstance(s.targets[0], ast.Tuple)
              and all(isinstance(x, ast.Name) for x in s.targets[0].elts) and norm(s.value) == f'{ii[0]}[{ii[1]}]']
        if len(un) != 1:
            raise AnalysisError(f"{v.dump.name}: index loop without `signal, symbol = table[i]`")
        idx, row, table = ii[1], un[0].targets[0], ii[0]
    elif _is_call(it, name='enumerate', nargs=1):
        if not (isinstance(tgt, ast.Tuple) and len(tgt.elts) == 2 and isinstance(tgt.elts[0], ast.Name)
                and (isinstance(it.args[0], ast.Name) or _is_call(it.args[0], name='zip', nargs=2))):
            raise AnalysisError(f"{v.dump.name}: enumerate target outside the understood shapes")
        idx, row, table = tgt.elts[0].id, tgt.elts[1], (it.args[0].id if isinstance(it.args[0], ast.Name) else None)
    elif isinstance(it, ast.Name):
        row, table = tgt, it.id
    else:
        row, table = tgt, None
    v.inline = None
    src = it.args[0] if _is_call(it, name='enumerate', nargs=1) else it
    if _is_call(src, name='zip', nargs=2) and all(isinstance(a, ast.Name) for a in src.args):
        # the loop walks the net table and the symbol table side by side: row = (net, symbol), signal = net[0]
        if not (isinstance(row, ast.Tuple) and len(row.elts) == 2 and all(isinstance(x, ast.Name) for x in row.elts)):
            raise AnalysisError(f"{v.dump.name}: zip rows are not unpacked as (net, symbol)")
        netv, symv = row.elts[0].id, row.elts[1].id
        sg = [s_.targets[0].id for s_ in lp.body if isinstance(s_, ast.Assign) and len(s_.targets) == 1 and isinstance(s_.targets[0], ast.Name)
              and isinstance(s_.value, ast.Subscript) and norm(s_.value.value) == netv and norm(s_.value.slice) in ('0', '-1')]
        if len(sg) != 1:
            raise AnalysisError(f"{v.dump.name}: no `signal = {netv}[0]` in a loop over zip(nets, symbols)")
        v.netidx = None
        v.inline = (src.args[0].id, src.args[1].id, idx, lp)
        return lp, idx, sg[0], symv, norm(src)
    if table is None:
        raise AnalysisError(f"{v.dump.name}: the value loop does not iterate over the per-cycle table")
    roles = _table_roles(v, table)
    if not (isinstance(row, ast.Tuple) and len(row.elts) == len(roles) and all(isinstance(x, ast.Name) for x in row.elts)):
        raise AnalysisError(f"{v.dump.name}: the value loop does not unpack the rows of {table} ({'/'.join(roles)})")
    names = {}
    for role, x in zip(roles, row.elts):
        names.setdefault(role, x.id)
    v.netidx = names.get('idx')
    return lp, idx, names['sig'], names['sym'], table


def _clk_symbol(v, e):
    """(symbol table name, clock index name) if e denotes table[clock index] (possibly through a closure alias)"""
    x = _res(e, e)
    if isinstance(x, ast.Subscript) and isinstance(x.value, ast.Name) and isinstance(x.slice, ast.Name):
        return x.value.id, x.slice.id
    return None


def _render(call, env, v):
    """text printed by a print(...) to the dump file under the abstract environment: computable integers are
    rendered, the clock symbol becomes a marker"""
    if any(k.arg == 'sep' for k in call.keywords):
        raise AnalysisError(f"print with sep= outside the template domain: {norm(call)[:60]}")
    end = '\n'
    for k in call.keywords:
        if k.arg == 'end':
            if not (isinstance(k.value, ast.Constant) and isinstance(k.value.value, str)):
                raise AnalysisError("print end= is not a constant")
            end = k.value.value
    texts = []
    for a in call.args:
        out = ''
        for p in _tmpl(a):
            if isinstance(p, str):
                out += p
            elif p.spec or p.conv != -1:
                raise AnalysisError(f"formatted hole in a clock/time line: {p!r}")
            elif _clk_symbol(v, p.expr) is not None and getattr(v, 'clk', None) in (None, _clk_symbol(v, p.expr)):
                out += '\x00C\x00'
            else:
                try:
                    val = Evaluator(env, arith=True).ev(p.expr)
                except Exception:
                    val = None
                if not isinstance(val, int) or isinstance(val, bool):
                    out += '\x00?\x00'       # neither the clock symbol nor a computable integer
                else:
                    out += str(val)
        texts.append(out)
    return ' '.join(texts) + end


def _clock_run(v, loop, cnt, n):
    """abstract run of the straight-line part of the dump function for cycle number n"""
    env = {cnt: n}
    events = []
    for st in v.dump.body:
        if st is loop:
            events.append(('values', None, st))
            continue
        if isinstance(st, (ast.Nonlocal, ast.Global, ast.Pass)) or (isinstance(st, ast.Expr) and isinstance(st.value, ast.Constant)):
            continue
        if isinstance(st, ast.Assign) and len(st.targets) == 1 and isinstance(st.targets[0], ast.Name):
            try:
                env[st.targets[0].id] = Evaluator(env, arith=True).ev(st.value)
            except Exception:
                env.pop(st.targets[0].id, None)
            continue
        if isinstance(st, ast.AugAssign) and isinstance(st.target, ast.Name):
            nm = st.target.id
            if nm in env:
                try:
                    env[nm] = Evaluator(env, arith=True).ev(ast.BinOp(left=ast.Name(id=nm, ctx=ast.Load()), op=st.op, right=st.value))
                except Exception:
                    env.pop(nm, None)
            continue
        if isinstance(st, ast.Expr) and isinstance(st.value, ast.Call) and st.value in _prints_to(st, v.fvar):
            events.append(('text', _render(st.value, env, v), st))
            continue
        touches = _prints_to(st, v.fvar, nested=True) or any(
            isinstance(x, ast.Name) and x.id == cnt and isinstance(x.ctx, ast.Store) for x in ast.walk(st))
        if touches:
            events.append(('cond', None, st))
    return events, env.get(cnt)


def _stamp_leaves(v, lp):
    """what the integers printed after the value loop are computed from: (closure / parameter names, attribute expressions)"""
    D = v.dump
    after = False
    roots = []
    for st in D.body:
        if st is lp:
            after = True
            continue
        for c in _prints_to(st, v.fvar, nested=True):
            for a in c.args:
                for p in _tmpl(a):
                    if isinstance(p, Hole) and _clk_symbol(v, p.expr) is None:
                        roots.append(p.expr)
    names, attrs, seen, todo = set(), [], set(), list(roots)
    while todo:
        e = todo.pop()

        def visit(x):
            if isinstance(x, ast.Attribute):
                attrs.append(x)
                return
            if isinstance(x, ast.Name) and isinstance(x.ctx, ast.Load):
                local = [b for b in _bindings(D, x.id) if b[0] in ('assign', 'aug')]
                if local and not _declared_outer(D, x.id):
                    if x.id not in seen:
                        seen.add(x.id)
                        todo.extend(b[2] for b in local if isinstance(b[2], ast.AST))
                elif not hasattr(builtins, x.id):
                    names.add(x.id)
                return
            for ch in ast.iter_child_nodes(x):
                visit(ch)
        visit(e)
    return names, attrs


def _attr_writers(repo, attr):
    """who may write: (file, qualified function) of every store to an attribute of that name under pymtl3/"""
    out = []
    for rel in repo.py_files('pymtl3'):
        if attr not in repo.src(rel):
            continue
        mod = repo.mod(rel)
        for n in ast.walk(mod.tree):
            if isinstance(n, ast.Attribute) and n.attr == attr and isinstance(n.ctx, (ast.Store, ast.Del)):
                out.append((rel, qualname(n) or '<module>'))
    return out


def _pairs_table(v, name, at):
    """the (signal, symbol) table, built by a comprehension or an append loop:
    returns (defining node, net table, symbol table, index var, filter conjuncts, pairing ok)"""
    if getattr(v, 'inline', None):
        nets_, syms_, idx_, lp_ = v.inline
        v.table_gap = None
        return lp_, nets_, syms_, idx_, _conjuncts([g for p_ in ast.walk(lp_) if _is_call(p_, name='print') for g in _cond_guards(stmt_of(p_))
                                                   if any(isinstance(n, ast.Name) and n.id == idx_ for n in ast.walk(g.test))
                                                   and not any(isinstance(n, ast.Subscript) for n in ast.walk(g.test))]), True
    colls = _collected(v.mk, name)
    roles = _table_roles(v, name)
    c = colls[0]
    e_sig, e_sym = c.elt.elts[roles.index('sig')], c.elt.elts[roles.index('sym')]
    e_sig, e_sym = _res(e_sig, c.node), _res(e_sym, c.node)
    nets = syms = ivar = None
    ok_pair = False
    it, tg = c.src, c.var
    ii = _index_iter(it, tg)
    if ii is not None and ii[1] is not None:
        nets, ivar, nv = ii
        members = [f"{nets}[{ivar}]"] + ([nv] if nv else [])
        ok_pair = isinstance(e_sig, ast.Subscript) and norm(e_sig.value) in members and norm(e_sig.slice) in ('0', '-1') \
            and isinstance(e_sym, ast.Subscript) and isinstance(e_sym.value, ast.Name) and norm(e_sym.slice) == ivar
        syms = e_sym.value.id if ok_pair else None
    elif _is_call(it, name='zip', nargs=2) and all(isinstance(a, ast.Name) for a in it.args) and isinstance(tg, ast.Tuple) \
            and len(tg.elts) == 2 and all(isinstance(x, ast.Name) for x in tg.elts):
        nets, syms = it.args[0].id, it.args[1].id
        ok_pair = isinstance(e_sig, ast.Subscript) and norm(e_sig.value) == tg.elts[0].id and norm(e_sig.slice) in ('0', '-1') \
            and norm(e_sym) == tg.elts[1].id
    else:
        raise AnalysisError(f"make_vcd_func: source of {name} outside the understood shapes: {norm(it)}")
    v.table_gap = _range_gap(it)
    # helper locals the source is computed from (e.g. `n = len(nets)`): they freeze the table size where THEY are assigned
    v.table_helpers = [_lookup(n.id, c.node)[1][0][1] for n in ast.walk(c.src) if isinstance(n, ast.Name)
                       and _unique_value(n.id, c.node) is not None and not isinstance(_unique_value(n.id, c.node), (ast.List, ast.Dict))]
    return (c.loop or c.node), nets, syms, ivar, c.conj, ok_pair


def rule_compress(repo):
    r = RuleResult('R-C16-compress', "per cycle and net: the line printed is <current value string><the net's symbol>, printed exactly when "
                                     "the string differs from the net's stored previous string, which is then updated; one falling and one "
                                     "rising clock line per call with increasing equidistant times")
    v = _Vcd(repo)
    m, D, dq = v.mod, v.dump, v.dq
    # wiring of the returned function: eval(repr(signal)) needs `s` to be the top component
    top = _params(v.mk)[1] if len(_params(v.mk)) > 1 else None
    _chk(r, v.dump_args.get('s') == top and top is not None, m, dq, f"{' -> '.join(v.hops)}: s bound to {v.dump_args.get('s')}",
         "the per-cycle dump function is not called with its parameter `s` bound to the top component: eval(repr(signal)) "
         "('s.<path>') does not reach the simulated value objects", D)
    lp, idx, sig, sym, table = _net_loop(v)
    prints = [n for n in ast.walk(lp) if _is_call(n, name='print')]
    if len(prints) != 1:
        raise AnalysisError(f"{D.name}: expected one value-change print in the loop, found {len(prints)}")
    P = prints[0]
    if P not in _prints_to(lp, v.fvar, nested=True):
        r.bad(m, dq, norm(P), f"the value-change line is not printed into the dump file ({v.fvar}): the file only holds the header "
              "and the clock", P.lineno)
        return _fin(r)
    Pst = stmt_of(P)
    if not (isinstance(Pst, ast.Expr) and Pst.value is P):
        raise AnalysisError(f"{D.name}: value-change print is not a statement")
    # --- the line printed
    parts = _tmpl(P.args[0]) if len(P.args) == 1 else None
    if parts is None or any(k.arg in ('end', 'sep') for k in P.keywords):
        r.bad(m, dq, norm(P), "a value change must be printed as one newline-terminated string", P.lineno)
        return _fin(r)
    shape_ok = len(parts) == 2 and all(isinstance(p, Hole) and not p.spec and p.conv == -1 for p in parts)
    if not _chk(r, shape_ok and isinstance(parts[1].expr, ast.Name) and parts[1].expr.id == sym, m, dq, f"print {_show(parts)}",
                f"a value-change line must be exactly <value string><symbol of this net> (VCD scalar changes take no separator; the vector "
                f"form carries its own trailing blank); the symbol must be `{sym}`, the one paired with the signal in `{table}`", P):
        return _fin(r)
    CUR = parts[0].expr
    # --- the value: eval(repr(signal)).to_bits().to_vcd_str()
    V = _res(CUR, P)
    chain_ok, why = False, "the printed value is not <signal value>.to_bits().to_vcd_str()"
    if _is_call(V, attr='to_vcd_str', nargs=0):
        E = _res(V.func.value, V)
        if _is_call(E, attr='to_bits', nargs=0):
            E2 = _res(E.func.value, E)
            if _is_call(E2, name='eval', nargs=1):
                A = _res(E2.args[0], E2)
                if _is_call(A, name='repr', nargs=1) and isinstance(A.args[0], ast.Name) and A.args[0].id == sig:
                    chain_ok = True
                else:
                    why = f"the evaluated expression is not repr({sig}) of the signal paired with the printed symbol"
            else:
                why = "the live value is not obtained by eval(repr(signal)) in the dump function's own scope"
        else:
            why = ("the value is not converted with to_bits() before to_vcd_str(): a bitstruct-typed signal has no to_vcd_str "
                   "(AttributeError at the first dump)")
    _chk(r, chain_ok, m, dq, f"value {norm(_deep(CUR, P))}", why, P)
    # --- the guard
    cg = _cond_guards(Pst)
    LV = K = None
    if not cg:
        r.ok(m, dq, "value line printed unconditionally (no change compression)", nontrivial=False)
    else:
        g = cg[0]
        t = g.test
        good = len(cg) == 1 and isinstance(t, ast.Compare) and len(t.ops) == 1 and isinstance(t.ops[0], (ast.Eq, ast.NotEq)) \
            and isinstance(g.polarity, bool)
        other = None
        if good:
            a, b = t.left, t.comparators[0]
            for x, y in ((a, b), (b, a)):
                xr = _res(x, P)       # the previous string may be read into a local first
                if isinstance(xr, ast.Subscript) and isinstance(xr.value, ast.Name) and _lookup(xr.value.id, P)[0] is not D \
                        and _lookup(xr.value.id, P)[0] is not None:
                    LV, K, other = xr.value.id, xr.slice, y
                    readnode = g.node if xr is x else stmt_of(xr)
                    break
            good = LV is not None
        if not good:
            r.bad(m, dq, ' and '.join(repr(x) for x in cg), "the value-change line is printed under a condition that is not exactly "
                  "`stored previous string != current string`: a changed value can be skipped (the waveform keeps the old value)", Pst.lineno)
            return _fin(r)
        ne = isinstance(t.ops[0], ast.NotEq) == g.polarity
        _chk(r, ne, m, dq, f"guard {g!r}", "the line is printed when the value is UNCHANGED and suppressed when it changed: the "
             "waveform never shows a new value", Pst)
        _chk(r, _same(other, CUR, P), m, dq, f"compared {norm(other)} / printed {norm(CUR)}",
             "the string compared with the stored one is not the string that is printed", Pst)
        kvars = {x for x in (idx, sig, sym, getattr(v, 'netidx', None)) if x}
        _chk(r, isinstance(K, ast.Name) and K.id in kvars, m, dq, f"slot {LV}[{norm(K)}]",
             f"the slot holding the previous string is not selected by a per-net loop variable ({', '.join(sorted(kvars))}): nets share "
             f"a slot, a change of one net hides or fakes a change of another", Pst)
        # --- the store
        stores = []
        for n in _own_nodes(D):
            tg = n.targets if isinstance(n, ast.Assign) else [n.target] if isinstance(n, (ast.AugAssign, ast.AnnAssign)) else []
            for t_ in tg:
                if isinstance(t_, ast.Subscript) and isinstance(t_.value, ast.Name) and t_.value.id == LV:
                    stores.append((n, t_))
            if isinstance(n, ast.Call) and isinstance(n.func, ast.Attribute) and isinstance(n.func.value, ast.Name) \
                    and n.func.value.id == LV and n.func.attr not in ('get', 'index', 'count', 'copy', '__getitem__', 'keys', 'values', 'items'):
                raise AnalysisError(f"{D.name}: {LV} is modified through {norm(n)[:50]} (outside the understood shapes)")
        if not stores:
            r.bad(m, dq, f"no store into {LV}", "the stored previous string is never updated: once a net returns to its very first "
                  "value nothing is printed (the waveform keeps the intermediate value), and every later cycle re-prints", D.lineno)
        gp = {(id(x.node), x.polarity) for x in cg}
        covered = False
        for st, tgt in stores:
            c = f"{norm(st)}"
            if not isinstance(st, ast.Assign):
                r.bad(m, dq, c, "the previous-value slot is updated by something other than a plain assignment", st.lineno)
                continue
            okv = _same(st.value, CUR, P)
            okk = norm(tgt.slice) == norm(K)
            if not _chk(r, okv and okk, m, dq, c, ("the string stored as previous value is not the string printed/compared"
                                                     if not okv else f"the slot written ({norm(tgt.slice)}) is not the slot compared "
                                                     f"({norm(K)})") + ": the next comparison of this net is made against a wrong string, a "
                        "real change can be suppressed", st):
                continue
            before = _pos(lp, st) is not None and _pos(lp, st) < _pos(lp, readnode) and not any(x is st for x in ast.walk(readnode))
            if before:
                r.bad(m, dq, c, "the previous-value slot is overwritten before it is compared: the comparison always finds equal "
                      "strings and no change is ever printed", st.lineno)
                continue
            gs = {(id(x.node), x.polarity) for x in _cond_guards(st)}
            if gs <= gp and len(_loop_guards(st)) == len(_loop_guards(Pst)) and any(x is st for x in ast.walk(lp)):
                covered = True
        if stores:
            _chk(r, covered, m, dq, f"store into {LV}[{norm(K)}] whenever the line is printed",
                 "on some path the line is printed but the stored previous string is not updated: when the net later returns to the "
                 "stale stored value the change is not printed", Pst)
    # --- (signal, symbol) table
    val, nets, syms, ivar, ifs, ok_pair = _pairs_table(v, table, lp)
    if not _chk(r, ok_pair, m, v.q, f"{table} = {norm(val)[:110]}", "the table does not pair a member of net i with the symbol of "
                "net i: values are printed under another net's symbol", val):
        return _fin(r)
    v.nets, v.syms = nets, syms
    # order of initialisation: the polled table is computed only after the net / symbol tables are complete, i.e. after every
    # statement of make_vcd_func that appends to them -- directly or through a local function it calls (the header recursion
    # appends the one-signal nets of signals that belong to no value net)
    def appends_tables(node, seen=()):
        for n in ast.walk(node):
            if _is_call(n, attr='append') and isinstance(n.func.value, ast.Name) and n.func.value.id in (nets, syms):
                return True
            if isinstance(n, ast.Call) and isinstance(n.func, ast.Name) and n.func.id not in seen:
                d_ = _local_def(n.func.id, n)
                if d_ is not None and d_ is not node and appends_tables(d_, tuple(seen) + (n.func.id,)):
                    return True
        return False
    sites = []
    for site in [val] + list(getattr(v, 'table_helpers', []) if not getattr(v, 'inline', None) else []):
        while site is not None and not any(site is s_ for s_ in v.mk.body):
            site = parent(site)
        if site is not None:
            sites.append([i_ for i_, s_ in enumerate(v.mk.body) if s_ is site][0])
    site = v.mk.body[min(sites)] if sites else None
    if site is not None:
        k_site = min(sites)
        late = [s_ for s_ in v.mk.body[k_site + 1:] if not isinstance(s_, (ast.FunctionDef, ast.ClassDef)) and appends_tables(s_)]
        _chk(r, not late, m, v.q, f"{table} is computed after the last statement that extends {nets} / {syms}",
             f"`{norm(late[0])[:60]}` runs AFTER {table} was computed and appends further nets to {nets} / {syms} (the header recursion adds a "
             f"one-signal net for every signal that is in no value net): those nets are declared with $var and get an initial value but are "
             f"never polled, their signals stay at the default in the waveform while the simulator value changes" if late else '', site)
    _chk(r, v.table_gap is None, m, v.q, f"{table} runs over every index of {nets}",
         f"the per-cycle table does not run over all of {nets} ({v.table_gap}): a net that is declared with $var and given an initial value "
         f"is never polled, its signals keep the initial value in the waveform forever", val)
    clock_sym = [n for n in _own_nodes(v.mk) if isinstance(n, ast.Assign) and len(n.targets) == 1 and isinstance(n.targets[0], ast.Name)
                 and isinstance(n.value, ast.Subscript) and isinstance(n.value.value, ast.Name) and n.value.value.id == syms
                 and isinstance(n.value.slice, ast.Name)]
    if len(clock_sym) != 1:
        raise AnalysisError("make_vcd_func: cannot find `<clock symbol> = <symbol table>[<clock net index>]`")
    clkidx = clock_sym[0].value.slice.id
    badf = []
    if ifs is None:
        badf.append('<filter that is not a conjunction>')
    for pol, t in (ifs or []):
        okf = isinstance(t, ast.Compare) and len(t.ops) == 1 and isinstance(t.ops[0], (ast.Eq, ast.NotEq)) and \
            {norm(t.left), norm(t.comparators[0])} == {ivar, clkidx} and (isinstance(t.ops[0], ast.NotEq) == (pol == 'pos'))
        if not okf:
            badf.append(('' if pol == 'pos' else 'not ') + norm(t))
    _chk(r, not badf, m, v.q, f"{table}: filters [{', '.join(('' if p_ == 'pos' else 'not ') + norm(t) for p_, t in (ifs or []))}]",
         f"nets other than the clock net are left out of the per-cycle table ({badf[0] if badf else ''}): their signals keep "
         f"their initial value in the waveform forever", val)
    # --- every slot the per-cycle loop compares was given a string by the header (the placeholder the list is created with
    #     is not a value string: comparing against it prints a line for a net that did not change)
    if LV is not None:
        inits = [n for n in _own_nodes(v.mk) if isinstance(n, ast.Assign) and any(isinstance(t, ast.Subscript) and norm(t.value) == LV
                                                                                     for t in n.targets)]
        excl = [g for n in inits for g in _cond_guards(n)]
        compared_all = not (ifs or [])          # no net is excluded from the per-cycle comparison
        _chk(r, bool(inits) and not (excl and compared_all), m, v.q,
             f"slots of {LV}: initialised {'under ' + repr(excl[0]) if excl else 'for every net'}, compared "
             f"{'for every net' if compared_all else 'except ' + ', '.join(norm(t) for _, t in ifs)}",
             f"the per-cycle loop compares the slot of every net, but the header leaves the slot of the net excluded by `{excl[0]!r}` at the "
             f"placeholder the list was created with (not a value string): at the first dump that net's unchanged value differs from the "
             f"placeholder and is printed -- for the clock net `0<clk>` lands in time 0 after the header's `1<clk>`, the first rising edge "
             f"disappears" if excl else f"the header never stores an initial string into {LV}", inits[0] if inits else v.mk)
    # --- clock lines: abstract run of the straight-line part for cycle numbers 0..4
    v.clk = (syms, clkidx)
    cnts = [x for n in _own_nodes(D) if isinstance(n, ast.Nonlocal) for x in n.names]
    header = [s for s in v.mk.body if isinstance(s, ast.Expr) and isinstance(s.value, ast.Call) and s.value in _prints_to(s, v.fvar)]
    t0 = None
    for s in header:
        try:
            toks = _render(s.value, {}, v).split()
        except AnalysisError:
            continue
        if len(toks) == 2 and re.fullmatch(r'#\d+', toks[0]) and toks[1] == '1\x00C\x00':
            t0, t0_stmt = int(toks[0][1:]), s
    if t0 is None:
        r.bad(m, v.q, "header: #<t0> 1<clock symbol>", "the header does not start the clock with a rising edge at an initial time", v.mk.lineno)
        return _fin(r)
    # within one time stamp the last value written for an identifier wins: no default-value line of the clock net may follow
    # the header's rising edge (the per-cycle pattern assumes clk = 1 from #t0 on)
    late = []
    for s_ in v.mk.body[v.mk.body.index(t0_stmt) + 1:]:
        if isinstance(s_, ast.For) and _prints_to(s_, v.fvar, nested=True):
            excl = any(isinstance(n, ast.Name) and n.id == clkidx for g_ in
                       [g for p_ in _prints_to(s_, v.fvar, nested=True) for g in _cond_guards(stmt_of(p_))] for n in ast.walk(g_.test))
            if not excl:
                late.append(s_)
    _chk(r, not late, m, v.q, f"header: #{t0} 1<clk> is the last clock value written at time {t0}",
         f"the loop `for {norm(late[0].target) if late else ''} in {norm(late[0].iter) if late else ''}` prints a value line for every net, the "
         f"clock net included, AFTER the header's `#{t0} 1<clk>`: the default `0<clk>` overrides the rising edge inside time {t0}, the clock "
         f"stays low for the whole first cycle (its first rising edge is lost)", late[0] if late else v.mk)
    # everything written for a cycle reaches the file by the end of the dump call: the last write is followed by / is an
    # unconditional flush (or the file is closed by a finaliser registered unconditionally in make_vcd_func)
    last_write = last_flush = -1
    for k_, s_ in enumerate(D.body):
        if _prints_to(s_, v.fvar, nested=True) or any(_is_call(n, attr='write') and norm(n.func.value) == v.fvar for n in ast.walk(s_)):
            last_write = k_
        if isinstance(s_, ast.Expr) and isinstance(s_.value, ast.Call):
            c_ = s_.value
            if (c_ in _prints_to(s_, v.fvar) and any(k.arg == 'flush' and isinstance(k.value, ast.Constant) and k.value.value is True
                                                    for k in c_.keywords)) or \
                    (_is_call(c_, attr='flush', nargs=0) and norm(c_.func.value) == v.fvar):
                last_flush = k_
    fin = [s_ for s_ in v.mk.body if isinstance(s_, ast.Expr) and isinstance(s_.value, ast.Call) and
           norm(s_.value.func) in ('atexit.register', 'weakref.finalize') and
           any(norm(a) in (f'{v.fvar}.close', f'{v.fvar}.flush') for a in s_.value.args)]
    _chk(r, last_flush >= last_write or bool(fin), m, dq, "every dump call ends with an unconditional flush of the dump file",
         "the last write of a dump call is not followed by (and is not itself) an unconditional flush, and the file is never closed: the "
         "time stamps and clock edges of trailing cycles (e.g. idle cycles at the end of a run) stay in the buffer, a reader sees the "
         "waveform stop early", D.body[last_write] if last_write >= 0 else D)
    # what the time stamps are a function of: it must be a counter owned by this pass (a closure variable of make_vcd_func
    # written only by the dump function itself), stepped once per dump call
    leaves_n, leaves_a = _stamp_leaves(v, lp)
    if leaves_a:
        a0 = leaves_a[0]
        writers = _attr_writers(repo, a0.attr)
        foreign = [w for w in writers if not (w[0] == VCD and w[1].startswith(v.q))]
        if foreign:
            r.bad(m, dq, f"time stamp from {norm(a0)}", f"the #<time> stamps are computed from `{norm(a0)}`, a counter this pass does not own: "
                  f"it is written by {', '.join(sorted({w[0].split('/')[-1] + ':' + w[1] for w in foreign}))} at moments unrelated to the dump "
                  f"call (e.g. before the edge functions in one tick builder's sim_reset, after the dump in another), so `one stamp step per "
                  f"dumped cycle` cannot hold: stamps repeat / run ahead and values appear in the wrong clock period", a0.lineno)
            return _fin(r)
        raise AnalysisError(f"{D.name}: time stamps depend on the attribute {norm(a0)} (attribute-held counters are outside the understood shapes)")
    cnt = None
    for c in cnts:
        ini = [b for b in _bindings(v.mk, c) if b[0] == 'assign' and isinstance(b[2], ast.Constant) and isinstance(b[2].value, int)]
        if ini and c in leaves_n:
            cnt, c0 = c, ini[0][2].value
    if cnt is None:
        r.bad(m, dq, f"time stamp from {sorted(leaves_n) or 'constants'}", "the #<time> stamps do not depend on a per-call counter owned by "
              "the dump function (a closure variable of make_vcd_func, initialised to an integer, declared nonlocal): every dumped cycle "
              "gets the same / an unrelated time", D.lineno)
        return _fin(r)
    others = [f.name for f in _nested_defs(v.mk) if f is not D and _declared_outer(f, cnt) and
              any(b[0] in ('assign', 'aug') for b in _bindings(f, cnt))]
    _chk(r, not others and len([b for b in _bindings(v.mk, cnt)]) == 1, m, dq, f"counter {cnt}: written only by {D.name}",
         f"the dump counter is also written by {others or 'make_vcd_func (more than once)'}: it no longer counts dump calls", D)
    rises, falls, msg = [t0], [], None
    for n in range(c0, c0 + 5):
        events, nxt = _clock_run(v, lp, cnt, n)
        r.evaluations += 1
        kinds = [e[0] for e in events]
        if 'cond' in kinds:
            msg = "a clock line / the cycle counter sits inside a conditional or loop: the clock does not toggle exactly once per dumped cycle"
            break
        vi = kinds.index('values')
        early = [e for e in events[:vi] if e[0] == 'text' and '#' in e[1]]
        if early:
            msg = ("a timestamp is printed before the value changes of the cycle: the changes are attributed to the next clock period "
                   "(every signal appears one cycle late)")
            break
        toks = ''.join(e[1] for e in events[vi + 1:] if e[0] == 'text').split()
        if any(t.startswith('#') and '\x00?' in t for t in toks):
            raise AnalysisError(f"{D.name}: a timestamp expression is outside the arithmetic domain")
        if not (len(toks) == 4 and re.fullmatch(r'#-?\d+', toks[0]) and toks[1] == '0\x00C\x00'
                and re.fullmatch(r'#-?\d+', toks[2]) and toks[3] == '1\x00C\x00'):
            shown = ' '.join(toks).replace('\x00C\x00', '<clk>').replace('\x00?\x00', '<other>')
            msg = f"after the value changes the call must print exactly `#t 0<clk>` then `#t' 1<clk>`; it prints `{shown}`"
            break
        falls.append(int(toks[0][1:]))
        rises.append(int(toks[2][1:]))
        if nxt != n + 1:
            msg = f"the cycle counter is not advanced by exactly one per call ({n} -> {nxt}): timestamps repeat or skip"
            break
    if msg is None:
        for i, f in enumerate(falls):
            if not (rises[i] < f < rises[i + 1]):
                msg = f"timestamps are not strictly increasing: rise {rises[i]}, fall {f}, rise {rises[i + 1]}"
                break
        per = {rises[i + 1] - rises[i] for i in range(len(rises) - 1)}
        if msg is None and len(per) != 1:
            msg = f"the clock period is not constant (rising edges at {rises}): cycle boundaries drift against the value changes"
    _chk(r, msg is None, m, dq, f"clock: rising {rises}, falling {falls}", msg or '', D)
    # the clock symbol printed is the symbol of the clock net
    _chk(r, v.open_ok, m, v.q, f"{v.fvar} = open(..., 'w')", "the dump file is not opened for (over)writing", v.mk, nontrivial=False)
    return _fin(r)


def _fin(r):
    r.require_floor({'R-C16-compress': 18, 'R-C16-header': 33, 'R-C16-textwave': 13}.get(r.rule, 1) if not r.findings else 0)
    return r


# ---------------------------------------------------------------------------
# R-C16-header
def _dump_slot(v):
    """name of the closure list holding the previous strings (from the guard of the value-change print)"""
    lp = _net_loop(v)[0]
    for n in ast.walk(lp):
        if isinstance(n, ast.Compare) and len(n.ops) == 1 and isinstance(n.ops[0], (ast.Eq, ast.NotEq)):
            for x in (n.left, n.comparators[0]):
                x = _res(x, n)
                if isinstance(x, ast.Subscript) and isinstance(x.value, ast.Name):
                    owner = _lookup(x.value.id, n)[0]
                    if owner is not None and owner is not v.dump:
                        return x.value.id
    return None


def _tokens(parts):
    """whitespace-separated tokens of a template; a leading hole (indentation) counts as whitespace"""
    text, holes = _flat(parts)
    if parts and isinstance(parts[0], Hole):
        text = text.replace('\x000\x00', ' ', 1)
    return text.split(), holes


def _hole_of(tok, holes):
    m = re.fullmatch(r'\x00(\d+)\x00', tok)
    return holes[int(m.group(1))] if m else None


def _conjuncts(guards):
    """flatten positive guards into conjuncts; returns None when a guard is not a pure conjunction"""
    out = []
    for g in guards:
        if g.polarity is not True and not (g.polarity is False and not isinstance(g.test, ast.BoolOp)):
            if g.polarity is False and isinstance(g.test, ast.BoolOp) and isinstance(g.test.op, ast.Or):
                out.extend(('not', x) for x in g.test.values)
                continue
            return None
        if g.polarity is False:
            out.append(('not', g.test))
        elif isinstance(g.test, ast.BoolOp) and isinstance(g.test.op, ast.And):
            out.extend(('pos', x) for x in g.test.values)
        else:
            out.append(('pos', g.test))
    res = []
    for pol, t in out:
        while isinstance(t, ast.UnaryOp) and isinstance(t.op, ast.Not):
            t, pol = t.operand, ('not' if pol == 'pos' else 'pos')
        res.append((pol, t))
    return res


def _bits_method(repo, name):
    bm = repo.mod(BITS)
    f = bm.methods('Bits').get(name)
    if f is None:
        raise AnalysisError(f"anchor vanished: Bits.{name}")
    return bm, f, _params(f)[0]


def _ret_candidates(f):
    """(value expression, statement whose guards select it) for everything the function can return"""
    cands = []
    for rt in [n for n in _own_nodes(f) if isinstance(n, ast.Return)]:
        if rt.value is None:
            raise AnalysisError(f"{f.name}: bare return")
        bs = _bindings(f, rt.value.id) if isinstance(rt.value, ast.Name) else []
        if bs and all(b[0] == 'assign' for b in bs):
            for b in bs:
                cands.append((b[2], b[1], _cond_guards(b[1]) + _cond_guards(rt)))
        else:
            cands.append((rt.value, rt, _cond_guards(rt)))
    from sa.astutil import Guard
    out = []
    while cands:
        val, st, gs = cands.pop(0)
        if isinstance(val, ast.IfExp):      # a if c else b
            cands.append((val.body, st, gs + [Guard(val.test, True, 'if', val)]))
            cands.append((val.orelse, st, gs + [Guard(val.test, False, 'if', val)]))
        else:
            out.append((val, st, gs))
    return out


def _value_ok(e, me):
    return norm(e) in (f'int({me}._uint)', f'{me}._uint')


def _width_ok(w, me):
    return isinstance(w, ast.AST) and norm(w) in (f'{me}._nbits', f'{me}.nbits')


def _vcd_str_format(r, repo):
    bm, f, me = _bits_method(repo, 'to_vcd_str')
    cands = _ret_candidates(f)
    consts = {1, 2, 3, 64}
    for _, _, gs in cands:
        for g in gs:
            for c in ast.walk(g.test):
                if isinstance(c, ast.Constant) and isinstance(c.value, int) and not isinstance(c.value, bool):
                    consts |= {c.value - 1, c.value, c.value + 1}

    def leaf(e):
        if isinstance(e, ast.Attribute) and norm(e) in (f'{me}._nbits', f'{me}.nbits'):
            return leaf.n
        return NotImplemented
    seen = set()
    for n in sorted(c for c in consts if c >= 1):
        leaf.n = n
        sel = []
        for val, st, gs in cands:
            r.evaluations += 1
            if all(bool(Evaluator({}, leaf=leaf).ev(g.test)) == g.polarity for g in gs):
                sel.append((val, st))
        if len(sel) != 1:
            raise AnalysisError(f"Bits.to_vcd_str: {len(sel)} return values selected for nbits={n}")
        val, st = sel[0]
        cls = 'width 1' if n == 1 else 'width > 1'
        if (id(st), cls) in seen:
            continue
        seen.add((id(st), cls))
        parts = _binparts(val, st)
        shown = ''.join(p if isinstance(p, str) else repr(p) for p in parts)
        if n == 1:
            ok = len(parts) == 1 and isinstance(parts[0], BinField) and _value_ok(parts[0].value, me) and \
                (parts[0].width in (None, 1) or _width_ok(parts[0].width, me))
            _chk(r, ok, bm, 'Bits.to_vcd_str', f"nbits == 1: {shown}", "a 1-bit value must be rendered as the bare binary digit of the "
                 "visible value (_uint), no prefix, no blank (VCD scalar change `0!` / `1!`)", st)
        else:
            ok = len(parts) == 3 and parts[0] == 'b' and parts[2] == ' ' and isinstance(parts[1], BinField) and \
                _value_ok(parts[1].value, me) and _width_ok(parts[1].width, me) and parts[1].zero
            _chk(r, ok, bm, 'Bits.to_vcd_str', f"nbits == {n}: {shown}", "a multi-bit value must be rendered as 'b' + exactly nbits "
                 "zero-padded binary digits of the visible value (_uint) + one blank (the symbol is appended directly; equal values must "
                 "give equal strings for the change compression)", st)


def _walk_children(R, stmt, mparam):
    """evaluate a hand-written enumeration of a component's children (the statement holding the recursive calls) on small
    field shapes with components in fields, lists and nested lists; returns (descriptions of components missed, visited wrongly)"""
    import copy
    from sa.listwalk import ListWalk

    class Sub(ast.NodeTransformer):
        def visit_Call(self, n):
            self.generic_visit(n)
            f = n.func
            if isinstance(f, ast.Attribute) and f.attr in ('items', 'values', 'keys') and not n.args and \
                    norm(f.value) in (f'{mparam}.__dict__', f'vars({mparam})'):
                return ast.copy_location(ast.Name(id=f'__{f.attr}__', ctx=ast.Load()), n)
            if isinstance(f, ast.Attribute) and f.attr == 'get_child_components' and norm(f.value) == mparam:
                return ast.copy_location(ast.Name(id='__children__', ctx=ast.Load()), n)
            return n
    frag = [ast.fix_missing_locations(Sub().visit(copy.deepcopy(st_))) for st_ in (stmt if isinstance(stmt, list) else [stmt])]
    shapes = [
        [('a', 'field a'), ('sig', 1), ('lst', ['list lst[0]', 'list lst[1]']),
         ('nest', [['nested list nest[0][0]'], ['nested list nest[1][0]', ['nested list nest[1][1][0]']]]),
         ('mix', [2, 'list mix[1]']), ('_hidden', 'private field'), ('ifc', 3), ('empty', [])],
        [],
    ]
    missing, extra = [], []
    for fields in shapes:
        def comps(o):
            if isinstance(o, list):
                return [c for x in o for c in comps(x)]
            return [o] if isinstance(o, str) else []
        expected = [c for n_, o in fields if not n_.startswith('_') for c in comps(o)]
        visited = []
        env = {p_: '' for p_ in _params(R)}
        env.update({'__items__': [(n_, o) for n_, o in fields], '__values__': [o for _, o in fields],
                    '__keys__': [n_ for n_, _ in fields], '__children__': list(expected)})
        w = ListWalk({'Component'}, env=env, funcs={R.name: lambda c, *a: visited.append(c)})
        w.block(frag)
        missing += [c for c in expected if c not in visited]
        extra += [str(c) for c in visited if c not in expected or visited.count(c) > 1]
    return missing, sorted(set(extra))


def rule_header(repo):
    r = RuleResult('R-C16-header', "every top-level signal of every component gets a $var of its type's width under its net's symbol, "
                                   "every net gets its initial value, the clock index names the net holding s.clk, to_vcd_str has the VCD format")
    v = _Vcd(repo)
    m, mk, R, q, rq = v.mod, v.mk, v.rec, v.q, v.rq
    top = _params(mk)[1]
    lp, idx, sig, sym, table = _net_loop(v)
    _, nets, syms, ivar, ifs, ok_pair = _pairs_table(v, table, lp)
    if not ok_pair or not nets or not syms:
        raise AnalysisError("make_vcd_func: (signal, symbol) table not understood (R-C16-compress reports it)")
    LV = _dump_slot(v)
    # A. the function returned is the one stored under vcd_func
    cm = m.get_func('VcdGenerationPass.__call__')
    sets = [n for n in ast.walk(cm) if _is_call(n, attr='set_metadata', nargs=2) and isinstance(n.args[0], ast.Attribute)
            and n.args[0].attr == 'vcd_func']
    okA = len(sets) == 1 and _is_call(_res(sets[0].args[1], sets[0]), attr='make_vcd_func')
    _chk(r, okA, m, 'VcdGenerationPass.__call__', norm(sets[0]) if sets else 'set_metadata(vcd_func, ...)',
         "the function built by make_vcd_func is not what is stored under the vcd_func key (the tick schedules that key)", cm, nontrivial=False)
    # A'. the enabling test accepts every meaningful value of the option (make_vcd_func's own case split tells which are)
    if okA:
        mcall = _res(sets[0].args[1], sets[0])
        opt = [a for a in mcall.args if isinstance(a, ast.Name) and a.id != _params(cm)[1]]
        if len(opt) != 1:
            raise AnalysisError("VcdGenerationPass.__call__: cannot identify the option value handed to make_vcd_func")
        optn = opt[0].id
        mkp = _params(mk)[[norm(a) for a in mcall.args].index(optn) + 1]
        domain = ['some_name']
        for n in ast.walk(mk):
            if isinstance(n, ast.Compare) and len(n.ops) == 1 and isinstance(n.ops[0], (ast.Eq, ast.NotEq)) and norm(n.left) == mkp \
                    and isinstance(n.comparators[0], ast.Constant) and n.comparators[0].value is not None:
                domain.append(n.comparators[0].value)
        none_forbidden = any(isinstance(n, ast.Assert) and isinstance(n.test, ast.Compare) and norm(n.test.left) == mkp
                             and isinstance(n.test.ops[0], ast.IsNot) and norm(n.test.comparators[0]) == 'None' for n in mk.body)
        gs = [g for g in _cond_guards(stmt_of(sets[0])) if g.kind != 'assert']

        def enabled(val):
            def leaf(e):
                if _is_call(e, attr='has_metadata'):
                    return True
                return NotImplemented
            return all(bool(Evaluator({optn: val}, leaf=leaf).ev(g.test)) == g.polarity for g in gs)
        offs = [d for d in domain if not enabled(d)]
        r.evaluations += len(domain) + 1
        _chk(r, not offs, m, 'VcdGenerationPass.__call__', f"dump enabled for option values {domain!r} (guards: {' and '.join(repr(g) for g in gs)})",
             f"the option value {offs[0]!r} is meaningful (make_vcd_func has a branch for it: the empty name selects <ClassName>.vcd) but the "
             f"enabling test treats it as `off`: no dump file is written although one was requested" if offs else '', sets[0])
        if none_forbidden:
            _chk(r, not enabled(None), m, 'VcdGenerationPass.__call__', "dump disabled for option value None",
                 "make_vcd_func asserts the name is not None, but the enabling test lets None through", sets[0])
    # B/C. $var line
    rprints = _prints_to(R, v.fvar)
    kinds = {}
    for p in rprints:
        if len(p.args) != 1:
            raise AnalysisError(f"{R.name}: print with several positional arguments")
        toks, holes = _tokens(_tmpl(p.args[0]))
        for key in ('$var', '$scope', '$upscope'):
            if key in toks:
                kinds.setdefault(key, []).append((p, toks, holes))
    for key in ('$var', '$scope', '$upscope'):
        if len(kinds.get(key, [])) != 1:
            r.bad(m, rq, f"{key} line", f"the header function must print exactly one {key} line per "
                  f"{'signal' if key == '$var' else 'component'}; found {len(kinds.get(key, []))}: the hierarchy/variable table of the "
                  f"waveform is broken", R.lineno)
            return _fin(r)
    Pv, toks, holes = kinds['$var'][0]
    sloop = parent(stmt_of(Pv))
    if not (isinstance(sloop, ast.For) and parent(sloop) is R and isinstance(sloop.target, ast.Name)):
        cgs = _cond_guards(stmt_of(Pv))
        if cgs and isinstance(enclosing(Pv, (ast.For,)), ast.For):
            r.bad(m, rq, f"$var under {cgs[0]!r}", "the $var line is printed only for some signals: the others are missing from the waveform", Pv.lineno)
            return _fin(r)
        raise AnalysisError(f"{R.name}: $var line is not printed directly in a per-signal loop of the header function")
    SG = sloop.target.id
    mparam = _params(R)[0]
    it = _strip_wrappers(sloop.iter)
    CS = it.value.id if isinstance(it, ast.Subscript) and isinstance(it.value, ast.Name) and norm(it.slice) == mparam else None
    _chk(r, CS is not None, m, rq, f"for {SG} in {norm(sloop.iter)}", "the $var loop does not run over all registered signals of the "
         "component being visited", sloop)
    cgs = _cond_guards(stmt_of(Pv))
    _chk(r, not cgs, m, rq, "$var printed for every signal of the loop" + (f" (under {cgs[0]!r})" if cgs else ''),
         "some signals are skipped before their $var line: they are missing from the waveform", Pv)
    i = toks.index('$var')
    hs = [_hole_of(t, holes) for t in toks[i + 2:i + 5]]
    shape = len(toks) >= i + 6 and toks[i + 5] == '$end' and '\x00' not in toks[i + 1] and all(h is not None for h in hs)
    if not _chk(r, shape, m, rq, '$var line: ' + _show(_tmpl(Pv.args[0])), "the line must read `$var <type> <width> <symbol> <name> $end`", Pv):
        return _fin(r)
    W, SY, NM = hs
    wtxt = norm(_deep(W.expr, Pv))
    _chk(r, wtxt in (f'{SG}._dsl.Type.nbits', f'{SG}._dsl.Type().nbits') and not W.spec, m, rq, f"$var width {wtxt}",
         "the declared width is not the nbits of the signal's type: a VCD reader truncates/extends every value of this variable "
         "(struct-typed signals are dumped as their packed width)", Pv)
    # E. the symbol
    if not isinstance(SY.expr, ast.Name):
        raise AnalysisError(f"{R.name}: $var symbol is not a local variable")
    MAP = GEN = None
    nb_map = nb_new = 0
    for kind, node, val in _bindings(R, SY.expr.id):
        if kind != 'assign':
            raise AnalysisError(f"{R.name}: symbol bound by {kind}")
        x = _res(val, node)
        cj = _conjuncts(_cond_guards(node))
        member = [(p, t) for p, t in (cj or []) if isinstance(t, ast.Compare) and len(t.ops) == 1 and isinstance(t.ops[0], (ast.In, ast.NotIn))
                  and norm(t.left) == SG and isinstance(t.comparators[0], ast.Name)]
        ismember = None
        if cj is not None and len(cj) == 1 and len(member) == 1:
            p, t = member[0]
            ismember = (p == 'pos') == isinstance(t.ops[0], ast.In)
            MAP = MAP or t.comparators[0].id
        if isinstance(x, ast.Subscript) and isinstance(x.value, ast.Name):
            k = _res(x.slice, node)
            okm = x.value.id == syms and isinstance(k, ast.Subscript) and isinstance(k.value, ast.Name) and norm(k.slice) == SG \
                and ismember is True and k.value.id == MAP
            nb_map += 1
            _chk(r, okm, m, rq, f"mapped signal: symbol = {norm(_deep(val, node))}", f"a signal that belongs to a net must be declared "
                 f"under {syms}[<index of its net>] (looked up with the signal itself, under `{SG} in <map>`): otherwise its $var points at "
                 f"another net's value changes", node)
        elif _is_call(x, name='next'):
            g = x.args[0] if x.args else None
            gen_ok = isinstance(g, ast.Name) and _is_call(_res(g, node), None) and isinstance(_res(g, node).func, ast.Name) and \
                _local_def(_res(g, node).func.id, node) is not None
            GEN = g.id if gen_ok else GEN
            blk = parent(node).body if any(s is node for s in parent(node).body) else parent(node).orelse
            app_net = [s for s in blk if isinstance(s, ast.Expr) and _is_call(s.value, attr='append', nargs=1) and norm(s.value.func.value) == nets
                       and isinstance(s.value.args[0], ast.List) and [norm(e) for e in s.value.args[0].elts] == [SG]]
            app_sym = [s for s in blk if isinstance(s, ast.Expr) and _is_call(s.value, attr='append', nargs=1) and norm(s.value.func.value) == syms
                       and norm(s.value.args[0]) == SY.expr.id]
            nb_new += 1
            _chk(r, gen_ok and ismember is False, m, rq, f"unmapped signal: symbol = {norm(val)}",
                 "a signal outside every net must get the NEXT symbol of the one shared generator (a fresh generator restarts at the first "
                 "symbol: two variables share one symbol)", node)
            _chk(r, len(app_net) == 1 and len(app_sym) == 1, m, rq,
                 f"unmapped signal: {nets}.append([{SG}]) x{len(app_net)}, {syms}.append({SY.expr.id}) x{len(app_sym)}",
                 "the new one-signal net and its symbol must both be appended exactly once, side by side: otherwise the net and symbol "
                 "tables go out of step and every later net is dumped under a wrong symbol / the signal is never dumped", node)
        else:
            raise AnalysisError(f"{R.name}: symbol source outside the understood shapes: {norm(val)}")
    _chk(r, nb_map == 1 and nb_new == 1, m, rq, f"symbol sources: {nb_map} via net table, {nb_new} fresh",
         "every signal must get its symbol either from its net or from a fresh one-signal net", sloop)
    # F. the name
    nm = _deep(NM.expr, Pv)
    core = nm.args[0] if isinstance(nm, ast.Call) and isinstance(nm.func, ast.Name) and len(nm.args) == 1 and \
        _local_def(nm.func.id, Pv) is not None else nm
    # everything the name is computed from (all bindings of the variables involved, transitively)
    srcs, todo, seen_n = [nm], [nm], set()
    while todo:
        for x in ast.walk(todo.pop()):
            if isinstance(x, ast.Name) and x.id not in seen_n and x.id not in (SG, mparam):
                seen_n.add(x.id)
                for kind, node, val in _bindings(R, x.id):
                    if kind in ('assign', 'aug') and isinstance(val, ast.AST):
                        srcs.append(val)
                        todo.append(val)
    full = [c for e in srcs for c in ast.walk(e) if
            (_is_call(c, name='repr', nargs=1) or _is_call(c, name='str', nargs=1)) and norm(c.args[0]) == SG or
            (isinstance(c, ast.Call) and isinstance(c.func, ast.Attribute) and c.func.attr in ('get_full_name', '__repr__', '__str__')
             and norm(c.func.value) == SG) or
            (isinstance(c, ast.FormattedValue) and norm(c.value) == SG)]
    if not full:
        used = sorted({c.func.attr for e in srcs for c in ast.walk(e) if isinstance(c, ast.Call) and isinstance(c.func, ast.Attribute)})
        r.bad(m, rq, f"$var name from {', '.join(used) or norm(nm)}", "the declared name is not computed from the signal's full name: built "
              "from get_field_name() / the direct parent's name it is not an injective function of the signal within its component scope "
              "(outer levels of nested interfaces and list indices are lost: s.imem.req.addr and s.dmem.req.addr are both declared "
              "`req.addr`), so a VCD reader merges or shadows distinct variables", Pv.lineno)
    else:
        okname = False
        if isinstance(core, ast.Subscript) and isinstance(core.slice, ast.Slice) and core.slice.upper is None and core.slice.step is None \
                and core.slice.lower is not None and norm(core.value) == f'repr({SG})':
            vals = [Evaluator({mparam: n}, arith=True, funcs={'len': lambda x: x, 'repr': lambda x: x}).ev(core.slice.lower) for n in (2, 7)]
            r.evaluations += 2
            okname = vals == [3, 8]
        elif _is_call(core, attr='removeprefix', nargs=1) and norm(core.func.value) == f'repr({SG})':
            okname = norm(core.args[0]) in (f"repr({mparam}) + '.'", f"f'{{{mparam}!r}}.'")
        else:
            raise AnalysisError(f"{R.name}: $var name uses the full signal name in a shape the rule does not understand: {norm(nm)}")
        _chk(r, okname, m, rq, f"$var name {norm(nm)}", "the variable name must be the signal's full path with exactly the host "
             "component's name and the dot cut off: otherwise names carry a stray prefix / lose their first letter", Pv)
    # G. scopes
    Ps, toks_s, holes_s = kinds['$scope'][0]
    Pu, toks_u, holes_u = kinds['$upscope'][0]
    rec_calls = [n for n in ast.walk(R) if _is_call(n, name=R.name)]
    if not rec_calls:
        raise AnalysisError(f"{R.name}: no recursive call")
    ctops = []
    for c_ in rec_calls:
        t_ = stmt_of(c_)
        while parent(t_) is not R:
            t_ = parent(t_)
        if not any(t_ is x for x in ctops):
            ctops.append(t_)
    if len(ctops) != 1:
        raise AnalysisError(f"{R.name}: the recursive calls are spread over several statements")
    cloop = ctops[0]
    order = [_pos(R, stmt_of(Ps)), _pos(R, sloop), _pos(R, cloop), _pos(R, stmt_of(Pu))]
    okG = parent(stmt_of(Ps)) is R and parent(stmt_of(Pu)) is R and order[0] < order[1] and order[0] < order[2] and order[3] > order[1] \
        and order[3] > order[2] and toks_s[:2] == ['$scope', 'module'] and toks_s[-1] == '$end' and toks_u == ['$upscope', '$end']
    _chk(r, okG, m, rq, "$scope ... $var* ... children ... $upscope", "every component must open its scope before its variables and "
         "children and close it after them, unconditionally: otherwise variables are attributed to the wrong component", R)
    # G'. the scope name distinguishes siblings: it must carry the list indices of the component
    nm_mod = repo.mod('pymtl3/dsl/NamedObject.py')
    sfe = nm_mod.get_func('NamedObject.__setattr_for_elaborate__')
    indexed = set()
    carriers = {'indices'}
    for _ in range(3):
        for n in ast.walk(sfe):
            if isinstance(n, ast.Assign) and any(isinstance(x, ast.Name) and x.id in carriers for x in ast.walk(n.value)):
                for t_ in n.targets:
                    if isinstance(t_, ast.Name):
                        carriers.add(t_.id)
                    elif isinstance(t_, ast.Attribute):
                        indexed.add(t_.attr)
    gfn = nm_mod.get_func('NamedObject.get_field_name')
    gf_ok = any(isinstance(n, ast.Return) and isinstance(n.value, ast.Attribute) and n.value.attr in indexed for n in ast.walk(gfn))
    if not indexed:
        raise AnalysisError("NamedObject.__setattr_for_elaborate__: cannot derive which name attribute carries the list indices")
    sh = [h_ for h_ in (_hole_of(t_, holes_s) for t_ in toks_s) if h_ is not None]
    if len(sh) != 1:
        raise AnalysisError(f"{R.name}: $scope line does not have exactly one name hole")
    ssrcs, todo, seen_n = [sh[0].expr], [sh[0].expr], set()
    while todo:
        for x in ast.walk(todo.pop()):
            if isinstance(x, ast.Name) and x.id not in seen_n and x.id != mparam:
                seen_n.add(x.id)
                for kind, node, val in _bindings(R, x.id):
                    if kind in ('assign', 'aug') and isinstance(val, ast.AST):
                        ssrcs.append(val)
                        todo.append(val)
    uses = []
    for e in ssrcs:
        for x in ast.walk(e):
            if isinstance(x, ast.Call) and isinstance(x.func, ast.Attribute) and norm(x.func.value) == mparam:
                uses.append(('call', x.func.attr))
            elif isinstance(x, ast.Attribute) and norm(x.value) == f'{mparam}._dsl':
                uses.append(('attr', x.attr))
            elif (_is_call(x, name='repr', nargs=1) or _is_call(x, name='str', nargs=1)) and norm(x.args[0]) == mparam:
                uses.append(('call', 'repr'))
    good = [u for u in uses if (u == ('call', 'get_field_name') and gf_ok) or u == ('call', 'repr') or (u[0] == 'attr' and u[1] in indexed)]
    _chk(r, bool(good), m, rq, f"$scope name from {sorted(set(u[1] for u in uses)) or 'constants'} (index-carrying: {sorted(indexed)})",
         f"the scope name is not unique among siblings: it is built from {sorted(set(u[1] for u in uses)) or 'constants'}, none of which "
         f"carries the list indices (NamedObject stores the indexed name in {sorted(indexed)}; get_field_name() returns it): the components "
         f"of a list all open a scope of the same name and their signals share one hierarchical name", stmt_of(Ps))
    # H. recursion over all children
    call = rec_calls[0]
    if len(rec_calls) == 1 and isinstance(cloop, ast.For) and enclosing(call, (ast.For,)) is cloop and \
            any(_is_call(n, attr='get_child_components') for n in ast.walk(cloop.iter)):
        okH = norm(_strip_wrappers(cloop.iter)) == f'{mparam}.get_child_components()' and isinstance(cloop.target, ast.Name) and \
            call.args and norm(call.args[0]) == cloop.target.id and not _cond_guards(stmt_of(call)) and len(_loop_guards(stmt_of(call))) == 1
        _chk(r, okH, m, rq, f"for {norm(cloop.target)} in {norm(cloop.iter)}: {norm(call)}", "the recursion must visit every child component: "
             "a skipped child's signals are missing from the waveform", cloop)
    else:
        # a hand-written walk over the component's fields: decided by evaluating it on nested list shapes
        frag = [cloop]
        k_ = R.body.index(cloop) - 1
        while k_ >= 0 and isinstance(R.body[k_], (ast.Assign, ast.AugAssign)) and \
                all(isinstance(t_, ast.Name) for t_ in (R.body[k_].targets if isinstance(R.body[k_], ast.Assign) else [R.body[k_].target])):
            frag.insert(0, R.body[k_])      # helper locals (work lists) set up right before the walk
            k_ -= 1
        missing, extra = _walk_children(R, frag, mparam)
        r.evaluations += 2
        _chk(r, not missing and not extra, m, rq, f"hand-written child walk: {norm(cloop)[:100]}",
             (f"child components held in {', '.join(missing)} are never visited by the header recursion (get_child_components() descends "
              f"lists of any depth and skips only `_` fields): they get no $scope and their signals no $var" if missing else
              f"the header recursion visits {', '.join(extra)}: scopes are emitted twice / for objects that are not child components"), cloop)
    # I. started at top
    tops = [s for s in mk.body if isinstance(s, ast.Expr) and _is_call(s.value, name=R.name) and s.value.args and norm(s.value.args[0]) == top]
    _chk(r, len(tops) == 1, m, q, f"{R.name}({top}, ...)", "the header recursion must be started once, unconditionally, at the top component", mk)
    # K. registration of signals under their host
    adds = [n for n in _own_nodes(mk) if _is_call(n, None, nargs=1) and isinstance(n.func, ast.Attribute) and n.func.attr in ('add', 'append')
            and isinstance(n.func.value, ast.Subscript) and norm(n.func.value.value) == CS]
    if len(adds) != 1:
        raise AnalysisError(f"make_vcd_func: expected one registration {CS}[host].add(signal)")
    add = adds[0]
    al = enclosing(add, (ast.For,))
    cj = _conjuncts(_cond_guards(stmt_of(add)))
    x = norm(al.target) if al is not None else None
    okK = al is not None and parent(al) is mk and norm(_strip_wrappers(al.iter)) == f'{top}._dsl.all_signals' and norm(add.args[0]) == x \
        and cj is not None and all(p == 'pos' and norm(t) == f'{x}.is_top_level_signal()' for p, t in cj) \
        and norm(_res(add.func.value.slice, add)) == f'{x}.get_host_component()'
    _chk(r, okK, m, q, f"for {x} in {norm(al.iter) if al else '?'}: {norm(add)} under {[norm(t) for _, t in (cj or [])]}",
         "every top-level signal of the design must be registered under its own host component (no other filter): otherwise it gets no $var", add)
    # L. net table
    nloops = [s for s in mk.body if isinstance(s, ast.For) and
              any(_is_call(n, attr='get_all_value_nets', nargs=0) and norm(n.func.value) == top for n in ast.walk(s.iter))]
    if len(nloops) != 1:
        raise AnalysisError("make_vcd_func: expected one loop over top.get_all_value_nets()")
    nl = nloops[0]
    apps = [n for n in ast.walk(nl) if _is_call(n, attr='append', nargs=1) and norm(n.func.value) == nets]
    if len(apps) != 1 or not isinstance(apps[0].args[0], ast.Name):
        raise AnalysisError(f"make_vcd_func: expected one {nets}.append(<trimmed net>) in the net loop")
    NEW = apps[0].args[0].id
    gA = _cond_guards(stmt_of(apps[0]))
    okL1 = len(_loop_guards(stmt_of(apps[0]))) == 1 and len(gA) == 1 and gA[0].polarity is True and \
        norm(gA[0].test) in (NEW, f'len({NEW}) > 0', f'len({NEW}) != 0', f'len({NEW})')
    _chk(r, okL1, m, q, f"{norm(apps[0])} under {[repr(g) for g in gA]}", "every non-empty trimmed net must be appended exactly once per net", apps[0])
    fills = _collected(mk, NEW)
    if not fills or any(c.src is None for c in fills):
        raise AnalysisError(f"make_vcd_func: cannot see how {NEW} is filled")
    tnames = {n.id for n in ast.walk(nl.target) if isinstance(n, ast.Name)}
    for c in fills:
        var = norm(c.var)
        rebound = [n for n in (ast.walk(c.loop) if c.loop is not None else []) if isinstance(n, (ast.Assign, ast.AugAssign, ast.NamedExpr))
                   and any(isinstance(t, ast.Name) and t.id == var and isinstance(t.ctx, ast.Store) for t in ast.walk(n))]
        okm = isinstance(c.src, ast.Name) and c.src.id in tnames and norm(c.elt) == var and not rebound
        what = norm(rebound[0]) if rebound else f"{NEW} <- {norm(c.elt)} for {var} in {norm(c.src)}"
        _chk(r, okm, m, q, f"trimmed net members: {what}", "a trimmed net may only keep (a filtered subset of) the members of the value net "
             "itself: a member mapped to another object (get_top_level_signal()/get_parent_object() of a slice or field) puts a WIDER signal "
             "into the net, which then shares one symbol and one polled representative with signals it is only partly connected to "
             "(wrong width / wrong value in the waveform)", rebound[0] if rebound else c.node)
    # loop control: every net and every member of a net is processed (a break/return skips the remaining members)
    member_loops = [c.loop for c in fills if c.loop is not None and c.loop is not nl]
    jumps = []
    for lp_ in [nl] + member_loops:
        for n in ast.walk(lp_):
            if isinstance(n, (ast.Break, ast.Return)) and (isinstance(n, ast.Return) or enclosing(n, (ast.For, ast.While)) in [nl] + member_loops):
                if not any(n is x for x in jumps):
                    jumps.append(n)
        if lp_.orelse:
            jumps.append(lp_.orelse[0])
    _chk(r, not jumps, m, q, f"net trimming loops run to completion ({1 + len(member_loops)} loops)",
         f"`{norm(jumps[0])}` under {[repr(g) for g in _cond_guards(jumps[0])][:2]} leaves the loop early: the members of the net that are "
         f"iterated after it (first / middle position of the recognised member) are not put into the trimmed net, they become nets of "
         f"their own (a clock-net member stays flat, others lose their shared symbol)" if jumps else '', jumps[0] if jumps else nl)
    # M. one symbol per net, one generator
    sc = _collected(mk, syms)
    okM = len(sc) == 1 and sc[0].src is not None and sc[0].conj == [] and \
        norm(sc[0].src) in (nets, f'enumerate({nets})', f'range(len({nets}))') \
        and _is_call(sc[0].elt, name='next', nargs=1) and isinstance(sc[0].elt.args[0], ast.Name) and sc[0].elt.args[0].id == GEN
    _chk(r, okM, m, q, f"{syms}: {norm(sc[0].elt) if sc else '?'} for each of {norm(sc[0].src) if sc and sc[0].src is not None else '?'}",
         f"the symbol table must hold one next({GEN}) per net, in net order", sc[0].node if sc else mk)
    nexts = [n for n in ast.walk(mk) if _is_call(n, name='next')]
    stray = [n for n in nexts if not (n.args and isinstance(n.args[0], ast.Name) and n.args[0].id == GEN)]
    gens = [b for b in _bindings(mk, GEN)] if GEN else []
    _chk(r, not stray and len(gens) == 1, m, q, f"{len(nexts)} symbol draws, all from {GEN}", "all symbols must be drawn from one "
         "generator object created once: a second generator repeats symbols already in use", stray[0] if stray else mk)
    # N. signal -> net index map
    if MAP is None:
        raise AnalysisError(f"{R.name}: membership map not identified")
    mst = [n for n in _own_nodes(mk) if isinstance(n, ast.Assign) and any(isinstance(t, ast.Subscript) and norm(t.value) == MAP for t in n.targets)]
    mdc = [b[2] for b in _bindings(mk, MAP) if b[0] == 'assign' and isinstance(b[2], ast.DictComp)]
    shape = None          # (outer target, outer iter, inner target, inner iter, key, value, node)
    if len(mst) == 1 and not mdc:
        ms = mst[0]
        lg = _loop_guards(ms)
        if len(lg) == 2 and not _cond_guards(ms):
            shape = (lg[1].node.target, lg[1].node.iter, lg[0].node.target, lg[0].node.iter, ms.targets[0].slice, ms.value, ms)
    elif len(mdc) == 1 and not mst and len(mdc[0].generators) == 2 and not any(g.ifs for g in mdc[0].generators):
        g0, g1 = mdc[0].generators
        shape = (g0.target, g0.iter, g1.target, g1.iter, mdc[0].key, mdc[0].value, mdc[0])
    else:
        raise AnalysisError(f"make_vcd_func: expected one site filling {MAP}")
    okN = False
    if shape is not None:
        ot, oi, it_, ii_, key, value, ms = shape
        oo = _index_iter(oi, ot)
        if oo is not None and _range_gap(oi) is not None:
            oo = None
        if oo is not None and oo[0] == nets and oo[1] is not None:
            members = [f'{nets}[{oo[1]}]'] + ([oo[2]] if oo[2] else [])
            okN = norm(ii_) in members and norm(it_) == norm(key) and norm(value) == oo[1]
    else:
        ms = mst[0]
    _chk(r, okN, m, q, norm(ms)[:120], f"every signal of net i must be mapped to i (the index used for {syms}): otherwise connected signals "
         "are declared under another net's symbol", ms)
    # O. clock index
    cs = [n for n in _own_nodes(mk) if isinstance(n, ast.Assign) and len(n.targets) == 1 and isinstance(n.targets[0], ast.Name)
          and isinstance(n.value, ast.Subscript) and norm(n.value.value) == syms and isinstance(n.value.slice, ast.Name)
          and parent(n) is mk]
    if len(cs) != 1:
        raise AnalysisError("make_vcd_func: cannot find the clock symbol lookup")
    clkidx = cs[0].value.slice.id
    n_clk = 0
    for fn, fq, loopnode in ((mk, q, nl), (R, rq, sloop)):
        for b in _bindings(fn, clkidx):
            if b[0] != 'assign' or (isinstance(b[2], ast.Constant) and b[2].value is None):
                continue
            node = b[1]
            n_clk += 1
            cj = _conjuncts(_cond_guards(node)) or []
            isclk = [t for g_ in _cond_guards(node) if g_.polarity is True for t in ast.walk(g_.test)
                     if isinstance(t, ast.Compare) and len(t.ops) == 1 and isinstance(t.ops[0], ast.Eq)
                     and {norm(t.left), norm(t.comparators[0])} & {"'s.clk'"} and
                     any(_is_call(_res(x, node), name='repr', nargs=1) for x in (t.left, t.comparators[0]))]
            inside = any(x is node for x in ast.walk(loopnode))
            la = [n for n in ast.walk(loopnode) if _is_call(n, attr='append', nargs=1) and norm(n.func.value) == nets]
            val = norm(_res(b[2], node))
            before = len(la) == 1 and _pos(loopnode, node) < _pos(loopnode, la[0])
            okO = inside and bool(isclk) and len(la) == 1 and \
                ((val == f'len({nets})' and before) or (val == f'len({nets}) - 1' and not before))
            why = f"the clock index must be a position in {nets} -- the list the per-cycle table and {syms}[{clkidx}] are indexed with -- " \
                  f"namely len({nets}) taken BEFORE the net holding s.clk is appended: otherwise the clock edges are printed under a data " \
                  f"net's symbol and that net is excluded from the per-cycle dump (its changes never appear)"
            src = _lookup(b[2].id, node)[1] if isinstance(b[2], ast.Name) else []
            if src and src[0][0] == 'loop':
                why = (f"`{b[2].id}` counts the iterations of `{norm(src[0][2])[:60]}`, a different index space than {nets} (nets without "
                       f"top-level signals are not appended to {nets}, so the two positions differ): ") + why
            _chk(r, okO, m, fq, f"{norm(node)} under {[norm(t) for _, t in cj]}", why, node)
    _chk(r, n_clk >= 1, m, q, f"{n_clk} assignments of the clock index", "the clock net is never identified", mk)
    # J/P. $enddefinitions and initial values
    ends = [s for s in mk.body if isinstance(s, ast.Expr) and isinstance(s.value, ast.Call) and s.value in _prints_to(s, v.fvar)
            and len(s.value.args) == 1 and _tokens(_tmpl(s.value.args[0]))[0] == ['$enddefinitions', '$end']]
    iloops = [s for s in mk.body if isinstance(s, ast.For) and _prints_to(s, v.fvar, nested=True)]
    if len(iloops) != 1:
        raise AnalysisError("make_vcd_func: expected one loop printing the initial values")
    il = iloops[0]
    okJ = len(ends) == 1 and tops and _pos(mk, tops[0]) < _pos(mk, ends[0]) < _pos(mk, il)
    _chk(r, okJ, m, q, "$enddefinitions $end after the declarations, before the initial values", "the definition section must be "
         "closed after all $var lines and before the first value", ends[0] if ends else mk)
    pi = _index_iter(il.iter, il.target)
    okP = pi is not None and pi[0] == nets and pi[1] is not None and _range_gap(il.iter) is None
    _chk(r, okP, m, q, f"for {norm(il.target)} in {norm(il.iter)}", "the initial values must be printed for every net (enumerate over the "
         "whole net table): a net without initial value is undefined until its first change", il)
    if okP:
        iv, nv = pi[1], pi[2]
        if nv is None:
            al = [s_.targets[0].id for s_ in il.body if isinstance(s_, ast.Assign) and len(s_.targets) == 1
                  and isinstance(s_.targets[0], ast.Name) and norm(s_.value) == f'{nets}[{iv}]']
            nv = al[0] if al else f'{nets}[{iv}]'
        ip = _prints_to(il, v.fvar, nested=True)
        if len(ip) != 1 or len(ip[0].args) != 1:
            raise AnalysisError("make_vcd_func: expected one print in the initial-value loop")
        parts = _tmpl(ip[0].args[0])
        okp = len(parts) == 2 and all(isinstance(p, Hole) and not p.spec and p.conv == -1 for p in parts) and \
            norm(_res(parts[1].expr, ip[0])) == f'{syms}[{iv}]' and not _cond_guards(stmt_of(ip[0])) and \
            not any(k.arg in ('end', 'sep') for k in ip[0].keywords)
        _chk(r, okp, m, q, f"initial: print {_show(parts)}", f"the initial line of net i must be <value string>{syms}[i], printed "
             "unconditionally", ip[0])
        if okp:
            V = _res(parts[0].expr, ip[0])
            okc = False
            if _is_call(V, attr='to_vcd_str', nargs=0):
                E = _res(V.func.value, V)
                if _is_call(E, attr='to_bits', nargs=0):
                    T = _res(E.func.value, E)
                    if _is_call(T, None, nargs=0) and isinstance(T.func, ast.Attribute) and T.func.attr == 'Type':
                        okc = norm(_deep(T.func.value, T)) in (f'{nv}[0]._dsl', f'{nv}[-1]._dsl', f'{nets}[{iv}][0]._dsl', f'{nets}[{iv}][-1]._dsl')
            _chk(r, okc, m, q, f"initial value {norm(_deep(parts[0].expr, ip[0]))}", "the initial value must be the default instance of "
                 "the net's type, packed with to_bits() and rendered with to_vcd_str() (the same rendering the per-cycle comparison uses)", ip[0])
            st = [n for n in ast.walk(il) if isinstance(n, ast.Assign) and any(isinstance(t, ast.Subscript) and norm(t.value) == LV for t in n.targets)]
            oks = len(st) == 1 and norm(st[0].targets[0].slice) == iv and _same(st[0].value, parts[0].expr, ip[0]) and not _cond_guards(st[0])
            _chk(r, oks, m, q, norm(st[0]) if st else f'store into {LV}', "the string printed as initial value must be stored as the "
                 "net's previous string: otherwise the first cycle's comparison is made against a string that was never printed and an "
                 "unchanged/changed first value is mis-reported", st[0] if st else il)
    # Q. the string format
    _vcd_str_format(r, repo)
    return _fin(r)



# ---------------------------------------------------------------------------
# R-C16-textwave
def _scope_names(f):
    if isinstance(f, ast.Lambda):
        return set(_params(f))
    out = set(_params(f))
    for n in _own_nodes(f):
        if isinstance(n, ast.Name) and isinstance(n.ctx, (ast.Store, ast.Del)):
            out.add(n.id)
        elif isinstance(n, (ast.FunctionDef, ast.AsyncFunctionDef, ast.ClassDef)):
            out.add(n.name)
        elif isinstance(n, ast.ExceptHandler) and n.name:
            out.add(n.name)
        elif isinstance(n, (ast.Import, ast.ImportFrom)):
            out |= {(a.asname or a.name).split('.')[0] for a in n.names}
    return out


def _unbound_names(repo, mod, func):
    """names loaded in func or its nested scopes that neither an enclosing function scope, the module nor builtins bind"""
    modnames = set(mod.assigns) | set(mod.functions) | set(mod.classes) | set(mod.imports)
    found = []

    def is_bound(name, bound):
        return name in bound or name in modnames or hasattr(builtins, name) or \
            (mod.star_imports and repo.resolve(mod, name) is not None)

    def visit(f, outer):
        bound = outer | _scope_names(f)
        nodes = _own_nodes(f) if not isinstance(f, ast.Lambda) else walk_no_nested(f.body)
        for n in nodes:
            if isinstance(n, ast.Name) and isinstance(n.ctx, ast.Load) and not is_bound(n.id, bound):
                found.append((f, n))
            elif isinstance(n, (ast.FunctionDef, ast.AsyncFunctionDef, ast.Lambda)):
                visit(n, bound)
        if isinstance(f, ast.Lambda):
            for n in ast.walk(f.body):
                if isinstance(n, ast.Lambda):
                    visit(n, bound)
    visit(func, set())
    return found


def _exec_sites(func_or_tree, own=True):
    it = _own_nodes(func_or_tree) if own else ast.walk(func_or_tree)
    return [n for n in it if isinstance(n, ast.Call) and
            ((isinstance(n.func, ast.Name) and n.func.id in ('exec', 'custom_exec')) or
             (isinstance(n.func, ast.Attribute) and (n.func.attr == 'custom_exec' or norm(n.func) in ('builtins.exec', '__builtins__.exec'))))]


def _literal_ns(e, at):
    """{key: value expr} of a literal namespace (dict display with constant keys / dict(k=v)); None otherwise"""
    e = _res(e, at)
    if isinstance(e, ast.Dict) and all(isinstance(k, ast.Constant) and isinstance(k.value, str) for k in e.keys):
        return {k.value: v for k, v in zip(e.keys, e.values)}
    if _is_call(e, name='dict') and not e.args and all(k.arg for k in e.keywords):
        return {k.arg: k.value for k in e.keywords}
    return None


def rule_textwave(repo):
    r = RuleResult('R-C16-textwave', "per dump every top-level signal except clk/reset (plus s.reset) appends <signal>.to_bits().bin() to "
                                     "its own list of the record that is handed out; the printer reads that record; Bits.bin is fixed-width")
    m = repo.mod(TW)
    cname = 'PrintTextWavePass'
    call = m.get_func(f'{cname}.__call__')
    tup = [n for n in ast.walk(call) if isinstance(n, ast.Assign) and len(n.targets) == 1 and isinstance(n.targets[0], ast.Tuple)
           and len(n.targets[0].elts) == 2 and all(isinstance(e, ast.Name) for e in n.targets[0].elts) and _is_call(n.value)
           and isinstance(n.value.func, ast.Attribute) and norm(n.value.func.value) in ('self', 's')]
    if len(tup) != 1:
        raise AnalysisError(f"{cname}.__call__: expected `func, record = self.<collector>(top)`")
    fvar, dvar = [e.id for e in tup[0].targets[0].elts]
    C = m.get_func(f'{cname}.{tup[0].value.func.attr}')
    cq = f'{cname}.{C.name}'
    sets = {n.args[0].attr: n.args[1] for n in ast.walk(call) if _is_call(n, attr='set_metadata', nargs=2)
            and isinstance(n.args[0], ast.Attribute)}
    okS = norm(sets.get('textwave_func')) == fvar and norm(sets.get('textwave_dict')) == dvar
    _chk(r, okS, m, f'{cname}.__call__', f"textwave_func <- {norm(sets.get('textwave_func'))}, textwave_dict <- {norm(sets.get('textwave_dict'))}",
         "the dump function must be stored under textwave_func (the key the tick schedules) and the record under textwave_dict "
         "(the key users read): swapped/missing keys make the tick call a dict / hand out a function", call)
    # the collector
    rets = [n for n in _own_nodes(C) if isinstance(n, ast.Return) and n.value is not None]
    if len(rets) != 1 or not (isinstance(rets[0].value, ast.Tuple) and len(rets[0].value.elts) == 2):
        raise AnalysisError(f"{cq}: expected a single `return <function>, <record>`")
    A, B = rets[0].value.elts
    A = _res(A, rets[0])
    sites = _exec_sites(C)
    if len(sites) != 1 or len(sites[0].args) < 3:
        raise AnalysisError(f"{cq}: expected one exec(code, globals, locals) site")
    site = sites[0]
    top = _params(C)[1]
    ns = _literal_ns(site.args[1], site)
    if ns is None:
        r.bad(m, cq, norm(site)[:120], "the generated dump function's free names (`s`, the record) are not bound through a private literal "
              "namespace: nothing ties them to THIS design and THIS record", site.lineno)
        return _fin(r)
    REC = B.id if isinstance(B, ast.Name) else None
    rec_keys = [k for k, val in ns.items() if isinstance(val, ast.Name) and val.id == REC]
    okR = REC is not None and len(rec_keys) == 1 and len(_bindings(C, REC)) == 1
    _chk(r, okR, m, cq, f"record returned: {norm(B)}; namespace {{{', '.join(f'{k!r}: {norm(x)}' for k, x in ns.items())}}}",
         "the dict handed out as the text-wave record must be the very dict bound in the generated function's namespace "
         "(otherwise the dump fills a dict nobody reads)", rets[0])
    _chk(r, 's' in ns and norm(ns['s']) == top, m, cq, f"namespace 's' -> {norm(ns.get('s'))}",
         "the generated lines name signals as s.<path>: `s` must be bound to the top component of this design", site)
    if not okR:
        return _fin(r)
    rk = rec_keys[0]
    okF = isinstance(A, ast.Subscript) and isinstance(A.slice, ast.Constant) and norm(A.value) == norm(site.args[2]) and \
        isinstance(_res(site.args[2], site), ast.Dict)
    fname = A.slice.value if okF else None
    # the source template
    code = site.args[0]
    src = code.args[0] if _is_call(code, name='compile') and code.args else code
    parts = _tmpl(_res(src, site))
    holes = [p for p in parts if isinstance(p, Hole)]
    if len(holes) != 1 or not isinstance(parts[0], str):
        raise AnalysisError(f"{cq}: generated source is not `<def header> + one block of lines`: {_show(parts)[:80]}")
    J = _res(holes[0].expr, site)
    if not (_is_call(J, attr='join', nargs=1) and isinstance(J.func.value, ast.Constant) and isinstance(J.func.value.value, str)
            and isinstance(J.args[0], ast.Name)):
        raise AnalysisError(f"{cq}: the block of generated lines is not `<sep>.join(<list>)`")
    SEP, LINES = J.func.value.value, J.args[0].id
    before = parts[0]
    after = ''.join(p for p in parts[1:] if isinstance(p, str))
    indent = before.rsplit('\n', 1)[-1]
    okT = False
    try:
        tree = ast.parse(before + 'pass' + after)
        okT = len(tree.body) == 1 and isinstance(tree.body[0], ast.FunctionDef) and tree.body[0].name == fname and \
            not _params(tree.body[0]) and len(tree.body[0].body) == 1 and isinstance(tree.body[0].body[0], ast.Pass)
    except SyntaxError:
        pass
    _chk(r, okT and okF, m, cq, f"generated: def {fname}(): <lines>; fetched {norm(A)}", "the generated source must define exactly the "
         "parameterless function that is fetched from the exec locals, with the lines as its body", site)
    _chk(r, indent != '' and indent.strip() == '' and SEP == '\n' + indent, m, cq, f"lines joined with {SEP!r}, body indentation {indent!r}",
         "the separator must be a newline plus the body indentation: otherwise only the first line is inside the function, the other "
         "signals are recorded once at compile time and never again", J)
    # the lines (built by an append loop or by a comprehension)
    lc = _collected(C, LINES)
    if len(lc) != 1 or lc[0].src is None:
        raise AnalysisError(f"{cq}: expected one site producing the generated lines ({LINES}) in a loop/comprehension")
    ln = lc[0]
    lparts = _tmpl(_res(ln.elt, ln.node))
    lholes = [p for p in lparts if isinstance(p, Hole)]
    xv = norm(lholes[0].expr) if lholes else None
    okX = bool(lholes) and all(isinstance(h.expr, ast.Name) and h.expr.id == xv and not h.spec and h.conv == -1 for h in lholes)
    okL = False
    shown = _show(lparts)
    if okX:
        text, _ = _flat(lparts, mark=lambda i: 's.P')
        try:
            e = ast.parse(text.strip()).body
            if len(e) == 1 and isinstance(e[0], ast.Expr) and _is_call(e[0].value, attr='append', nargs=1):
                c = e[0].value
                tgt, arg = c.func.value, c.args[0]
                okL = isinstance(tgt, ast.Subscript) and norm(tgt.value) == rk and isinstance(tgt.slice, ast.Constant) and tgt.slice.value == 's.P' \
                    and _is_call(arg, attr='bin', nargs=0) and _is_call(arg.func.value, attr='to_bits', nargs=0) \
                    and norm(arg.func.value.func.value) == 's.P'
        except SyntaxError:
            pass
    _chk(r, okL, m, cq, f"line: {shown}", f"every generated line must read {rk}['<name>'].append( <name>.to_bits().bin() ) for one and the "
         f"same signal name: the record of a signal must receive the packed binary string of that signal (the printer parses base 2 and "
         f"takes the width from the string length)", ln.node)
    ltg = ln.var.elts if isinstance(ln.var, ast.Tuple) else [ln.var]
    xpos = [i for i, t in enumerate(ltg) if norm(t) == xv]
    # the empty list of every name: in the same loop, in a loop over the same things, or a dict comprehension over them
    inits = 0
    for n in _own_nodes(C):
        if isinstance(n, ast.Assign) and len(n.targets) == 1 and isinstance(n.targets[0], ast.Subscript) and norm(n.targets[0].value) == REC \
                and ((isinstance(n.value, ast.List) and not n.value.elts) or norm(n.value) == 'list()'):
            il_ = enclosing(n, (ast.For,))
            if il_ is None or _cond_guards(n):
                continue
            itg = il_.target.elts if isinstance(il_.target, ast.Tuple) else [il_.target]
            if _iter_sig(il_.iter) == _iter_sig(ln.src) and len(itg) == len(ltg) and xpos and norm(itg[xpos[0]]) == norm(n.targets[0].slice):
                inits += 1
    rv = _unique_value(REC, site)
    if isinstance(rv, ast.DictComp) and len(rv.generators) == 1 and not rv.generators[0].ifs:
        g_ = rv.generators[0]
        itg = g_.target.elts if isinstance(g_.target, ast.Tuple) else [g_.target]
        if _iter_sig(g_.iter) == _iter_sig(ln.src) and len(itg) == len(ltg) and xpos and norm(itg[xpos[0]]) == norm(rv.key) and \
                ((isinstance(rv.value, ast.List) and not rv.value.elts) or norm(rv.value) == 'list()'):
            inits += 1
    okE = inits == 1 and ln.conj == [] and (ln.loop is None or (len(_loop_guards(stmt_of(ln.node))) == 1 and
                                                                 not any(isinstance(n, (ast.Break, ast.Continue)) for n in ast.walk(ln.loop))))
    _chk(r, okE, m, cq, f"for {norm(ln.var)} in ...: {REC}[{xv}] = [] ; one line", "every name of the loop must get its empty "
         "list and its line, unconditionally", ln.node)
    # which names: the emission runs over a literal with s.reset plus ALL collected names
    pieces = [_strip_wrappers(p) for p in _addends(_strip_wrappers(ln.src))]
    cands = []
    for nm_ in sorted({n.id for p_ in pieces for n in ast.walk(p_) if isinstance(n, ast.Name)}):
        cs_ = [c_ for c_ in _collected(C, nm_) if isinstance(c_.elt, ast.Tuple) and c_.var is not None
               and any(norm(x) == f'repr({norm(c_.var)})' for x in c_.elt.elts)]
        if cs_:
            cands.append((nm_, cs_))
    if len(cands) != 1 or len(cands[0][1]) != 1:
        raise AnalysisError(f"{cq}: expected the emission to run over one list of (..., repr(signal)) tuples built at one site")
    NAMES, (na,) = cands[0]
    sv = norm(na.var)
    j = [i for i, x in enumerate(na.elt.elts) if norm(x) == f'repr({sv})']
    names_n = sum(1 for p_ in pieces if isinstance(p_, ast.Name) and p_.id == NAMES)
    lits = [p_ for p_ in pieces if isinstance(p_, ast.List)]
    other = [p_ for p_ in pieces if not (isinstance(p_, ast.Name) and p_.id == NAMES) and not isinstance(p_, ast.List)]
    tg = ltg
    okpos = len(j) == 1 and j[0] < len(tg) and norm(tg[j[0]]) == xv and \
        all(isinstance(t, ast.Tuple) and len(t.elts) == len(tg) for l_ in lits for t in l_.elts)
    has_reset = okpos and any(isinstance(t.elts[j[0]], ast.Constant) and t.elts[j[0]].value == 's.reset' for l_ in lits for t in l_.elts)
    _chk(r, names_n == 1 and not other and okpos, m, cq, f"for {norm(ln.var)} in {norm(ln.src)}",
         f"the emission loop must run over all of {NAMES} (whole list, any order) and take the name from the position repr(signal) was "
         f"stored at: a sliced/filtered list leaves signals out of the record", ln.node)
    _chk(r, has_reset, m, cq, "literal entry 's.reset'", "s.reset is excluded by the collecting filter and must be added back explicitly "
         "(the printer takes the number of cycles from it)", ln.node)
    # the filter is judged semantically: evaluated over field names x top-level-ness it must exclude exactly clk / reset
    okc = norm(_strip_wrappers(na.src)) == f'{top}._dsl.all_signals' and len(_bindings(C, NAMES)) == 1
    probe_names = ("clk", "reset", "set", "res", "k", "clkreset", "data", "")
    wrong, outside = [], None

    def leaf_for(name, istop):
        def leaf(e):
            if isinstance(e, ast.Name) and isinstance(e.ctx, ast.Load) and e.id != sv:
                v_ = _unique_value(e.id, e)
                if v_ is not None:
                    return Evaluator({}, leaf=leaf).ev(v_)
            if _is_call(e, attr='get_field_name', nargs=0) and norm(e.func.value) == sv:
                return name
            if _is_call(e, attr='is_top_level_signal', nargs=0) and norm(e.func.value) == sv:
                return istop
            if isinstance(e, (ast.List, ast.Set, ast.Tuple)) and all(isinstance(x, ast.Constant) for x in e.elts):
                return tuple(x.value for x in e.elts)
            return NotImplemented
        return leaf
    for name in probe_names:
        try:
            r.evaluations += 1
            inc = all(bool(Evaluator({}, leaf=leaf_for(name, True)).ev(g_.test)) == g_.polarity for g_ in na.guards)
        except AnalysisError as ex:
            outside = str(ex)
            break
        except Exception as ex:
            outside = f"{type(ex).__name__}: {ex}"
            break
        if inc != (name not in ("clk", "reset")):
            wrong.append((name, inc))
    shown = ' and '.join(repr(g_) for g_ in na.guards) or 'no filter'
    if outside is not None:
        why = f"the filter depends on something other than the field name and is_top_level_signal() ({outside}): further signals are " \
              f"dropped from the record"
    elif wrong:
        why = "; ".join(f"a top-level signal named {n!r} is {'recorded' if inc else 'left out'}" for n, inc in wrong[:3]) + \
            " -- only signals named exactly clk / reset may be left out (s.reset is added back explicitly)"
    else:
        why = "all signals of the design must be collected"
    _chk(r, okc and outside is None and not wrong, m, cq, f"for {sv} in {norm(na.src)}: collected under {shown}",
         "all signals of the design must be collected, filtered only by is_top_level_signal() and the names clk/reset: " + why, na.node)
    # the printer reads the record it is given, through bound names only
    pr = [n for n in ast.walk(call) if isinstance(n, ast.Assign) and _is_call(n.value) and isinstance(n.value.func, ast.Attribute)
          and norm(n.value.func.value) in ('self', 's') and any(isinstance(a, ast.Name) and a.id == dvar for a in n.value.args)]
    if len(pr) != 1:
        raise AnalysisError(f"{cname}.__call__: expected the printer to be generated from the record")
    Y = m.get_func(f'{cname}.{pr[0].value.func.attr}')
    yq = f'{cname}.{Y.name}'
    pos = [i for i, a in enumerate(pr[0].value.args) if isinstance(a, ast.Name) and a.id == dvar][0]
    yparams = _params(Y)
    rec_param = yparams[pos + 1] if pos + 1 < len(yparams) else None
    inner = [f for f in _nested_defs(Y)]
    reads = [n for f in inner for n in ast.walk(f) if isinstance(n, ast.Name) and n.id == rec_param and isinstance(n.ctx, ast.Load)]
    _chk(r, rec_param is not None and bool(reads), m, yq, f"record parameter {rec_param}: {len(reads)} reads in the printing function",
         "the printing function does not read the record it was generated for", Y)
    unb = _unbound_names(repo, m, Y) + [u for u in _unbound_names(repo, m, C)]
    for f, n in unb:
        r.bad(m, qualname(n), f"unbound name {n.id}", f"`{n.id}` is bound in no enclosing scope, not in the module and not a builtin: the "
              f"function only works if something else wrote that name into the module globals (NameError, or another design's data)", n.lineno)
    if not unb:
        r.ok(m, yq, f"all names read in {Y.name} / {C.name} are bound")
    # Bits.bin(): fixed width
    bm, f, me = _bits_method(repo, 'bin')
    cands = _ret_candidates(f)
    if len(cands) != 1:
        raise AnalysisError("Bits.bin: expected a single return value")
    bp = _binparts(cands[0][0], cands[0][1])
    okb = len(bp) == 2 and bp[0] == '0b' and isinstance(bp[1], BinField) and _value_ok(bp[1].value, me) and _width_ok(bp[1].width, me) and bp[1].zero
    _chk(r, okb, bm, 'Bits.bin', ''.join(p if isinstance(p, str) else repr(p) for p in bp), "bin() must be '0b' + exactly nbits zero-padded "
         "binary digits of the visible value: the text-wave printer derives the signal width from the string length and indexes digit [2]", f)
    return _fin(r)


# ---------------------------------------------------------------------------
# R-gen-isolation: generated code must not bind a design through module globals
FRESH, LOCALS, IMPLICIT, MODG, SHARED, MUTATING, WRAPPER = 'fresh', 'locals-snapshot', 'implicit', 'module-globals', 'shared', 'mutating', 'wrapper'
_MUTATORS = ('update', 'setdefault', 'pop', 'popitem', 'clear', '__setitem__', '__delitem__', '__ior__')
_DICT_MAKERS = ('dict', 'defaultdict', 'OrderedDict', 'collections.defaultdict', 'collections.OrderedDict', 'ChainMap')


def _is_globals_expr(e, at):
    """expression syntactically denoting the executing module's globals: globals(), an alias of it,
    vars()/locals() at module level"""
    if _is_call(e, name='globals', nargs=0):
        return True
    if (_is_call(e, name='locals', nargs=0) or _is_call(e, name='vars', nargs=0)) and enclosing_func(at) is None:
        return True
    if isinstance(e, ast.Name):
        owner, bs = _lookup(e.id, at)
        vals = [b[2] for b in bs if b[0] == 'assign']
        return bool(vals) and any(_is_globals_expr(x, b[1]) for b, x in zip([b for b in bs if b[0] == 'assign'], vals))
    return False


def _alias_mutated(name, func):
    """the dict bound to `name` is written in func (subscript store / mutator call)"""
    for n in _own_nodes(func):
        if isinstance(n, ast.Subscript) and isinstance(n.ctx, (ast.Store, ast.Del)) and isinstance(n.value, ast.Name) and n.value.id == name:
            return n
        if isinstance(n, ast.Call) and isinstance(n.func, ast.Attribute) and n.func.attr in _MUTATORS and \
                isinstance(n.func.value, ast.Name) and n.func.value.id == name:
            return n
    return None


class _NsClassifier:
    def __init__(self, repo, mod):
        self.repo, self.mod = repo, mod

    def classify(self, e, at, depth=0):
        """set of namespace classes the expression may denote at `at`"""
        if depth > 5:
            raise AnalysisError(f"namespace data flow too deep at {norm(e)[:60]}")
        if e is None or (isinstance(e, ast.Constant) and e.value is None):
            return {IMPLICIT}
        if isinstance(e, (ast.Dict, ast.DictComp)):
            return {FRESH}
        if isinstance(e, ast.IfExp):
            return self.classify(e.body, at, depth + 1) | self.classify(e.orelse, at, depth + 1)
        if isinstance(e, ast.BoolOp):
            out = set()
            for x in e.values:
                out |= self.classify(x, at, depth + 1)
            return out
        if isinstance(e, ast.Call):
            fn = norm(e.func)
            if fn == 'globals':
                return {MODG}
            if fn in ('locals', 'vars') and not e.args:
                return {LOCALS} if enclosing_func(at) is not None else {MODG}
            if fn in _DICT_MAKERS:
                return {FRESH}
            if isinstance(e.func, ast.Attribute):
                recv = self.classify(e.func.value, at, depth + 1) if isinstance(e.func.value, (ast.Call, ast.Name, ast.Attribute)) else set()
                if e.func.attr == 'copy' and not e.args:
                    return {FRESH}
                if recv & {MODG, SHARED, MUTATING} and e.func.attr in _MUTATORS:
                    return {MUTATING}
            if isinstance(e.func, ast.Name):
                tgt = _local_def(e.func.id, at) or self.mod.functions.get(e.func.id)
                names = [a for a in e.args if not isinstance(a, ast.Constant)]
                if tgt is not None and names and not any(_is_call(n, name='globals') for n in ast.walk(tgt)):
                    out = set()
                    for a in names:
                        out |= self.classify(a, at, depth + 1)
                    return out
            raise AnalysisError(f"{self.mod.rel}: namespace comes from a call the rule cannot classify: {norm(e)[:80]}")
        if isinstance(e, ast.Attribute):
            if e.attr in ('__globals__', '__dict__', 'f_globals'):
                return {MODG}
            raise AnalysisError(f"{self.mod.rel}: namespace is an attribute the rule cannot classify: {norm(e)[:80]}")
        if isinstance(e, ast.Name):
            owner, bs = _lookup(e.id, at)
            if owner is None:
                if e.id in self.mod.assigns:
                    return {SHARED}
                raise AnalysisError(f"{self.mod.rel}: namespace name {e.id} is bound nowhere the rule can see")
            out = set()
            for kind, node, val in bs:
                if kind == 'param':
                    out |= self._param(owner, e.id, depth)
                elif kind == 'assign':
                    out |= self.classify(val, node, depth + 1)
                else:
                    raise AnalysisError(f"{self.mod.rel}: namespace name {e.id} bound by {kind}")
            if MODG in out and isinstance(owner, (ast.FunctionDef, ast.AsyncFunctionDef)):
                hit = _alias_mutated(e.id, owner)
                if hit is not None:
                    out.add(MUTATING)
            return out
        raise AnalysisError(f"{self.mod.rel}: namespace expression outside the understood shapes: {norm(e)[:80]}")

    def _param(self, func, pname, depth):
        if func.name == 'custom_exec':
            return {WRAPPER}      # the forwarding wrapper: its callers are exec sites themselves
        params = _params(func)
        pos = params.index(pname)
        a = func.args
        plain = [x.arg for x in a.posonlyargs + a.args]
        defaults = dict(zip(plain[len(plain) - len(a.defaults):], a.defaults))
        defaults.update({k.arg: d for k, d in zip(a.kwonlyargs, a.kw_defaults) if d is not None})
        out = set()
        callers = 0
        for n in ast.walk(self.mod.tree):
            if not isinstance(n, ast.Call):
                continue
            direct = isinstance(n.func, ast.Name) and n.func.id == func.name
            meth = isinstance(n.func, ast.Attribute) and n.func.attr == func.name
            if not (direct or meth):
                continue
            callers += 1
            shift = 1 if meth and plain and plain[0] in ('self', 's', 'cls') else 0
            arg = None
            if pos - shift < len(n.args) and pos - shift >= 0:
                arg = n.args[pos - shift]
            for k in n.keywords:
                if k.arg == pname:
                    arg = k.value
            if arg is None:
                if pname not in defaults:
                    raise AnalysisError(f"{self.mod.rel}: call {norm(n)[:60]} does not supply parameter {pname}")
                out |= {SHARED} if _is_container(defaults[pname]) else self.classify(defaults[pname], func, depth + 1)
            else:
                out |= self.classify(arg, n, depth + 1)
        if not callers:
            raise AnalysisError(f"{self.mod.rel}: no caller of {func.name} found to classify its namespace parameter {pname}")
        return out


_CONTAINER_CALLS = ('dict', 'list', 'set', 'defaultdict', 'OrderedDict', 'deque', 'collections.defaultdict', 'collections.OrderedDict',
                    'collections.deque')


def _is_container(e):
    return isinstance(e, (ast.Dict, ast.List, ast.Set, ast.ListComp, ast.DictComp, ast.SetComp)) or \
        (isinstance(e, ast.Call) and norm(e.func) in _CONTAINER_CALLS)


def _param_default(func, pname):
    a = func.args
    plain = [x.arg for x in a.posonlyargs + a.args]
    d = dict(zip(plain[len(plain) - len(a.defaults):], a.defaults))
    d.update({k.arg: v for k, v in zip(a.kwonlyargs, a.kw_defaults) if v is not None})
    return d.get(pname)


def _shared_state(mod, e, at):
    """why the object `e` (a value handed to generated code / handed out as a record) outlives one call, or None:
    a mutable parameter default, a module-level or class-level container, a container bound by a chained assignment"""
    if isinstance(e, ast.Attribute) and isinstance(e.value, ast.Name) and e.value.id in ('self', 's', 'cls'):
        cls = enclosing(at, (ast.ClassDef,))
        for st in (cls.body if cls is not None else []):
            if isinstance(st, ast.Assign) and any(isinstance(t, ast.Name) and t.id == e.attr for t in st.targets) and _is_container(st.value):
                return f"`{norm(e)}` is the class-level container `{norm(st)}`, one object for all instances and designs"
        return None
    if not isinstance(e, ast.Name):
        return None
    owner, bs = _lookup(e.id, at)
    if owner is None:
        v_ = mod.assigns.get(e.id)
        if v_ is not None and _is_container(v_):
            return f"`{e.id}` is a module-level container, one object for every design in the process"
        return None
    for kind, node, val in bs:
        if kind == 'param' and isinstance(owner, (ast.FunctionDef, ast.AsyncFunctionDef)):
            d = _param_default(owner, e.id)
            if d is not None and _is_container(d):
                return (f"`{e.id}` is a parameter of {owner.name} with the mutable default `{norm(d)}`: the default object is created once, "
                        f"at definition time, and shared by every call that does not pass its own")
        if kind == 'assign' and isinstance(node, ast.Assign) and len(node.targets) > 1 and _is_container(node.value):
            return f"`{e.id}` is bound by the chained assignment `{norm(node)[:60]}`: the names alias ONE container"
    return None


def _judge_site(cl, site):
    """(ok, classes of globals, classes of locals, message)"""
    kw = {k.arg: k.value for k in site.keywords}
    g = site.args[1] if len(site.args) > 1 else kw.get('globals', kw.get('_globals'))
    l_ = site.args[2] if len(site.args) > 2 else kw.get('locals', kw.get('_locals'))
    gc = cl.classify(g, site)
    lc = cl.classify(l_, site) if l_ is not None else set()
    desc = f"globals: {'/'.join(sorted(gc))}" + (f"; locals: {'/'.join(sorted(lc))}" if l_ is not None else '; no locals mapping')
    if MUTATING in gc | lc:
        return False, desc, ("the namespace expression writes into the module's globals (e.g. globals().update(...)): per-design objects "
                             "become module globals, a second design built in the same process overwrites them and the code generated for the "
                             "first design silently operates on the second")
    if SHARED in gc | lc:
        return False, desc, "a module-level dict shared by all designs is used as namespace of generated per-design code"
    if enclosing_func(site) is None:
        return True, desc + ' (module level: import time, no design exists)', ''
    if MODG in lc:
        return False, desc, ("module globals are the LOCAL namespace of the generated code: every name it defines (and every per-design "
                             "helper) is written into the module")
    if gc & {MODG}:
        if l_ is None and g is not None:
            return False, desc, ("module globals are passed as the only namespace: they double as the local namespace, so every name the "
                                 "generated code defines is written into the module and shared by all designs")
        return True, desc + ' (module globals for lookup only)', ''
    if IMPLICIT in gc and l_ is None and g is not None:
        return True, desc, ''
    return True, desc, ''


_PROBE = '''
def bad_update(top, src):
    l = {}
    exec(compile(src, "t", "exec"), globals().update(locals()), l)
    return l["f"]

def bad_single(top, src):
    exec(src, globals())

def bad_alias(top, src):
    g = globals()
    g["s"] = top
    l = {}
    exec(src, g, l)
    return l

_shared = {}
def bad_shared(top, src):
    _shared["s"] = top
    exec(src, _shared)

def bad_write(top):
    globals()["s"] = top

def good_fresh(top, src):
    ns, l = {"s": top}, {}
    exec(src, ns, l)
    return l

def good_lookup(top, src):
    l = locals()
    exec(src, globals(), l)
    return l

def bad_default(top, src, rec={}):
    l = {}
    exec(src, {"s": top, "rec": rec}, l)
    return l["f"], rec

def helper(_g, src):
    l = {}
    exec(src, _g, l)
    return l

def good_param(top, src):
    return helper({"s": top}, src)
'''
_PROBE_EXPECT = {'bad_update': False, 'bad_single': False, 'bad_alias': False, 'bad_shared': False,
                 'good_fresh': True, 'good_lookup': True, 'helper': True}


def _globals_writes(mod):
    """statements inside functions that write into the executing module's globals()"""
    out = []
    for n in ast.walk(mod.tree):
        if enclosing_func(n) is None:
            continue
        if isinstance(n, ast.Call) and isinstance(n.func, ast.Attribute) and n.func.attr in _MUTATORS and _is_globals_expr(n.func.value, n):
            out.append(n)
        elif isinstance(n, ast.Subscript) and isinstance(n.ctx, (ast.Store, ast.Del)) and _is_globals_expr(n.value, n):
            out.append(n)
    return out


def rule_gen_isolation(repo):
    r = RuleResult('R-gen-isolation', "every exec/custom_exec site gets a fresh namespace (or module globals for lookup only, with separate "
                                      "locals); no function writes per-design objects into globals()")
    # embedded positive example: expected finding count on the real tree is zero
    probe = Module(repo, 'pymtl3/_c16_probe.py', _PROBE)
    pc = _NsClassifier(repo, probe)
    got = {}
    for site in _exec_sites(probe.tree, own=False):
        got[enclosing_func(site).name] = _judge_site(pc, site)[0]
    pw = {enclosing_func(n).name for n in _globals_writes(probe)}
    pd = [n for n in ast.walk(probe.tree) if isinstance(n, ast.FunctionDef) and n.name == 'bad_default'][0]
    psite = _exec_sites(pd)[0]
    pstate = [_shared_state(probe, x, psite) for x in _res(psite.args[1], psite).values]
    got.pop('bad_default', None)
    if got != _PROBE_EXPECT or pw != {'bad_update', 'bad_alias', 'bad_write'} or [bool(x) for x in pstate] != [False, True]:
        raise AnalysisError(f"R-gen-isolation: embedded probe not judged as expected: {got} / {sorted(pw)} / {pstate}")
    n_sites = 0
    foreign = []
    for rel in repo.py_files('pymtl3'):
        src = repo.src(rel)
        if 'exec' not in src and 'globals' not in src:
            continue
        mod = repo.mod(rel)
        cl = _NsClassifier(repo, mod)
        for site in _exec_sites(mod.tree, own=False):
            n_sites += 1
            fq = qualname(site) or '<module>'
            ok, desc, msg = _judge_site(cl, site)
            r.evaluations += 1
            cons = f"{norm(site.func)}(<code>, {', '.join(norm(a) for a in site.args[1:])})"
            if ok:
                r.ok(mod, fq, f"{cons} -- {desc}")
            else:
                r.bad(mod, fq, cons, msg + f" [{desc}]", site.lineno)
            # the objects the generated code works on are created per call
            kw_ = {k.arg: k.value for k in site.keywords}
            g_ = site.args[1] if len(site.args) > 1 else kw_.get('globals', kw_.get('_globals'))
            lit = _res(g_, site) if g_ is not None else None
            vals = list(lit.values) if isinstance(lit, ast.Dict) else [k.value for k in lit.keywords] if _is_call(lit, name='dict') else []
            for val in [g_] + vals if g_ is not None else []:
                why = _shared_state(mod, val, site)
                if why:
                    r.bad(mod, fq, f"{cons}: state {norm(val)}", why + ". Per-design state of generated code (here: what the generated "
                          "function records into / looks names up in) must be created per call: with two simulators in one process both "
                          "generated functions fill the same object (e.g. 20 text-wave entries for 10 cycles)", site.lineno)
        for n in _globals_writes(mod):
            st = stmt_of(n)
            r.bad(mod, qualname(n) or '<module>', norm(st)[:120], "a function writes into the module's globals(): objects of the design "
                  "being processed become module-level names shared by every design in the process (generated code of an earlier "
                  "design then resolves them to the later design)", n.lineno)
        for n in ast.walk(mod.tree):
            if isinstance(n, ast.Call) and isinstance(n.func, ast.Attribute) and n.func.attr in _MUTATORS and \
                    isinstance(n.func.value, ast.Attribute) and n.func.value.attr == '__globals__':
                foreign.append(f"{rel}: {norm(n)[:70]}")
    for f in foreign:
        r.observations.append(f"writes into another function's __globals__ (not judged by this rule): {f}")
    r.ok('pymtl3', '<repo>', f"no function writes into globals() ({n_sites} exec sites judged)", nontrivial=False)
    r.require_floor(20 if not r.findings else 0)
    return r


COMPONENT = 'pymtl3/dsl/Component.py'


def _registry_adds(func, attr):
    """(added expression, node) for every `<x>._dsl.<attr> |= e` / `.add(e)` / `.update(e)` in func"""
    out = []

    def parts(e):     # what reaches the registry: operands of a union, elements of a display (`|= {o}` adds o like `.add(o)`)
        if isinstance(e, ast.BinOp) and isinstance(e.op, ast.BitOr):
            return parts(e.left) + parts(e.right)
        if _is_call(e, attr='union') and not e.keywords:
            return parts(e.func.value) + [p_ for a in e.args for p_ in parts(a)]
        if isinstance(e, (ast.Set, ast.List, ast.Tuple)) and e.elts and not any(isinstance(x, ast.Starred) for x in e.elts):
            return list(e.elts)
        return [e]
    for n in ast.walk(func):
        if isinstance(n, ast.AugAssign) and isinstance(n.op, ast.BitOr) and isinstance(n.target, ast.Attribute) and n.target.attr == attr:
            out.extend((p_, n) for p_ in parts(n.value))
        elif isinstance(n, ast.Call) and not n.keywords and n.args and isinstance(n.func, ast.Attribute) and \
                n.func.attr in ('add', 'update') and isinstance(n.func.value, ast.Attribute) and n.func.value.attr == attr and \
                (n.func.attr == 'update' or len(n.args) == 1):
            out.extend((p_, n) for a in n.args for p_ in parts(a))
        elif isinstance(n, ast.Assign) and len(n.targets) == 1 and isinstance(n.targets[0], ast.Attribute) and n.targets[0].attr == attr \
                and isinstance(n.value, ast.BinOp) and isinstance(n.value.op, ast.BitOr):
            # reg = reg | a | b
            ps = parts(n.value)
            if ps and norm(ps[0]) == norm(n.targets[0]):
                out.extend((p_, n) for p_ in ps[1:])
    return out


def _signal_like(repo, mod, func, e, depth=0):
    """the expression statically denotes signal objects: asserted isinstance of Signal subclasses, or the result of a
    _collect_all* call whose filter is isinstance(x, <Signal subclass>) (set differences keep the property)"""
    def is_sig_class(c):
        kinds = c.elts if isinstance(c, ast.Tuple) else [c]
        res = []
        for k in kinds:
            rc = repo.resolve_class(mod, k)
            res.append(rc is not None and any(cd.name == 'Signal' for _, cd in repo.mro(*rc)))
        return bool(res) and all(res)

    def filt_is_sig(lam):
        return isinstance(lam, ast.Lambda) and _is_call(lam.body, name='isinstance', nargs=2) and is_sig_class(lam.body.args[1])
    if depth > 4:
        return False
    if isinstance(e, ast.BinOp) and isinstance(e.op, ast.Sub):
        return _signal_like(repo, mod, func, e.left, depth + 1)
    if _is_call(e, attr='_collect_all_single') and e.args:
        return filt_is_sig(e.args[0])
    if not isinstance(e, ast.Name):
        return False
    for n in _own_nodes(func):
        if isinstance(n, ast.Assert) and _is_call(n.test, name='isinstance', nargs=2) and norm(n.test.args[0]) == e.id \
                and is_sig_class(n.test.args[1]):
            return True
    for kind, node, val in _bindings(func, e.id):
        if kind == 'assign' and _signal_like(repo, mod, func, val, depth + 1):
            return True
        if kind == 'unpack':
            call, k = val
            if _is_call(call, attr='_collect_all') and call.args and isinstance(call.args[0], ast.List) and k < len(call.args[0].elts) \
                    and filt_is_sig(call.args[0].elts[k]):
                return True
    return False


def rule_registry(repo):
    r = RuleResult('R-C16-registry', "every API that brings signals into a design after elaboration registers them in the registry the "
                                     "tracing passes enumerate (so they get a $var / a text-wave entry)")
    # the registry is derived from what the tracers iterate
    v = _Vcd(repo)
    top_v = _params(v.mk)[1]
    regs = set()
    for f_, tp in ((v.mk, top_v), (repo.mod(TW).get_func('PrintTextWavePass._collect_sig_func'), None)):
        tp = tp or _params(f_)[1]
        for n in ast.walk(f_):
            src = n.iter if isinstance(n, (ast.For, ast.comprehension)) else None
            src = _strip_wrappers(src) if src is not None else None
            if isinstance(src, ast.Attribute) and isinstance(src.value, ast.Attribute) and src.value.attr == '_dsl' and norm(src.value.value) == tp:
                regs.add(src.attr)
    if len(regs) != 1:
        raise AnalysisError(f"tracing passes enumerate {sorted(regs)}: expected one common signal registry")
    reg = regs.pop()
    r.ok(v.mod, v.q, f"tracers enumerate <top>._dsl.{reg}", nontrivial=False)
    cm = repo.mod(COMPONENT)
    named = 'all_named_objects'
    n_sig = 0
    for name, f_ in sorted(cm.methods('Component').items()):
        na_ = _registry_adds(f_, named)
        ra_ = [norm(e) for e, _ in _registry_adds(f_, reg)]
        for e, node in na_:
            if not _signal_like(repo, cm, f_, e):
                continue
            n_sig += 1
            _chk(r, norm(e) in ra_, cm, f'Component.{name}', f"{norm(e)} -> {named} and {reg}",
                 f"the signals `{norm(e)}` are added to the design ({named}; they are connected and simulated) but not to `{reg}`, the "
                 f"registry VcdGenerationPass and PrintTextWavePass enumerate: ports/signals created after elaboration (debug ports, "
                 f"added or replaced components, spawned slices) get no $var and no text-wave entry", node)
    if n_sig < 3:
        raise AnalysisError(f"R-C16-registry: only {n_sig} post-elaboration signal registrations recognised in Component.py (expected >= 3)")
    r.require_floor(4 if not r.findings else 0)
    return r


class _GenYield(Exception):
    def __init__(self, v):
        self.v = v


class _GenReturn(Exception):
    def __init__(self, v):
        self.v = v


class _FoldBudget(AnalysisError):
    pass


class _Fold:
    """interpreter for a closed (input-free) symbol generator: integer / string arithmetic, divmod, chr/ord/len/range/str,
    join, indexing and slicing, f-strings, if / while / for-range, local helper functions (recursion allowed).  Anything else
    is outside the folding domain (AnalysisError); run-time errors of the generator itself surface as Python exceptions."""
    def __init__(self, budget=200000):
        self.budget = budget

    def tick(self):
        self.budget -= 1
        if self.budget < 0:
            raise _FoldBudget("symbol generator: folding budget exceeded (a digit loop may not terminate)")

    def ev(self, e, env):
        import operator as op
        self.tick()
        if isinstance(e, ast.Constant):
            return e.value
        if isinstance(e, ast.Name):
            for fr in env:
                if e.id in fr:
                    return fr[e.id]
            if e.id in ('True', 'False'):
                return e.id == 'True'
            raise AnalysisError(f"symbol generator: unbound name {e.id}")
        if isinstance(e, ast.BinOp):
            ops = {ast.Add: op.add, ast.Sub: op.sub, ast.Mult: op.mul, ast.FloorDiv: op.floordiv, ast.Mod: op.mod, ast.Pow: op.pow}
            if type(e.op) not in ops:
                raise AnalysisError(f"symbol generator: operator {norm(e)}")
            return ops[type(e.op)](self.ev(e.left, env), self.ev(e.right, env))
        if isinstance(e, ast.UnaryOp) and isinstance(e.op, (ast.Not, ast.USub)):
            v = self.ev(e.operand, env)
            return (not v) if isinstance(e.op, ast.Not) else -v
        if isinstance(e, ast.BoolOp):
            v = None
            for x in e.values:
                v = self.ev(x, env)
                if (isinstance(e.op, ast.And) and not v) or (isinstance(e.op, ast.Or) and v):
                    return v
            return v
        if isinstance(e, ast.Compare):
            ops = {ast.Gt: op.gt, ast.GtE: op.ge, ast.Lt: op.lt, ast.LtE: op.le, ast.Eq: op.eq, ast.NotEq: op.ne}
            left = self.ev(e.left, env)
            for o, c in zip(e.ops, e.comparators):
                if type(o) not in ops:
                    raise AnalysisError(f"symbol generator: comparison {norm(e)}")
                right = self.ev(c, env)
                if not ops[type(o)](left, right):
                    return False
                left = right
            return True
        if isinstance(e, ast.IfExp):
            return self.ev(e.body, env) if self.ev(e.test, env) else self.ev(e.orelse, env)
        if isinstance(e, ast.Subscript):
            base = self.ev(e.value, env)
            if isinstance(e.slice, ast.Slice):
                f = lambda x: None if x is None else self.ev(x, env)
                return base[f(e.slice.lower):f(e.slice.upper):f(e.slice.step)]
            return base[self.ev(e.slice, env)]
        if isinstance(e, (ast.Tuple, ast.List)):
            vals = [self.ev(x, env) for x in e.elts]
            return tuple(vals) if isinstance(e, ast.Tuple) else vals
        if isinstance(e, ast.JoinedStr):
            out = ''
            for v in e.values:
                if isinstance(v, ast.Constant):
                    out += v.value
                elif v.format_spec is None and v.conversion == -1:
                    out += str(self.ev(v.value, env))
                else:
                    raise AnalysisError(f"symbol generator: formatted hole {norm(e)}")
            return out
        if isinstance(e, (ast.ListComp, ast.GeneratorExp)) and len(e.generators) == 1:
            g = e.generators[0]
            res = []
            for v in self.ev(g.iter, env):
                fr = [{}] + env
                self.bind(g.target, v, fr)
                if all(self.ev(c, fr) for c in g.ifs):
                    res.append(self.ev(e.elt, fr))
            return res
        if isinstance(e, ast.Call) and not e.keywords:
            fn = norm(e.func)
            args = [self.ev(a, env) for a in e.args]
            simple = {'divmod': divmod, 'len': len, 'chr': chr, 'ord': ord, 'range': range, 'str': str, 'int': int, 'list': list,
                      'reversed': lambda x: list(reversed(x)), 'min': min, 'max': max}
            if fn in simple:
                return simple[fn](*args)
            if isinstance(e.func, ast.Attribute) and e.func.attr == 'join':
                return self.ev(e.func.value, env).join(args[0])
            if isinstance(e.func, ast.Name):
                for fr in env:
                    if e.func.id in fr and isinstance(fr[e.func.id], tuple) and fr[e.func.id][0] == 'def':
                        _, fdef, cenv = fr[e.func.id]
                        loc = dict(zip(_params(fdef), args))
                        try:
                            self.run(fdef.body, [loc] + cenv)
                        except _GenReturn as r_:
                            return r_.v
                        return None
        raise AnalysisError(f"symbol generator: expression outside the folding domain: {norm(e)[:70]}")

    def bind(self, t, v, env):
        if isinstance(t, ast.Name):
            for fr in env[:1]:
                fr[t.id] = v
        elif isinstance(t, (ast.Tuple, ast.List)):
            v = list(v)
            if len(v) != len(t.elts):
                raise ValueError("unpack")
            for a, b in zip(t.elts, v):
                self.bind(a, b, env)
        else:
            raise AnalysisError("symbol generator: assignment target")

    def run(self, stmts, env):
        for st in stmts:
            self.tick()
            if isinstance(st, ast.Assign):
                v = self.ev(st.value, env)
                for t in st.targets:
                    self.bind(t, v, env)
            elif isinstance(st, ast.AugAssign) and isinstance(st.target, ast.Name):
                cur = self.ev(ast.Name(id=st.target.id, ctx=ast.Load()), env)
                v = self.ev(ast.BinOp(left=ast.Constant(cur), op=st.op, right=ast.Constant(self.ev(st.value, env))), env)
                self.bind(st.target, v, env)
            elif isinstance(st, ast.While):
                while self.ev(st.test, env):
                    self.run(st.body, env)
            elif isinstance(st, ast.If):
                self.run(st.body if self.ev(st.test, env) else st.orelse, env)
            elif isinstance(st, ast.For):
                for v in self.ev(st.iter, env):
                    self.bind(st.target, v, env)
                    self.run(st.body, env)
            elif isinstance(st, ast.Expr) and isinstance(st.value, ast.Yield):
                raise _GenYield(self.ev(st.value.value, env))
            elif isinstance(st, ast.Return):
                raise _GenReturn(None if st.value is None else self.ev(st.value, env))
            elif isinstance(st, ast.FunctionDef):
                env[0][st.name] = ('def', st, env)
            elif isinstance(st, ast.Pass) or (isinstance(st, ast.Expr) and isinstance(st.value, ast.Constant)):
                pass
            else:
                raise AnalysisError(f"symbol generator: statement outside the folding domain: {norm(st)[:60]}")


def rule_symbols(repo):
    """Distinct nets must get distinct VCD identifier codes made of printable non-blank characters.  The symbol generator is a
    closed (input-free) generator `<setup>; n = 0; while True: <code for n>; yield code; n += 1`: its per-n body is interpreted
    for a sparse but deep set of n (all small n, the digit-count boundaries of the alphabet size and their neighbours, pairs
    k / k + M**2 / k + M**3, 10**5, 10**6) and must be injective and legal on that set."""
    r = RuleResult('R-C16-symbols', "the VCD identifier generator never hands the same code to two nets and only uses printable "
                                    "non-blank characters (per-n body interpreted on a sparse deep set of n)")
    m = repo.mod(VCD)
    gens = [n for n in ast.walk(m.tree) if isinstance(n, ast.FunctionDef) and any(isinstance(x, (ast.Yield, ast.YieldFrom)) for x in walk_no_nested(n))]
    if len(gens) != 1:
        raise AnalysisError("anchor vanished: VCD symbol generator (expected exactly one generator function in VcdGenerationPass.py)")
    g = gens[0]
    if g.args.args or g.args.kwonlyargs or g.args.vararg or g.args.kwarg:
        raise AnalysisError("symbol generator takes parameters: not a closed generator")
    loops = [s_ for s_ in g.body if isinstance(s_, ast.While) and isinstance(s_.test, ast.Constant) and s_.test.value in (True, 1)]
    if len(loops) != 1 or g.body[-1] is not loops[0]:
        raise AnalysisError("symbol generator: expected `<setup>; while True: ...` as the last statement")
    loop = loops[0]
    setup = g.body[:g.body.index(loop)]
    # the counter: initialised to 0 in the setup, stepped by exactly one, unconditionally, after the yield
    steps = [s_ for s_ in loop.body if isinstance(s_, ast.AugAssign) and isinstance(s_.target, ast.Name)]
    ypos = [k for k, s_ in enumerate(loop.body) if isinstance(s_, ast.Expr) and isinstance(s_.value, ast.Yield)]
    cnt = None
    for s_ in steps:
        init = [x for x in setup if isinstance(x, ast.Assign) and any(isinstance(t, ast.Name) and t.id == s_.target.id for t in x.targets)]
        if init and isinstance(init[-1].value, ast.Constant) and init[-1].value.value == 0 and isinstance(s_.op, ast.Add) and \
                isinstance(s_.value, ast.Constant) and s_.value.value == 1 and len(ypos) == 1 and loop.body.index(s_) > ypos[0]:
            cnt = s_.target.id
    nested_y = [x for s_ in loop.body for x in ast.walk(s_) if isinstance(x, ast.Yield)]
    if cnt is None or len(nested_y) != 1:
        r.bad(m, g.name, "counter: n = 0 ... yield ... n += 1", "the generator does not yield exactly one code per value of a counter that "
              "starts at 0 and is stepped by one after the yield: codes are skipped or repeated", g.lineno)
        r.require_floor(0)
        return r
    f = _Fold()
    genv = [{}]
    try:
        f.run([s_ for s_ in setup], genv)
    except (_GenYield, _GenReturn):
        raise AnalysisError("symbol generator: yield/return in the setup part")
    M = {94} | {len(v_) for v_ in genv[0].values() if isinstance(v_, str) and len(v_) > 1} | \
        {v_ for v_ in genv[0].values() if isinstance(v_, int) and not isinstance(v_, bool) and 2 <= v_ <= 1000}
    points = set(range(0, 201)) | {93, 94, 95, 94 ** 2 - 1, 94 ** 2, 94 ** 2 + 1, 94 ** 3 - 1, 94 ** 3, 10 ** 5, 10 ** 6}
    for b in M:
        points |= {b - 1, b, b + 1, b * b - 1, b * b, b * b + 1, b ** 3 - 1, b ** 3, b ** 3 + 1}
        points |= {k + b * b for k in range(0, 201)} | {k + b ** 3 for k in range(0, 201)} | {k * b for k in range(0, 201)}
    body = [s_ for s_ in loop.body]
    codes = {}
    finding = None
    for n_ in sorted(points):
        f.budget = 20000
        env = [dict(genv[0])]
        env[0][cnt] = n_
        try:
            f.run(body, env)
            finding = f"for n = {n_} the loop body finishes without yielding a code"
        except _GenYield as y:
            c = y.v
            r.evaluations += 1
            if not isinstance(c, str) or not c:
                finding = f"net #{n_} gets the identifier {c!r}, which is not a non-empty string"
            elif any(ch.isspace() or not (33 <= ord(ch) <= 126) for ch in c):
                finding = f"net #{n_} gets the identifier {c!r}, which contains a character outside the printable non-blank VCD alphabet (33..126)"
            elif c in codes:
                finding = (f"nets #{codes[c]} and #{n_} both get the identifier code {c!r}: in designs with more than {n_} nets unrelated "
                           f"signals (possibly the clock) alias each other in the VCD file")
            else:
                codes[c] = n_
        except _FoldBudget:
            finding = (f"for net #{n_} the generator does not produce a code within 20000 interpretation steps (a code has at most a "
                       f"handful of digits): the digit loop does not terminate, building the dump hangs")
        except AnalysisError:
            raise
        except _GenReturn:
            finding = f"the generator returns at n = {n_}: larger designs cannot be dumped"
        except Exception as ex:
            finding = f"the generator raises {type(ex).__name__} ({ex}) for net #{n_}: designs with more nets cannot be dumped"
        if finding:
            break
    cons = f"{g.name}: identifier codes of {len(points)} net numbers up to {max(points)}"
    if finding:
        r.bad(m, g.name, cons, finding, g.lineno)
    else:
        r.ok(m, g.name, cons + " are pairwise distinct and printable")
    r.require_floor(1 if not r.findings else 0)
    return r


def rule_passgroup_order(repo):
    """the dump functions only run if the waveform passes are applied BEFORE the pass that assembles sim_tick, in every pass
    group that offers waveforms.  Shared with C01 (R-C01-agree: pass-group order)."""
    from rules.c01 import rule_agree
    return rule_agree(repo)


RULES = [rule_tick_order, rule_compress, rule_header, rule_textwave, rule_gen_isolation, rule_registry, rule_symbols, rule_passgroup_order]


# ---------------------------------------------------------------------------
# self-test of the checker (thorough tier)
def _m(name, file, old, new, rule=None, count=1):
    return dict(name=name, file=file, old=old, new=new, rule=rule, count=count)


def _m2(name, rule, *edits):
    return dict(name=name, rule=rule, edits=[dict(file=f, old=o, new=n, count=1) for f, o, n in edits])


_VCD_BLK = "    if top.has_metadata( VcdGenerationPass.vcd_func ):\n      ret.append( top.get_metadata( VcdGenerationPass.vcd_func ) )\n\n"
_TW_BLK = "    if top.has_metadata( PrintTextWavePass.textwave_func ):\n      ret.append( top.get_metadata( PrintTextWavePass.textwave_func ) )\n\n"
_FLIP = "    ret.extend( top._sched.schedule_posedge_flip )\n"
_OL_VCD = "    if top.has_metadata( VcdGenerationPass.vcd_func ):\n      ffs.append( top.get_metadata( VcdGenerationPass.vcd_func ) )\n\n"
_OL_FLIP = "    ffs.extend( top._sched.schedule_posedge_flip )\n"
_CMP = ("        if last_values[i] != net_bits_bin_str:\n          last_values[i] = net_bits_bin_str\n"
        "          print( f'{net_bits_bin_str}{symbol}', file=vcd_file )\n")
_PRINT = "print( f'{net_bits_bin_str}{symbol}', file=vcd_file )"
_NEWNET = ("          trimmed_value_nets.append( [ signal ] )\n          signal_net_mapping[signal] = len(signal_net_mapping)\n"
           "          symbol = next(vcd_symbols)\n          net_symbol_mapping.append( symbol )\n")
_D7_NEW = ("    g_dict, l_dict = { 's': top, 'text_sigs': text_sigs }, {}\n"
           "    exec(compile( src, filename=\"temp\", mode=\"exec\"), g_dict, l_dict)")
_D7_OLD = ("    s, l_dict = top, {}\n"
           "    exec(compile( src, filename=\"temp\", mode=\"exec\"), globals().update(locals()), l_dict)")

MUTANTS = [
    dict(name='vcd-symbol-drops-leading-digit', file=VCD, old="        while q > 0:", new="        while q >= _mod:", rule='R-C16-symbols', count=1),
    # --- tick order
    _m2('vcd-after-flip', 'R-C16-tick-order', (PREP, _VCD_BLK, ""), (PREP, _FLIP, _FLIP + _VCD_BLK)),
    _m2('textwave-after-flip', 'R-C16-tick-order', (PREP, _TW_BLK, ""), (PREP, _FLIP, _FLIP + _TW_BLK)),
    _m('vcd-dumped-twice', PREP, "      ret.append( top.get_metadata( VcdGenerationPass.vcd_func ) )\n",
       "      ret.append( top.get_metadata( VcdGenerationPass.vcd_func ) )\n      ret.append( top.get_metadata( VcdGenerationPass.vcd_func ) )\n",
       'R-C16-tick-order'),
    _m('vcd-guard-wrong-key', PREP, "    if top.has_metadata( VcdGenerationPass.vcd_func ):", "    if top.has_metadata( VcdGenerationPass.vcd_file_name ):",
       'R-C16-tick-order'),
    _m('textwave-only-without-vcd', PREP, "    if top.has_metadata( PrintTextWavePass.textwave_func ):", "    elif top.has_metadata( PrintTextWavePass.textwave_func ):",
       'R-C16-tick-order'),
    _m('vcd-never-scheduled', PREP, _VCD_BLK, "", 'R-C16-tick-order'),
    _m('tick-no-leading-comb', PREP, "      final_schedule = top._sched.update_schedule[::]\n", "      pass\n", 'R-C16-tick-order'),
    _m('unroll-tick-no-leading-comb', UNROLL, "      final_schedule = top._sched.update_schedule[::]\n", "      pass\n", 'R-C16-tick-order'),
    _m('comb-between-dump-and-edge', PREP, "    ret.extend( top._sched.schedule_ff )\n",
       "    ret.extend( top._sched.update_schedule )\n    ret.extend( top._sched.schedule_ff )\n", 'R-C16-tick-order'),
    _m('reset-edges-bypass-dumps', PREP, "    ff = SimpleTickPass.gen_tick_function( self.collect_ff_funcs( top ) )",
       "    ff = SimpleTickPass.gen_tick_function( top._sched.schedule_ff + top._sched.schedule_posedge_flip )", 'R-C16-tick-order'),
    _m('reset-edge-unsettled', PREP, "      top.reset @= b1( active_high )\n      up()\n", "      top.reset @= b1( active_high )\n", 'R-C16-tick-order'),
    _m2('openloop-vcd-after-flip', 'R-C16-tick-order', (OPENLOOP, _OL_VCD, ""), (OPENLOOP, _OL_FLIP, _OL_FLIP + _OL_VCD)),
    # --- change compression
    _m('store-before-compare', VCD, "        if last_values[i] != net_bits_bin_str:\n          last_values[i] = net_bits_bin_str\n",
       "        last_values[i] = net_bits_bin_str\n        if last_values[i] != net_bits_bin_str:\n", 'R-C16-compress'),
    _m('store-dropped', VCD, "          last_values[i] = net_bits_bin_str\n", "", 'R-C16-compress'),
    _m('store-wrong-slot', VCD, "          last_values[i] = net_bits_bin_str\n", "          last_values[0] = net_bits_bin_str\n", 'R-C16-compress'),
    _m('store-only-when-wide', VCD, "          last_values[i] = net_bits_bin_str\n",
       "          if len(net_bits_bin_str) > 1: last_values[i] = net_bits_bin_str\n", 'R-C16-compress'),
    _m('guard-inverted', VCD, "if last_values[i] != net_bits_bin_str:", "if last_values[i] == net_bits_bin_str:", 'R-C16-compress'),
    _m('guard-extra-conjunct', VCD, "if last_values[i] != net_bits_bin_str:", "if last_values[i] != net_bits_bin_str and vcd_sim_ncycles > 0:",
       'R-C16-compress'),
    _m('compares-bits-not-string', VCD, "if last_values[i] != net_bits_bin_str:", "if last_values[i] != net_bits_bin:", 'R-C16-compress'),
    _m('prints-clock-symbol', VCD, _PRINT, "print( f'{net_bits_bin_str}{clock_symbol}', file=vcd_file )", 'R-C16-compress'),
    _m('prints-symbol-first', VCD, _PRINT, "print( f'{symbol}{net_bits_bin_str}', file=vcd_file )", 'R-C16-compress'),
    _m('prints-with-separator', VCD, _PRINT, "print( f'{net_bits_bin_str} {symbol}', file=vcd_file )", 'R-C16-compress'),
    _m('prints-to-stdout', VCD, _PRINT, "print( f'{net_bits_bin_str}{symbol}' )", 'R-C16-compress'),
    _m('prints-without-newline', VCD, _PRINT, "print( f'{net_bits_bin_str}{symbol}', file=vcd_file, end='' )", 'R-C16-compress'),
    _m('value-not-packed', VCD, "net_bits_bin = eval(repr(signal)).to_bits()", "net_bits_bin = eval(repr(signal))", 'R-C16-compress'),
    _m('table-drops-nets', VCD, "if i != vcd_clock_net_idx ]", "if i > vcd_clock_net_idx ]", 'R-C16-compress'),
    _m('table-pairs-wrong-symbol', VCD, "( trimmed_value_nets[i][0], net_symbol_mapping[i] )", "( trimmed_value_nets[i][0], net_symbol_mapping[i-1] )",
       'R-C16-compress'),
    _m('no-falling-edge', VCD, "      print( f'\\n#{next_neg_edge}\\n0{clock_symbol}', file=vcd_file )\n", "", 'R-C16-compress'),
    _m('rising-edge-prints-zero', VCD, "print( f'#{next_pos_edge}\\n1{clock_symbol}\\n'", "print( f'#{next_pos_edge}\\n0{clock_symbol}\\n'", 'R-C16-compress'),
    _m('clock-period-drifts', VCD, "next_pos_edge = next_neg_edge + 50", "next_pos_edge = next_neg_edge + 100", 'R-C16-compress'),
    _m('cycle-counter-stuck', VCD, "      vcd_sim_ncycles += 1\n", "", 'R-C16-compress'),
    _m('clock-edges-only-on-change', VCD, "      print( f'#{next_pos_edge}\\n1{clock_symbol}\\n', file=vcd_file, flush=True )\n      vcd_sim_ncycles += 1\n",
       "      if next_neg_edge:\n        print( f'#{next_pos_edge}\\n1{clock_symbol}\\n', file=vcd_file, flush=True )\n        vcd_sim_ncycles += 1\n",
       'R-C16-compress'),
    _m('dump-called-with-wrong-object', VCD, "    return gen_dump_vcd( top )", "    return gen_dump_vcd( vcd_file )", 'R-C16-compress'),
    # --- header
    _m('var-width-off', VCD, "$var reg {signal._dsl.Type.nbits} {symbol}", "$var reg {signal._dsl.Type.nbits+1} {symbol}", 'R-C16-header'),
    _m('var-width-of-name', VCD, "$var reg {signal._dsl.Type.nbits} {symbol}", "$var reg {len(signal_name)} {symbol}", 'R-C16-header'),
    _m('unconnected-signals-skipped', VCD, _NEWNET, "          continue\n", 'R-C16-header'),
    _m('children-filtered', VCD, "for child in m.get_child_components():", "for child in list(m.get_child_components())[1:]:", 'R-C16-header'),
    _m('new-net-symbol-not-recorded', VCD, "          net_symbol_mapping.append( symbol )\n", "", 'R-C16-header'),
    _m('new-net-fresh-generator', VCD, "          symbol = next(vcd_symbols)\n", "          symbol = next(_gen_vcd_symbol())\n", 'R-C16-header'),
    _m('net-map-off-by-one', VCD, "        signal_net_mapping[x] = i\n", "        signal_net_mapping[x] = i+1\n", 'R-C16-header'),
    _m2('clock-index-in-other-list', 'R-C16-header',
        (VCD, "    for writer, net in top.get_all_value_nets():\n      new_net = []", "    for net_idx, (writer, net) in enumerate( top.get_all_value_nets() ):\n      new_net = []"),
        (VCD, "            vcd_clock_net_idx = len(trimmed_value_nets)\n\n      if new_net:", "            vcd_clock_net_idx = net_idx\n\n      if new_net:")),
    _m('var-name-from-field-names', VCD, "        signal_name = vcd_mangle_name( repr(signal)[ len(m_name)+1: ] )\n",
       "        signal_name = signal.get_field_name()\n        parent = signal.get_parent_object()\n        if parent is not m:\n"
       "          signal_name = f\"{parent.get_field_name()}.{signal_name}\"\n        signal_name = vcd_mangle_name( signal_name )\n", 'R-C16-header'),
    _m2('stamp-from-simulator-cycle-count', 'R-C16-compress',
        (VCD, "next_neg_edge = 100 * vcd_sim_ncycles + 50", "next_neg_edge = 100 * s._sim.simulated_cycles + 50"),
        (VCD, "      vcd_sim_ncycles += 1\n", "")),
    _m('net-members-widened-to-parent', VCD, "        if not isinstance(x, Const) and x.is_top_level_signal():\n          new_net.append( x )\n",
       "        if isinstance(x, Const):\n          continue\n        x = x.get_top_level_signal()\n        if x not in new_net:\n          new_net.append( x )\n",
       'R-C16-header'),
    _m2('header-clock-edge-before-defaults', 'R-C16-compress',
        (VCD, "    print( '\\n#0\\n1{}\\n'.format( clock_symbol ), file=vcd_file, flush=True )\n", "    print( file=vcd_file, flush=True )\n"),
        (VCD, "    clock_symbol = net_symbol_mapping[ vcd_clock_net_idx ]\n\n    net_details", "    net_details"),
        (VCD, "    last_values = [0 for _ in range(len(trimmed_value_nets))]\n",
         "    clock_symbol = net_symbol_mapping[ vcd_clock_net_idx ]\n    print( '#0\\n1{}\\n'.format( clock_symbol ), file=vcd_file )\n"
         "    last_values = [0 for _ in range(len(trimmed_value_nets))]\n")),
    _m2('flush-only-when-dirty', 'R-C16-compress',
        (VCD, "      for i, (signal, symbol) in enumerate( net_details ):\n", "      dirty = False\n      for i, (signal, symbol) in enumerate( net_details ):\n"),
        (VCD, "          print( f'{net_bits_bin_str}{symbol}', file=vcd_file )\n", "          print( f'{net_bits_bin_str}{symbol}', file=vcd_file )\n          dirty = True\n"),
        (VCD, "file=vcd_file, flush=True )\n      vcd_sim_ncycles += 1", "file=vcd_file, flush=dirty )\n      vcd_sim_ncycles += 1")),
    _m('debug-port-not-registered', COMPONENT, "    top._dsl.all_signals.add( o )\n", "", 'R-C16-registry'),
    _m('spawned-slices-not-registered', COMPONENT, "    top._dsl.all_signals       |= spawned_signals\n", "", 'R-C16-registry'),
    _m('children-by-one-level-walk', VCD, "      for child in m.get_child_components():\n        recurse_models( child, spaces+'  ' )\n",
       "      for name, obj in m.__dict__.items():\n        if name[0] == '_': continue\n        for child in ( obj if isinstance( obj, list ) else [ obj ] ):\n"
       "          if isinstance( child, Component ):\n            recurse_models( child, spaces+'  ' )\n", 'R-C16-header'),
    _m('table-stops-one-short', VCD, "for i in range(len(trimmed_value_nets))\n                      if i != vcd_clock_net_idx ]",
       "for i in range(len(trimmed_value_nets)-1)\n                      if i != vcd_clock_net_idx ]", 'R-C16-compress'),
    _m('table-starts-at-one', VCD, "for i in range(len(trimmed_value_nets))\n                      if i != vcd_clock_net_idx ]",
       "for i in range(1, len(trimmed_value_nets))\n                      if i != vcd_clock_net_idx ]", 'R-C16-compress'),
    _m('net-map-stops-one-short', VCD, "    for i in range(len(trimmed_value_nets)):\n      for x in trimmed_value_nets[i]:",
       "    for i in range(len(trimmed_value_nets)-1):\n      for x in trimmed_value_nets[i]:", 'R-C16-header'),
    _m('enable-by-truthiness', VCD, "      if vcd_file_name is not None:\n", "      if vcd_file_name:\n", 'R-C16-header'),
    _m('enable-lets-none-through', VCD, "      if vcd_file_name is not None:\n", "      if True:\n", 'R-C16-header'),
    _m2('textwave-record-mutable-default', 'R-gen-isolation',
        (TW, "  def _collect_sig_func( self, top ):\n", "  def _collect_sig_func( self, top, text_sigs={} ):\n"),
        (TW, "    wav_srcs = []\n    text_sigs = {}\n", "    wav_srcs = []\n")),
    _m('textwave-record-chained-with-class', TW, "    text_sigs = {}\n", "    text_sigs = PrintTextWavePass._last_record = {}\n", 'R-gen-isolation'),
    _m2('scope-name-without-indices', 'R-C16-header',
        (VCD, "      my_name = m.get_field_name()\n      if my_name == \"s\":\n        my_name = \"top\"\n",
         "      if m is top:\n        my_name = \"top\"\n      else:\n        my_name = m._dsl._my_name\n")),
    _m('scope-name-is-class-name', VCD, "      my_name = m.get_field_name()\n", "      my_name = m.__class__.__name__\n", 'R-C16-header'),
    _m('trimming-stops-at-clock', VCD, "            vcd_clock_net_idx = len(trimmed_value_nets)\n\n      if new_net:",
       "            vcd_clock_net_idx = len(trimmed_value_nets)\n            break\n\n      if new_net:", 'R-C16-header'),
    _m2('slot-read-by-net-index-written-by-position', 'R-C16-compress',
        (VCD, "    net_details = [ ( trimmed_value_nets[i][0], net_symbol_mapping[i] )", "    net_details = [ ( i, trimmed_value_nets[i][0], net_symbol_mapping[i] )"),
        (VCD, "      for i, (signal, symbol) in enumerate( net_details ):", "      for i, (net_idx, signal, symbol) in enumerate( net_details ):"),
        (VCD, "        if last_values[i] != net_bits_bin_str:", "        if last_values[net_idx] != net_bits_bin_str:")),
    _m('symbols-only-two-digits', VCD, "        while q > 0:\n          q, r = divmod(q, _mod)", "        if q > 0:\n          q, r = divmod(q, _mod)", 'R-C16-symbols'),
    _m('symbols-quotient-remainder-swapped', VCD, "          q, r = divmod(q, _mod)\n", "          r, q = divmod(q, _mod)\n", 'R-C16-symbols'),
    _m('symbols-floordiv-for-mod', VCD, "        q, r = divmod(n, _mod)\n", "        q, r = n // _mod, n // _mod\n", 'R-C16-symbols'),
    _m('symbols-base-wider-than-alphabet', VCD, "      _mod       = len(_codechars)\n", "      _mod       = len(_codechars) + 1\n", 'R-C16-symbols'),
    _m('symbols-alphabet-with-blank', VCD, "for i in range(33, 127)])", "for i in range(32, 127)])", 'R-C16-symbols'),
    _m('symbols-counter-not-stepped', VCD, "        yield code\n        n += 1\n", "        yield code\n", 'R-C16-symbols'),
    _m('symbols-digits-dropped-not-prepended', VCD, "          code = _codechars[r] + code\n", "          code = _codechars[r]\n", 'R-C16-symbols'),
    _m('openloop-reset-edges-bypass-dumps', OPENLOOP, "    ff = SimpleTickPass.gen_tick_function( ffs_no_method )",
       "    ff = SimpleTickPass.gen_tick_function( top._sched.schedule_ff + top._sched.schedule_posedge_flip )", 'R-C16-tick-order'),
    _m('openloop-method-advance-bypasses-dumps', OPENLOOP, "    schedule_no_method = ups_no_method + ffs_no_method\n",
       "    schedule_no_method = ups_no_method + top._sched.schedule_ff + top._sched.schedule_posedge_flip\n", 'R-C16-tick-order'),
    _m2('clock-slot-left-at-placeholder', 'R-C16-compress',
        (VCD, "      for i, (signal, symbol) in enumerate( net_details ):\n", '      for i, (net, symbol) in enumerate( zip( trimmed_value_nets, net_symbol_mapping ) ):\n        signal = net[0]\n'),
        (VCD, "    for i, net in enumerate(trimmed_value_nets):\n", "    for i, net in enumerate(trimmed_value_nets):\n      if i == vcd_clock_net_idx: continue\n")),
    _m2('polled-table-built-before-late-nets', 'R-C16-compress',
        (VCD, '    net_details = [ ( trimmed_value_nets[i][0], net_symbol_mapping[i] )\n                    for i in range(len(trimmed_value_nets))\n                      if i != vcd_clock_net_idx ]\n\n    # Flip clock for the first cycle', '    # Flip clock for the first cycle'),
        (VCD, '    # Inner utility function to perform recursive descent of the model.\n', '    net_details = [ ( trimmed_value_nets[i][0], net_symbol_mapping[i] )\n                    for i in range(len(trimmed_value_nets))\n                      if i != vcd_clock_net_idx ]\n\n    # Inner utility function to perform recursive descent of the model.\n')),
    _m2('table-size-frozen-before-late-nets', 'R-C16-compress',
        (VCD, '    # Inner utility function to perform recursive descent of the model.\n', '    num_nets = len(trimmed_value_nets)\n    # Inner utility function to perform recursive descent of the model.\n'),
        (VCD, '    net_details = [ ( trimmed_value_nets[i][0], net_symbol_mapping[i] )\n                    for i in range(len(trimmed_value_nets))\n                      if i != vcd_clock_net_idx ]\n', '    net_details = [ ( trimmed_value_nets[i][0], net_symbol_mapping[i] )\n                    for i in range(num_nets)\n                      if i != vcd_clock_net_idx ]\n')),
    _m('var-name-keeps-dot', VCD, "repr(signal)[ len(m_name)+1: ]", "repr(signal)[ len(m_name): ]", 'R-C16-header'),
    _m('no-upscope', VCD, '      print( f"{spaces}$upscope $end", file=vcd_file )\n', "", 'R-C16-header'),
    _m('clock-index-off-by-one', VCD, "vcd_clock_net_idx = len(trimmed_value_nets)\n\n      if new_net:",
       "vcd_clock_net_idx = len(trimmed_value_nets) - 1\n\n      if new_net:", 'R-C16-header'),
    _m('registration-filtered', VCD, "      if x.is_top_level_signal():\n        host = x.get_host_component()",
       "      if x.is_top_level_signal() and not x.is_input_value_port():\n        host = x.get_host_component()", 'R-C16-header'),
    _m('initial-value-not-packed', VCD, "bin_str = net[0]._dsl.Type().to_bits().to_vcd_str()", "bin_str = net[0]._dsl.Type().to_vcd_str()", 'R-C16-header'),
    _m('initial-values-skip-first-net', VCD, "for i, net in enumerate(trimmed_value_nets):", "for i, net in enumerate(trimmed_value_nets[1:]):", 'R-C16-header'),
    _m('initial-value-wrong-symbol', VCD, 'print( f"{bin_str}{net_symbol_mapping[i]}", file=vcd_file )',
       'print( f"{bin_str}{net_symbol_mapping[0]}", file=vcd_file )', 'R-C16-header'),
    _m('initial-value-not-stored', VCD, "      last_values[i] = bin_str\n", "", 'R-C16-header'),
    _m('vcd-str-no-trailing-blank', BITS, 'str = f"b{int(self._uint):0{self._nbits}b} "', 'str = f"b{int(self._uint):0{self._nbits}b}"', 'R-C16-header'),
    _m('vcd-str-pending-value', BITS, 'str = f"{int(self._uint):b}"', 'str = f"{int(self._next):b}"', 'R-C16-header'),
    _m('vcd-str-width-short', BITS, 'str = f"b{int(self._uint):0{self._nbits}b} "', 'str = f"b{int(self._uint):0{self._nbits-1}b} "', 'R-C16-header'),
    _m('vcd-str-hex', BITS, 'str = f"b{int(self._uint):0{self._nbits}b} "', 'str = f"b{int(self._uint):0{self._nbits}x} "', 'R-C16-header'),
    _m('vcd-str-scalar-threshold', BITS, "  def to_vcd_str( self ):\n    if self._nbits == 1:", "  def to_vcd_str( self ):\n    if self._nbits <= 2:", 'R-C16-header'),
    # --- text wave
    _m('textwave-lines-outside-function', TW, '"\\n  ".join(wav_srcs)', '"\\n".join(wav_srcs)', 'R-C16-textwave'),
    _m('textwave-filter-extra', TW, 'x.get_field_name() != "reset":', 'x.get_field_name() != "reset" and x._dsl.level < 2:', 'R-C16-textwave'),
    _m('textwave-filter-substring', TW, 'x.get_field_name() != "clk" and x.get_field_name() != "reset":', 'x.get_field_name() not in ( "clk" "reset" ):',
       'R-C16-textwave'),
    _m('textwave-records-hex', TW, ".to_bits().bin() )", ".to_bits().hex() )", 'R-C16-textwave'),
    _m('textwave-not-packed', TW, "{x}.to_bits().bin()", "{x}.bin()", 'R-C16-textwave'),
    _m('textwave-names-sliced', TW, "sorted(signal_names):", "sorted(signal_names)[1:]:", 'R-C16-textwave'),
    _m('textwave-no-reset', TW, "[(0, 's.reset')] + sorted(signal_names)", "sorted(signal_names)", 'R-C16-textwave'),
    _m('textwave-printer-reads-global', TW, "all_signal_values = sigs_dict", "all_signal_values = text_sigs", 'R-C16-textwave'),
    _m('textwave-metadata-swapped', TW, "top.set_metadata( self.textwave_func, func )", "top.set_metadata( self.textwave_func, sigs_dict )", 'R-C16-textwave'),
    _m('textwave-record-copied', TW, "return l_dict['dump_wav'], text_sigs", "return l_dict['dump_wav'], dict(text_sigs)", 'R-C16-textwave'),
    _m('textwave-key-mismatch', TW, "text_sigs['{x}'].append", "text_sigs['{x[2:]}'].append", 'R-C16-textwave'),
    _m('bin-not-padded', BITS, 'str = "{:b}".format(int(self._uint)).zfill(self._nbits)', 'str = "{:b}".format(int(self._uint))', 'R-C16-textwave'),
    # --- isolation of generated code
    _m('D7-textwave-globals-update', TW, _D7_NEW, _D7_OLD, 'R-gen-isolation'),
    _m('unroll-exec-in-module-globals', UNROLL, "    l = {}\n    exec(py.code.Source( gen_tick_src ).compile(), l)",
       "    l = globals()\n    exec(py.code.Source( gen_tick_src ).compile(), l)", 'R-gen-isolation'),
    _m('flip-exec-locals-are-globals', SIMPLE, "mode='exec' ), globals(), l)", "mode='exec' ), globals(), globals())", 'R-gen-isolation'),
    _m('inport-check-binds-s-globally', PREP, "      _globals['s'] = top\n", "      globals()['s'] = top\n", 'R-gen-isolation'),
    _m('netblk-globals-alias', GENDAG, "      _globals = {'s': wr_lca }\n", "      _globals = globals()\n      _globals['s'] = wr_lca\n", 'R-gen-isolation'),
    _m('scc-globals-update', DYN, "custom_exec(py.code.Source( src ).compile(), _globals, _locals)",
       "custom_exec(py.code.Source( src ).compile(), globals().update(_globals) or globals(), _locals)", 'R-gen-isolation'),
    _m('metablock-publishes-blocks', MAMBA, "    _globals = { f\"blk{i}\": b for i, b in enumerate( blocks ) }\n",
       "    _globals = { f\"blk{i}\": b for i, b in enumerate( blocks ) }\n    globals().update( _globals )\n", 'R-gen-isolation'),
]

EQUIV = [
    _m('rename-current-string', VCD, "net_bits_bin_str", "cur_str", count=4),
    _m('compare-operands-swapped', VCD, "if last_values[i] != net_bits_bin_str:", "if net_bits_bin_str != last_values[i]:"),
    _m('store-after-print', VCD, "          last_values[i] = net_bits_bin_str\n          " + _PRINT + "\n",
       "          " + _PRINT + "\n          last_values[i] = net_bits_bin_str\n"),
    _m('guard-as-continue', VCD, _CMP, "        if last_values[i] == net_bits_bin_str:\n          continue\n        last_values[i] = net_bits_bin_str\n"
       "        " + _PRINT + "\n"),
    _m('guard-as-not-eq', VCD, "if last_values[i] != net_bits_bin_str:", "if not ( last_values[i] == net_bits_bin_str ):"),
    _m('previous-read-into-local', VCD, _CMP, "        prev = last_values[i]\n        last_values[i] = net_bits_bin_str\n"
       "        if prev != net_bits_bin_str:\n          " + _PRINT + "\n"),
    _m('print-by-concatenation', VCD, _PRINT, "print( net_bits_bin_str + symbol, file=vcd_file )"),
    _m('print-by-format', VCD, _PRINT, "print( '{}{}'.format( net_bits_bin_str, symbol ), file=vcd_file )"),
    _m('rising-edge-closed-form', VCD, "next_pos_edge = next_neg_edge + 50", "next_pos_edge = 100 * ( vcd_sim_ncycles + 1 )"),
    _m('table-by-enumerate', VCD, "( trimmed_value_nets[i][0], net_symbol_mapping[i] )\n                    for i in range(len(trimmed_value_nets))",
       "( net[0], net_symbol_mapping[i] )\n                    for i, net in enumerate(trimmed_value_nets)"),
    _m('var-loop-sorted', VCD, "for signal in component_signals[m]:", "for signal in sorted( component_signals[m], key=repr ):"),
    _m('collect-ff-append-as-iadd', PREP, "      ret.append( top.get_metadata( VcdGenerationPass.vcd_func ) )", "      ret += [ top.get_metadata( VcdGenerationPass.vcd_func ) ]"),
    _m('dump-order-swapped', PREP, _VCD_BLK + _TW_BLK, _TW_BLK + _VCD_BLK),
    _m('vcd-str-branches-swapped', BITS, 'if self._nbits == 1:\n      str = f"{int(self._uint):b}"\n    else:\n      str = f"b{int(self._uint):0{self._nbits}b} "',
       'if self._nbits != 1:\n      str = f"b{int(self._uint):0{self._nbits}b} "\n    else:\n      str = f"{int(self._uint):b}"'),
    _m('vcd-str-by-zfill', BITS, 'str = f"b{int(self._uint):0{self._nbits}b} "', 'str = "b" + "{:b}".format(int(self._uint)).zfill(self._nbits) + " "'),
    _m('bin-by-fstring', BITS, 'str = "{:b}".format(int(self._uint)).zfill(self._nbits)', 'str = f"{int(self._uint):0{self._nbits}b}"'),
    _m('textwave-namespace-by-dict-call', TW, "{ 's': top, 'text_sigs': text_sigs }", "dict( s=top, text_sigs=text_sigs )"),
    _m('textwave-filter-not-in', TW, 'x.get_field_name() != "clk" and x.get_field_name() != "reset":', 'x.get_field_name() not in ( "clk", "reset" ):'),
    _m('unroll-namespace-by-dict-call', UNROLL, "    l = {}\n    exec(", "    l = dict()\n    exec("),
    _m('flip-exec-fresh-copy-of-globals', SIMPLE, "mode='exec' ), globals(), l)", "mode='exec' ), dict(globals()), l)"),
    # loop-with-append vs comprehension, index loops, flipped / split conditionals, helper locals
    _m('textwave-names-by-comprehension', TW,
       "    signal_names = []\n    for x in top._dsl.all_signals:\n      if x.is_top_level_signal() and x.get_field_name() != \"clk\" and x.get_field_name() != \"reset\":\n"
       "        signal_names.append( (x._dsl.level, repr(x)) )\n",
       "    signal_names = [ (x._dsl.level, repr(x)) for x in top._dsl.all_signals\n"
       "                     if x.is_top_level_signal() and x.get_field_name() != \"clk\" and x.get_field_name() != \"reset\" ]\n"),
    _m('textwave-names-nested-ifs', TW,
       "      if x.is_top_level_signal() and x.get_field_name() != \"clk\" and x.get_field_name() != \"reset\":\n        signal_names.append( (x._dsl.level, repr(x)) )\n",
       "      if not x.is_top_level_signal():\n        continue\n      fname = x.get_field_name()\n      if fname != \"clk\":\n        if not fname == \"reset\":\n"
       "          signal_names.append( (x._dsl.level, repr(x)) )\n"),
    _m('textwave-lines-by-comprehension', TW,
       "      text_sigs[x] = []\n      wav_srcs.append(f\"text_sigs['{x}'].append( {x}.to_bits().bin() )\")\n",
       "      text_sigs[x] = []\n    wav_srcs = [ f\"text_sigs['{x}'].append( {x}.to_bits().bin() )\" for _, x in sorted(signal_names) + [(0, 's.reset')] ]\n"),
    _m('symbols-by-append-loop', VCD, "    net_symbol_mapping = [ next(vcd_symbols) for x in trimmed_value_nets ]\n",
       "    net_symbol_mapping = []\n    for x in trimmed_value_nets:\n      net_symbol_mapping.append( next(vcd_symbols) )\n"),
    _m('table-by-append-loop', VCD,
       "    net_details = [ ( trimmed_value_nets[i][0], net_symbol_mapping[i] )\n                    for i in range(len(trimmed_value_nets))\n"
       "                      if i != vcd_clock_net_idx ]\n",
       "    net_details = []\n    for i, members in enumerate(trimmed_value_nets):\n      if i == vcd_clock_net_idx:\n        continue\n"
       "      rep = members[0]\n      net_details.append( ( rep, net_symbol_mapping[i] ) )\n"),
    _m('map-by-dict-comprehension', VCD,
       "    signal_net_mapping = {}\n\n    for i in range(len(trimmed_value_nets)):\n      for x in trimmed_value_nets[i]:\n        signal_net_mapping[x] = i\n",
       "    signal_net_mapping = { x: i for i, members in enumerate(trimmed_value_nets) for x in members }\n"),
    _m('value-loop-by-index', VCD, "      for i, (signal, symbol) in enumerate( net_details ):\n",
       "      for i in range(len(net_details)):\n        signal, symbol = net_details[i]\n"),
    _m('initial-loop-by-index', VCD, "    for i, net in enumerate(trimmed_value_nets):\n", "    for i in range(len(trimmed_value_nets)):\n      net = trimmed_value_nets[i]\n"),
    _m('var-symbol-branches-split', VCD,
       "        if signal in signal_net_mapping:\n          net_id = signal_net_mapping[signal]\n          symbol = net_symbol_mapping[net_id]\n        else:\n",
       "        if signal in signal_net_mapping:\n          symbol = net_symbol_mapping[ signal_net_mapping[signal] ]\n        if signal not in signal_net_mapping:\n"),
    _m('registration-early-continue', VCD, "      if x.is_top_level_signal():\n        host = x.get_host_component()\n        component_signals[ host ].add( x )\n",
       "      if not x.is_top_level_signal():\n        continue\n      component_signals[ x.get_host_component() ].add( x )\n"),
    _m('net-loop-by-enumerate', VCD, "    for writer, net in top.get_all_value_nets():\n      new_net = []",
       "    for net_idx, (writer, net) in enumerate( top.get_all_value_nets() ):\n      new_net = []"),
    _m('clock-index-helper-local', VCD, "            vcd_clock_net_idx = len(trimmed_value_nets)\n\n      if new_net:",
       "            pos_of_this_net = len(trimmed_value_nets)\n            vcd_clock_net_idx = pos_of_this_net\n\n      if new_net:"),
    _m('net-members-by-comprehension', VCD, "      new_net = []\n      for x in net:\n        if not isinstance(x, Const) and x.is_top_level_signal():\n          new_net.append( x )\n          if repr(x)",
       "      new_net = [ y for y in net if not isinstance(y, Const) and y.is_top_level_signal() ]\n      for x in new_net:\n        if True:\n          if repr(x)"),
    _m('stamp-helper-local', VCD, "next_neg_edge = 100 * vcd_sim_ncycles + 50", "cyc = vcd_sim_ncycles\n      next_neg_edge = 100 * cyc + 50"),
    _m('flush-by-method-call', VCD, "file=vcd_file, flush=True )\n      vcd_sim_ncycles += 1", "file=vcd_file )\n      vcd_sim_ncycles += 1\n      vcd_file.flush()"),
    _m('textwave-filter-de-morgan', TW, 'x.get_field_name() != "clk" and x.get_field_name() != "reset":',
       'not ( x.get_field_name() == "clk" or x.get_field_name() == "reset" ):'),
    _m('textwave-filter-in-set-flipped', TW,
       "      if x.is_top_level_signal() and x.get_field_name() != \"clk\" and x.get_field_name() != \"reset\":\n        signal_names.append( (x._dsl.level, repr(x)) )\n",
       "      if not x.is_top_level_signal() or x.get_field_name() in {\"clk\", \"reset\"}:\n        pass\n      else:\n        signal_names.append( (x._dsl.level, repr(x)) )\n"),
    _m('children-by-full-walk', VCD, "      for child in m.get_child_components():\n        recurse_models( child, spaces+'  ' )\n",
       "      todo = [ obj for name, obj in m.__dict__.items() if name[0] != '_' ]\n      while todo:\n        child = todo.pop( 0 )\n"
       "        if isinstance( child, list ):\n          todo = list( child ) + todo\n        elif isinstance( child, Component ):\n"
       "          recurse_models( child, spaces+'  ' )\n"),
    _m('debug-port-registered-by-update', COMPONENT, "    top._dsl.all_signals.add( o )\n", "    top._dsl.all_signals |= { o }\n"),
    _m('table-range-explicit-bounds', VCD, "for i in range(len(trimmed_value_nets))\n                      if i != vcd_clock_net_idx ]",
       "for i in range(0, len(trimmed_value_nets), 1)\n                      if i != vcd_clock_net_idx ]"),
    _m('enable-by-not-eq-none', VCD, "      if vcd_file_name is not None:\n", "      if not ( vcd_file_name is None ):\n"),
    _m('enable-by-or-empty', VCD, "      if vcd_file_name is not None:\n", "      if vcd_file_name or vcd_file_name == \"\":\n"),
    dict(name='table-rows-carry-net-index', edits=[
        dict(file=VCD, old="    net_details = [ ( trimmed_value_nets[i][0], net_symbol_mapping[i] )", new="    net_details = [ ( i, trimmed_value_nets[i][0], net_symbol_mapping[i] )", count=1),
        dict(file=VCD, old="      for i, (signal, symbol) in enumerate( net_details ):", new="      for pos, (i, signal, symbol) in enumerate( net_details ):", count=1)]),
    _m('scope-name-from-indexed-attribute', VCD, "      my_name = m.get_field_name()\n", "      my_name = m._dsl.my_name\n"),
    _m('scope-name-top-by-identity', VCD, "      my_name = m.get_field_name()\n      if my_name == \"s\":\n        my_name = \"top\"\n",
       "      if m is top:\n        my_name = \"top\"\n      else:\n        my_name = m.get_field_name()\n"),
    _m('textwave-record-by-dict-call', TW, "    text_sigs = {}\n", "    text_sigs = dict()\n"),
    _m('symbols-by-floordiv-and-mod', VCD, "        q, r = divmod(n, _mod)\n", "        q, r = n // _mod, n % _mod\n"),
    _m('symbols-recursive', VCD,
       "        q, r = divmod(n, _mod)\n        code = _codechars[r]\n        while q > 0:\n          q, r = divmod(q, _mod)\n          code = _codechars[r] + code\n        yield code\n",
       "        def encode( k ):\n          hi, lo = divmod( k, _mod )\n          return ( encode( hi ) if hi > 0 else '' ) + _codechars[ lo ]\n        yield encode( n )\n"),
    _m('symbols-alphabet-one-shorter', VCD, "for i in range(33, 127)])", "for i in range(33, 126)])"),
    _m('value-loop-over-zip', VCD, "      for i, (signal, symbol) in enumerate( net_details ):\n", '      for i, (net, symbol) in enumerate( zip( trimmed_value_nets, net_symbol_mapping ) ):\n        signal = net[0]\n'),
    _m('openloop-edge-list-copied', OPENLOOP, "    ff = SimpleTickPass.gen_tick_function( ffs_no_method )",
       "    edge_funcs = ffs_no_method[::]\n    ff = SimpleTickPass.gen_tick_function( edge_funcs )"),
    _m('named-object-registrations-merged', COMPONENT,
       "    top._dsl.all_named_objects |= added_components\n    top._dsl.all_named_objects |= added_signals\n    top._dsl.all_named_objects |= added_method_ports\n",
       "    top._dsl.all_named_objects |= added_components | added_signals | added_method_ports\n"),
    _m('signal-registrations-by-update', COMPONENT, "    top._dsl.all_signals       |= added_signals\n", "    top._dsl.all_signals.update( added_signals )\n"),
    _m('polled-table-before-clock-symbol', VCD, '    clock_symbol = net_symbol_mapping[ vcd_clock_net_idx ]\n\n    net_details = [ ( trimmed_value_nets[i][0], net_symbol_mapping[i] )\n                    for i in range(len(trimmed_value_nets))\n                      if i != vcd_clock_net_idx ]\n', '    net_details = [ ( trimmed_value_nets[i][0], net_symbol_mapping[i] )\n                    for i in range(len(trimmed_value_nets))\n                      if i != vcd_clock_net_idx ]\n\n    clock_symbol = net_symbol_mapping[ vcd_clock_net_idx ]\n'),
    dict(name='table-size-in-helper-local', edits=[
        dict(file=VCD, old='    last_values = [0 for _ in range(len(trimmed_value_nets))]\n', new='    num_nets = len(trimmed_value_nets)\n    last_values = [0 for _ in range(num_nets)]\n', count=1),
        dict(file=VCD, old='    net_details = [ ( trimmed_value_nets[i][0], net_symbol_mapping[i] )\n                    for i in range(len(trimmed_value_nets))\n                      if i != vcd_clock_net_idx ]\n', new='    net_details = [ ( trimmed_value_nets[i][0], net_symbol_mapping[i] )\n                    for i in range(num_nets)\n                      if i != vcd_clock_net_idx ]\n', count=1)]),
    _m('dump-guard-flipped', PREP, "    if top.has_metadata( VcdGenerationPass.vcd_func ):\n      ret.append( top.get_metadata( VcdGenerationPass.vcd_func ) )\n",
       "    if not top.has_metadata( VcdGenerationPass.vcd_func ):\n      pass\n    else:\n      ret.append( top.get_metadata( VcdGenerationPass.vcd_func ) )\n"),
    _m('vcd-str-conditional-expression', BITS,
       "    if self._nbits == 1:\n      str = f\"{int(self._uint):b}\"\n    else:\n      str = f\"b{int(self._uint):0{self._nbits}b} \"\n    return str\n",
       "    return f\"{int(self._uint):b}\" if self._nbits == 1 else f\"b{int(self._uint):0{self._nbits}b} \"\n"),
]

LEVEL_TEXT = ("Static analysis of the code that produces the waveforms. The tick builders are evaluated symbolically (sequence domain): each "
              "dump function is scheduled exactly once per clock edge, only under the presence of its own metadata key, after the last "
              "combinational pass and before the flip, also in sim_reset. The VCD writer is analysed structurally with the roles of its "
              "closure variables discovered from data flow: printed = compared = stored string, guard = inequality with the net's private "
              "slot, store dominates every print and never precedes the comparison, symbol paired with the signal, only the clock net "
              "excluded, an abstract run of the straight-line part for five consecutive cycle numbers gives one falling and one rising "
              "clock line with increasing equidistant timestamps; the header declares every registered signal of every component with its "
              "type's width under its net's symbol and prints every net's initial value; format-spec analysis of Bits.to_vcd_str / Bits.bin; "
              "template analysis of the generated text-wave function; namespace classification of all exec/custom_exec sites. These are "
              "statements about all designs and all value sequences, which the three substring-comparing unit tests cannot make.")
LEVEL_NOTE = ("Claims the named structural clauses only. Trusted: signals repr as s.<path> and eval back to the shared value object of their "
              "net; print/format/exec semantics of Python; C04/C06/C07/C08 for value range, packing, invisibility of <<= and net sharing. "
              "Not decided: agreement of a written file with an independent VCD parser on real runs, uniqueness of the generated symbol "
              "strings beyond one-generator-one-draw-per-net, the (benign) index-space mismatch of last_values between the initial and "
              "the per-cycle loop, rendering of print_textwave, writes into another function's __globals__ (reported as observation).")
TECHNIQUE = ("symbolic sequence evaluation of schedule builders, guard/dominance and def-use analysis over the ast, string-template and "
             "format-spec partial evaluation, abstract arithmetic run of straight-line code over consecutive counter values, namespace "
             "data-flow classification of exec sites with an embedded positive probe")
